"""C17 — annotation databases return exactly the matching records (AnnotDb.tla).

spec -> code.  TLC explores AnnotDb.tla exhaustively for several constant sets
and emits every transition; the expected answer of every query is the spec's
linear scan.  Each emitted transition is executed on real BasicAnnotationDb /
GffAnnotationDb / GenbankAnnotationDb objects:

  lattice configuration   one-record databases, every span list over the
        coordinate range (1-2 spans, zero-length, both strands, user-added and
        file rows) x every combination of seqid/biotype/name/strand argument
        (absent / matching / not matching) x every window (within, partial,
        start-only, stop-only) -> get_records_matching, get_features_matching,
        num_matches, len, subset.
  history configuration   databases of up to 2 added records (shared names, two
        seqids, duplicates) closed under subset / union / update / deepcopy /
        pickle / json / write+open; every transition from every state that Add
        calls can build is executed, then chains of operations are followed on
        the *resulting real objects* (so the object really has that history)
        and queried again.
  GFF rows go through parse.gff.gff_parser + merged_gff_records as text lines,
  GenBank rows through parse.genbank.parse_feature_table as feature-table text;
  states made only of file rows are additionally written as .gff / .gb files and
  loaded with load_annotations.

code -> spec.  Seeded random call sequences (12-20 calls, continuing with the
object each call returns) are recorded from the real classes and validated by
specs/Trace_AnnotDb.tla, which reuses the actions of AnnotDb.tla; a corrupted
copy of one trace must be rejected (binding self-test).

loading (specs/AnnotDbLoad.tla, harness/load_C17.py).  What records a GFF3 file
denotes: multi-line features, lines without ID, Parent references, seqids=
filter, lines_per_block, loading into a database with records, loading twice;
records incl. parent_id and get_feature_children are compared.

look-alike values (MC_AnnotDb_twins.cfg): seqids / biotypes / names that differ
only in letter case (CDS / cds, chr_1 / Chr_1) or exactly at an underscore
(chr_1 / chrA1, NP_001 / NPx001); the oracle compares strings for equality.

read-only calls beyond the listed property (AnnotDb.tla): a column constrained
to a list of values, count_distinct, describe / biotype_counts.

provenance (specs/AnnotDbProv.tla, harness/prov_C17.py).  Two related objects and
where each lives (memory / bound to a file / in-memory copy of a file-bound
object): update and union between them in both directions, for every combination
of provenances, also after the copy was modified, on all three classes.

design level (no database): the four OR-ed SQL overlap clauses transcribed in
the spec agree with the oracle on the whole interval lattice (SqlAgrees), the
oracle's overlap is "share a position", zero-length records, conversion; the
transcription itself is compared with the SQL text the real
_matching_conditions produces (MODEL-DRIFT only).
"""
from __future__ import annotations

import json
import multiprocessing as mp
import os
import random
import re
import sqlite3
import sys
import time
import zlib
from collections import Counter, defaultdict
from pathlib import Path

import adb_C17 as A
from common import Run, main_wrapper
from graph import _worker_init, skey
from tlc import MachineryError, Scratch, read_emitted, run_tlc

KINDS = ("basic", "gff", "gb")
ADD = ("AddFeature", "AddRow")
MUTATING = ("Update",) + ADD
ROUND = ("Copy", "Pickle", "Json", "WriteLoad")
READONLY = ("Query", "QueryList", "QueryRep", "CountDistinct", "Describe")
NSHARDS = 64

_G: dict = {}


# ------------------------------------------------------------------ job result
class Out:
    def __init__(self):
        self.fails = {}  # key -> [count, detail, what]
        self.n = 0
        self.nontrivial = 0
        self.byact = Counter()
        self.unsupported = 0
        self.samples = []
        self.states = 0

    def fail(self, key, detail, what):
        f = self.fails.get(key)
        if f is None:
            self.fails[key] = [1, detail, what]
        else:
            f[0] += 1

    def count(self, act, nonempty):
        self.n += 1
        self.byact[act] += 1
        if nonempty:
            self.nontrivial += 1

    def merge_into(self, run, totals):
        for key, (cnt, detail, what) in self.fails.items():
            for i in range(cnt):
                run.fail(key, detail if i == 0 else {}, what=what)
        totals["n"] += self.n
        totals["nontrivial"] += self.nontrivial
        totals["unsupported"] += self.unsupported
        totals["states"] += self.states
        totals["byact"].update(self.byact)
        for s in self.samples:
            if len(totals["samples"]) < 40 or ("records_after" in s and sum("records_after" in x for x in totals["samples"]) < 3):
                totals["samples"].append(s)


# ------------------------------------------------------------------ finding keys
def cats_of(q):
    present = [f for f in A.CATS if q[f] != A.ANY]
    return "+".join(present) or "none"


def win_of(q):
    return q["win"] + ("/partial" if q["partial"] else "")


def other_class(view):
    u = sum(r["via"] == "user" for r in view)
    return f"other={u}u{len(view) - u}e"


def arg_class(act, args):
    if act in ("Query", "Subset"):
        return f"cats={cats_of(args[0])}:win={win_of(args[0])}"
    if act == "Union":
        return other_class(args[0])
    if act == "Update":
        return other_class(args[0]) + f":seqids={len(args[2])}"
    if act == "QueryList":
        return f"field={args[1]}:win={win_of(args[0])}"
    if act == "QueryRep":
        return f"rep={args[1]}:cats={cats_of(args[0])}:win={win_of(args[0])}"
    if act == "CountDistinct":
        c = args[0]
        return "group=" + ("+".join(f for f in ("seqid", "biotype", "name") if c[f] == "group") or "none") + ":where=" + ("+".join(f for f in ("seqid", "biotype", "name") if c[f] not in ("no", "group")) or "none")
    if act in ADD:
        n = len(args[0]["spans"] if act == "AddFeature" else args[0]["coords"])
        return f"nspans={n}:ord={args[1]}"
    return "-"


def rel_of(q, first):
    if q["win"] != "both" or first is None:
        return ""
    s, e = (first[6], first[7]) if len(first) == 8 else (min(min(p) for p in first[4]), max(max(p) for p in first[4]))
    return ":rel=" + A.relation(s, e, q["start"], q["stop"])


# --------------------------------------------------------------------- replayer
def is_file(db):
    return getattr(db, "source", ":memory:") != ":memory:"


class Poisoned(Exception):
    """a call that must not change its receiver did; stop using that object"""


class Replayer:
    """executes spec transitions for one base state on one database class"""

    def __init__(self, kind, lookup, workdir, rng, depth, follow_q, follow_ops, follow_subsets=None):
        self.kind = kind
        self.lookup = lookup  # state key -> {label: (act, args, to_view, obs)} or None
        self.workdir = workdir
        self.rng = rng
        self.depth = depth
        self.follow_q = follow_q  # number of queries sampled on derived objects (None = all)
        self.follow_ops = follow_ops
        self.follow_subsets = follow_subsets  # level-1 Subset results explored further (None = all)
        self.out = Out()
        self.paths = []
        self.txn_open = False

    # -- helpers
    def other_kind(self, act, args, label):
        ext = any(a == "AddRow" for a, _r, _o in args[1])
        h = zlib.crc32(label.encode())
        if self.kind == "basic":
            return ("gff" if h % 2 else "gb") if ext else "basic"
        if ext:
            return self.kind
        return "basic" if h % 2 else self.kind

    def applicable(self, act, args):
        if act == "AddRow":
            return self.kind != "basic"
        if act == "Update" and self.kind == "basic":
            # a user-only database cannot be updated from a gff/genbank one (documented TypeError)
            return not any(a == "AddRow" for a, _r, _o in args[1])
        return True

    def materialise(self, chain, observe_last=True):
        """a fresh real object with the given history.  The object found during exploration was
        queried after every call, so the rebuild queries it too (observe_last=False leaves out the
        query after the final call: 'update, then immediately ...')."""
        db = A.classes()[self.kind]()
        for i, (label, act, args) in enumerate(chain):
            if act in ADD:
                A.add(db, self.kind, act, args[0])
            else:
                ok = self.other_kind(act, args, label) if act in ("Union", "Update") else None
                db, _other = A.apply_op(db, self.kind, act, args, self.workdir, other_kind=ok)
                self.track(db)
                if observe_last or i < len(chain) - 1:
                    A.project(db)
        return db

    def track(self, db):
        p = getattr(db, "_verif_path", None)
        if p:
            self.paths.append((db, p))

    def cleanup(self):
        for db, p in self.paths:
            try:
                db.db.close()
            except Exception:
                pass
            try:
                os.unlink(p)
            except OSError:
                pass
        self.paths = []

    def key(self, act, args, db, what):
        """structural key: class, call, argument class, where the receiver lives, what differs"""
        if what.startswith("exception:"):
            # a raised exception is keyed by the coarse shape of the call only
            if act in ("Query", "Subset"):
                q = args[0]
                shape = f"cats={'none' if cats_of(q) == 'none' else 'some'}:win={'none' if q['win'] == 'none' else 'window'}"
            else:
                shape = arg_class(act, args)
            return f"{self.kind}:{act}:{shape}:{'txn=open:' if self.txn_open else ''}{what}"
        src = "memory" if getattr(db, "source", ":memory:") == ":memory:" else "file"
        if self.txn_open:
            src += ":txn=open"  # the previous call left a write transaction open on the receiver
        return f"{self.kind}:{act}:{arg_class(act, args)}:src={src}:{what}"

    def detail(self, view, chain, act, args, **kw):
        d = {"note": "the receiver is queried after every call of its history, except where variant=unobserved (not after the last one)", "class": self.kind, "from": view, "history": [[a, g] for _l, a, g in chain], "act": act, "args": args}
        d.update(kw)
        return d

    # -- queries
    def do_query(self, db, view, chain, q, obs, after):
        out = self.out
        exp8 = sorted(A.spec8(view[i - 1]) for i in obs)
        exp5 = sorted(A.spec5(view[i - 1]) for i in obs)
        kw, nowin = A.query_kwargs(q)
        args = [q]
        self.txn_open = False
        try:
            got8 = sorted(A.rec8(r) for r in db.get_records_matching(**kw))
            got5 = sorted(A.feat5(r) for r in db.get_features_matching(**kw))
            n = db.num_matches(**nowin) if q["win"] == "none" else None
            ln = len(db) if not kw else None
        except Exception as ex:  # the property: the database *returns* the records
            out.fail(self.key("Query", args, db, f"exception:{type(ex).__name__}"), self.detail(view, chain, "Query", args, exception=repr(ex), call_kwargs=kw), f"query raised {type(ex).__name__}")
            return
        out.count("Query", bool(view))
        for api, exp, got in (("records", exp8, got8), ("features", exp5, got5)):
            if exp != got:
                d, first = A.diff_class(exp, got)
                out.fail(
                    self.key("Query", args, db, f"{api}:{d}{rel_of(q, first)}"),
                    self.detail(view, chain, "Query", args, call_kwargs=kw, expected=exp, observed=got, api=f"get_{api}_matching"),
                    f"get_{api}_matching differs from the linear scan",
                )
                return
        if n is not None and n != len(obs):
            nkey = f"{self.kind}:Query:num_matches:" + ("attributes-given" if q["attr"] != A.ANY else f"cats={cats_of(q)}")
            out.fail(nkey, self.detail(view, chain, "Query", args, call_kwargs=nowin, expected=len(obs), observed=n, api="num_matches"), "num_matches differs")
        if ln is not None and ln != len(obs):
            out.fail(self.key("Query", args, db, "len"), self.detail(view, chain, "Query", args, expected=len(obs), observed=ln, api="len"), "len differs")
        if obs and q["win"] != "none" and not any("query" in x for x in out.samples):
            out.samples.append({"class": self.kind, "db": view, "history": [a for _l, a, _g in chain], "query": kw, "selected": obs})

    # -- further read-only calls: value lists, count_distinct, describe / biotype_counts
    def do_read(self, db, view, chain, act, args, obs):
        out = self.out
        self.txn_open = False
        try:
            if act == "QueryList":
                q, f, vs = args
                kw, _nowin = A.query_kwargs(q)
                kw[f] = sorted(vs)
                exp = {"records": sorted(A.spec8(view[i - 1]) for i in obs), "features": sorted(A.spec5(view[i - 1]) for i in obs)}
                got = {"records": sorted(A.rec8(r) for r in db.get_records_matching(**kw)), "features": sorted(A.feat5(r) for r in db.get_features_matching(**kw))}
                if tuple(kw[f]) != tuple(sorted(vs)):
                    raise MachineryError("query arguments were modified by the call")
                got_t = {"records": sorted(A.rec8(r) for r in db.get_records_matching(**{**kw, f: tuple(kw[f])}))}
                out.count(act, bool(view))
                for api in ("records", "features"):
                    if exp[api] != got[api]:
                        d, first = A.diff_class(exp[api], got[api])
                        out.fail(self.key(act, args, db, f"{api}:{d}{rel_of(q, first)}"), self.detail(view, chain, act, args, call_kwargs=kw, expected=exp[api], observed=got[api]), f"get_{api}_matching with a list of values differs from the linear scan")
                        return
                if got_t["records"] != exp["records"]:
                    out.fail(self.key(act, args, db, "records:tuple-differs-from-list"), self.detail(view, chain, act, args, expected=exp["records"], observed=got_t["records"]), "a tuple of values selects differently from a list")
            elif act == "QueryRep":
                import numpy

                q, rep = args
                kw, nowin = A.query_kwargs(q)
                conv = {"int64": numpy.int64, "int32": numpy.int32, "uint8": numpy.uint8, "str_": numpy.str_}[rep]
                for k in list(kw):
                    if (rep == "str_" and isinstance(kw[k], str)) or (rep != "str_" and k in ("start", "stop")):
                        kw[k] = conv(kw[k])
                        if k in nowin:
                            nowin[k] = kw[k]
                exp8 = sorted(A.spec8(view[i - 1]) for i in obs)
                exp5 = sorted(A.spec5(view[i - 1]) for i in obs)
                out.count(act, bool(view))
                calls = [
                    ("get_records_matching", exp8, lambda: sorted(A.rec8(r) for r in db.get_records_matching(**kw))),
                    ("get_features_matching", exp5, lambda: sorted(A.feat5(r) for r in db.get_features_matching(**kw))),
                ]
                if q["win"] == "none":
                    calls.append(("num_matches", len(obs), lambda: db.num_matches(**nowin)))
                    cd = {f: (kw.get(f, False)) for f in ("seqid", "biotype", "name")}
                    free = [f for f in ("seqid", "biotype", "name") if f not in kw]
                    if free and "strand" not in kw and "attributes" not in kw:
                        cd[free[0]] = True
                        calls.append(("count_distinct", len(obs), lambda: sum(int(r[-1]) for r in db.count_distinct(**cd).to_list())))
                calls.append(("subset", exp8, lambda: A.project(db.subset(**kw))))
                for api, exp, call in calls:
                    try:
                        got = call()
                    except Exception as ex:
                        out.fail(f"{self.kind}:QueryRep:rep={rep}:win={q['win']}:{api}:exception:{type(ex).__name__}", self.detail(view, chain, act, args, api=api, exception=repr(ex)), f"{api} raised {type(ex).__name__} for a {rep} argument")
                        continue
                    if got != exp:
                        out.fail(f"{self.kind}:QueryRep:rep={rep}:win={win_of(q)}:{api}:differs-from-plain-argument", self.detail(view, chain, act, args, api=api, expected=exp, observed=got), f"{api} with a {rep} argument differs from the linear scan")
            elif act == "CountDistinct":
                c = args[0]
                kw = {f: (False if c[f] == "no" else True if c[f] == "group" else c[f]) for f in ("seqid", "biotype", "name")}
                t = db.count_distinct(**kw)
                out.count(act, bool(view))
                if obs["none"]:
                    if t is not None:
                        out.fail(self.key(act, args, db, "not-None"), self.detail(view, chain, act, args, observed=repr(t)), "count_distinct without a grouped column must return None")
                    return
                exp = sorted((tuple(sorted(r["key"].items())), r["n"]) for r in obs["rows"])
                if t is None:
                    got = None
                else:
                    header = list(t.header)
                    got = sorted((tuple(sorted((h, v) for h, v in zip(header, row) if h != "count")), int(row[header.index("count")])) for row in t.to_list())
                if got != exp:
                    merged = Counter()
                    for k, n in got or []:
                        merged[k] += n
                    what = "rows-split-by-table" if sorted(merged.items()) == exp else "rows"
                    out.fail(self.key(act, args, db, what), self.detail(view, chain, act, args, call_kwargs=kw, expected=exp, observed=got), "count_distinct rows differ from one row per distinct combination")
            elif act == "Describe":
                import ast

                t = db.describe
                header = list(t.header)
                got = {"seqid": {}, "biotype": {}, "table": {}}
                for row in t.to_list():
                    label, n = row[header.index("")], int(row[header.index("count")])
                    m = re.match(r"(\w+)\((.*)\)$", label)
                    kind_, val = m.group(1), ast.literal_eval(m.group(2))
                    if kind_ == "num_rows":
                        if n:
                            got["table"]["user" if val == "user" else "ext"] = n
                    else:
                        got[kind_][val] = n
                exp = {k: {r["value"]: r["n"] for r in obs[k]} for k in ("seqid", "biotype", "table")}
                bc = dict(db.biotype_counts())
                out.count(act, bool(view))
                for part in ("seqid", "biotype", "table"):
                    if got[part] != exp[part]:
                        out.fail(self.key(act, args, db, f"describe:{part}"), self.detail(view, chain, act, args, expected=exp, observed=got), f"describe: counts per {part} differ")
                        return
                if bc != exp["biotype"]:
                    out.fail(self.key(act, args, db, "biotype_counts"), self.detail(view, chain, act, args, expected=exp["biotype"], observed=bc), "biotype_counts differs")
        except MachineryError:
            raise
        except Exception as ex:
            out.fail(self.key(act, args, db, f"exception:{type(ex).__name__}"), self.detail(view, chain, act, args, exception=repr(ex)), f"{act} raised {type(ex).__name__}")

    # -- state changing / round trip operations
    def do_op(self, db, key, view, chain, label, act, args, to_view, after, level, deeper=True, variant="observed"):
        out = self.out
        mutating = act in MUTATING
        try:
            recv = self.materialise(chain) if mutating else db
        except Exception as ex:
            raise MachineryError(f"could not rebuild history {chain!r}: {ex!r}")
        other = None
        try:
            self.txn_open = bool(recv.db.in_transaction)
        except Exception:
            self.txn_open = False
        try:
            if act in ADD:
                A.add(recv, self.kind, act, args[0])
                res = recv
            else:
                ok = self.other_kind(act, args, label) if act in ("Union", "Update") else None
                res, other = A.apply_op(recv, self.kind, act, args, self.workdir, other_kind=ok)
                self.track(res)
            got = A.project(res)
        except Exception as ex:
            out.fail(self.key(act, args, recv, f"exception:{type(ex).__name__}"), self.detail(view, chain, act, args, exception=repr(ex), variant=variant), f"{act} raised {type(ex).__name__}")
            return
        out.count(act, bool(view) or bool(to_view))
        exp = A.bag_of(to_view)
        if got != exp:
            d, _first = A.diff_class(exp, got)
            what = f"result:{d}"
            still = None
            if not mutating:
                try:
                    still = A.project(recv)
                except Exception as ex:
                    still = repr(ex)
                if still != A.bag_of(view):
                    what += "+receiver-changed"
            out.fail(self.key(act, args, recv, what), self.detail(view, chain, act, args, expected=exp, observed=got, receiver_after=still), f"records after {act} differ from the model")
            if "receiver-changed" in what:
                raise Poisoned()
            return
        if not mutating:
            still = A.project(recv)
            if still != A.bag_of(view):
                out.fail(self.key(act, args, recv, "receiver-changed"), self.detail(view, chain, act, args, expected=A.bag_of(view), observed=still), f"{act} changed the receiver")
                raise Poisoned()
        if other is not None:
            o = A.project(other)
            if o != A.bag_of(args[0]):
                out.fail(self.key(act, args, recv, "other-changed"), self.detail(view, chain, act, args, expected=A.bag_of(args[0]), observed=o), f"{act} changed the other database")
                return
        if act not in ADD and view and level > 1 and not any("records_after" in x for x in out.samples):
            out.samples.append({"class": self.kind, "history": [a for _l, a, _g in chain] + [act], "args": args if act != "Subset" else A.query_kwargs(args[0])[0], "records_after": to_view})
        if is_file(recv) and is_file(res):
            deeper = False  # objects sharing one file are not explored independently
        if deeper and level < self.depth and act not in ADD:  # states built by Add calls are explored as base states
            self.explore(skey(to_view), to_view, res, chain + [(label, act, args)], act, level + 1)

    def explore(self, key, view, db, chain, after, level):
        succ = self.lookup(key)
        if not succ:
            return
        queries = [(l, t) for l, t in succ.items() if t[0] in READONLY]
        ops = [(l, t) for l, t in succ.items() if t[0] not in READONLY and self.applicable(t[0], t[1])]
        self.out.unsupported += sum(1 for l, t in succ.items() if t[0] not in READONLY and not self.applicable(t[0], t[1]))
        if level > 1:
            if self.follow_q is not None and len(queries) > self.follow_q:
                queries = self.rng.sample(queries, self.follow_q)
            if self.follow_ops is not None and len(ops) > self.follow_ops:
                ops = self.rng.sample(ops, self.follow_ops)
        for _l, (act, args, _to, obs) in queries:
            if act == "Query":
                self.do_query(db, view, chain, args[0], obs, after)
            else:
                self.do_read(db, view, chain, act, args, obs)
        if is_file(db):
            # to_json/from_dict of a file-backed database re-opens (and, on this tree, rewrites) the file:
            # make it the last call on that object so that no other case reads the file afterwards
            ops.sort(key=lambda lt: lt[1][0] == "Json")
        go_deeper = None
        if level == 1 and self.depth > 1 and self.follow_subsets is not None:
            subsets = [l for l, t in ops if t[0] == "Subset"]
            go_deeper = set(self.rng.sample(subsets, min(len(subsets), self.follow_subsets)))
        for l, (act, args, to_view, _obs) in ops:
            try:
                deeper = go_deeper is None or act != "Subset" or l in go_deeper
                self.do_op(db, key, view, chain, l, act, args, to_view, after, level, deeper)
                if level > 1 and act in ROUND and after in ("Union", "Update", "Subset"):
                    # the same call on an object with the same history that was never queried in between
                    self.do_op(self.materialise(chain, observe_last=False), key, view, chain, l, act, args, to_view, after, level, False, "unobserved")
            except Poisoned:
                break  # the shared receiver no longer is in the state the spec assumes

    # -- file loading of states made of file rows only
    def from_files(self, view, chain):
        if self.kind == "basic" or not view or any(r["via"] != "ext" for r in view):
            return
        from cogent3.core.annotation_db import load_annotations

        rows = [args[0] for _l, _a, args in chain]
        files = []
        try:
            if self.kind == "gff":
                if len({r["name"] for r in rows}) != len(rows):
                    return  # lines sharing an ID are one multi-line feature by the format's definition
                p = Path(self.workdir) / f"c17-{os.getpid()}.gff"
                p.write_text("##gff-version 3\n" + "".join(l for r in rows for l in A.gff_lines(r)))
                files.append(p)
                db = load_annotations(path=p)
            else:
                db = None
                byseq = defaultdict(list)
                for r in rows:
                    byseq[r["seqid"]].append(r)
                for i, (seqid, rs) in enumerate(byseq.items()):
                    p = Path(self.workdir) / f"c17-{os.getpid()}-{i}.gb"
                    p.write_text(A.gb_file_text(seqid, rs))
                    files.append(p)
                    db = load_annotations(path=p, db=db)
            got = A.project(db)
            self.out.count("LoadFile", True)
            if got != A.bag_of(view):
                d, _f = A.diff_class(A.bag_of(view), got)
                self.out.fail(f"{self.kind}:LoadFile:nrecords={len(rows)}:{d}", {"class": self.kind, "rows": rows, "expected": A.bag_of(view), "observed": got, "files": [f.read_text() for f in files]}, "records loaded from file differ from the model")
        except Exception as ex:
            self.out.fail(f"{self.kind}:LoadFile:nrecords={len(rows)}:exception:{type(ex).__name__}", {"class": self.kind, "rows": rows, "exception": repr(ex)}, "load_annotations raised")
        finally:
            for f in files:
                try:
                    f.unlink()
                except OSError:
                    pass

    # -- one base state
    def run_state(self, key, view, chain):
        if self.kind == "basic" and any(r["via"] == "ext" for r in view):
            return
        try:
            db = self.materialise(chain)
            got = A.project(db)
        except Exception as ex:
            act, args = (chain[-1][1], chain[-1][2]) if chain else ("Init", [])
            self.out.fail(self.key(act, args, None, f"exception:{type(ex).__name__}"), {"class": self.kind, "state": view, "exception": repr(ex)}, "building the state raised")
            return
        if got != A.bag_of(view):
            d, first = A.diff_class(A.bag_of(view), got)
            idx = [i for i, r in enumerate(view) if A.spec8(r) == first]
            act, args = (chain[idx[0]][1], chain[idx[0]][2]) if idx else (chain[-1][1], chain[-1][2])
            self.out.fail(self.key(act, args, db, f"result:{d}"), self.detail(view, chain[:-1], act, args, expected=A.bag_of(view), observed=got), "records after the Add calls differ from the model")
            return
        self.out.states += 1
        try:
            self.explore(key, view, db, chain, "adds", 1)
            self.from_files(view, chain)
        finally:
            self.cleanup()


# ------------------------------------------------------------------- the graph
def add_path(key):
    """labels of the Add calls that build the state `key` (None if Add calls alone cannot)"""
    path = []
    pred = _G["addpred"]
    while key != "[]":
        p = pred.get(key)
        if p is None:
            return None
        fkey, label, act, args = p
        path.append((label, act, args))
        key = fkey
    path.reverse()
    return path


def parse_transition(v):
    act = v["act"]
    args = v.get("args", [])
    return skey(v["from"]), skey([act, args]), (act, args, v.get("to"), v.get("obs"))


def note_add(fkey, label, t):
    act, args, to, _obs = t
    if act in ADD:
        tkey = skey(to)
        cur = _G["addpred"].get(tkey)
        if cur is None or (args[1] == "fwd" and cur[3][1] != "fwd"):
            _G["addpred"][tkey] = (fkey, label, act, args)


def _params():
    return _G["params"]


def _run_group(key, view, succ, kinds, out_total):
    P = _params()
    chain = add_path(key)
    if chain is None:
        return
    h = zlib.crc32(key.encode())
    if len(kinds) == 1:
        pass  # history mode: the job names the class
    elif P["kinds_mode"] == "alternate" and not any(r["via"] == "ext" for r in view):
        # user-only states run on the user-only class and on ONE of the two file classes
        kinds = ("basic", "gff" if h % 2 else "gb")
    elif P["kinds_mode"] == "one" and not any(r["via"] == "ext" for r in view):
        # lattice configurations: each user-only state runs on one of the three classes (the user table and the
        # WHERE-clause code are shared); states holding file rows run on both file classes
        kinds = (KINDS[h % 3],)
    for kind in kinds:
        rng = random.Random(f"{P['seed']}:{kind}:{key}")
        lookup = _lazy_lookup if P["mode"] == "hist" else (lambda k, key=key, succ=succ: succ if k == key else None)
        rp = Replayer(kind, lookup, P["workdir"], rng, P["depth"], P["follow_q"], P["follow_ops"], P.get("follow_subsets"))
        rp.run_state(key, view, chain)
        o = rp.out
        for k, f in o.fails.items():
            cur = out_total.fails.get(k)
            if cur is None:
                out_total.fails[k] = f
            else:
                cur[0] += f[0]
        out_total.n += o.n
        out_total.nontrivial += o.nontrivial
        out_total.unsupported += o.unsupported
        out_total.states += o.states
        out_total.byact.update(o.byact)
        if len(out_total.samples) < 4:
            out_total.samples.extend(o.samples[:2])
        elif not any("records_after" in x for x in out_total.samples):
            out_total.samples.extend(x for x in o.samples if "records_after" in x)


def _shard_task(path):
    """lattice mode: one shard file holds complete groups of transitions (same from-state)"""
    groups = defaultdict(dict)
    views = {}
    with open(path) as fh:
        for line in fh:
            v = json.loads(line)
            fkey, label, t = parse_transition(v)
            groups[fkey][label] = t
            views.setdefault(fkey, v["from"])
    out = Out()
    for key in sorted(groups):
        _run_group(key, views[key], groups[key], _params()["kinds"], out)
    return out


def _hist_task(job):
    key, kind = job
    out = Out()
    _run_group(key, _G["views"][key], None, (kind,), out)
    return out


def shard_emitted(emit, outdir):
    """split TLC's output by from-state without parsing every line in the parent"""
    outdir.mkdir(parents=True, exist_ok=True)
    files = [open(outdir / f"shard-{i}.ndjson", "w") for i in range(NSHARDS)]
    clauses = []
    n = 0
    try:
        with open(emit) as fh:
            for line in fh:
                line = line.strip()
                if not line:
                    continue
                inner = json.loads(line)
                if not isinstance(inner, str):
                    inner = line
                if inner.startswith('{"from":'):
                    j = inner.index(',"act":')
                    head = inner[j : j + 20]
                    if '"Add' in head:
                        fkey, label, t = parse_transition(json.loads(inner))
                        note_add(fkey, label, t)
                    files[zlib.crc32(inner[8:j].encode()) % NSHARDS].write(inner + "\n")
                    n += 1
                else:
                    clauses.append(json.loads(inner))
    finally:
        for f in files:
            f.close()
    return [outdir / f"shard-{i}.ndjson" for i in range(NSHARDS)], clauses, n


def pool_run(task, jobs, run, totals):
    ctx = mp.get_context("fork")
    nproc = min(16, os.cpu_count() or 1)
    with ctx.Pool(nproc, initializer=_worker_init) as pool:
        for out in pool.imap_unordered(task, jobs, chunksize=1):
            out.merge_into(run, totals)


# ----------------------------------------------------------- design-level checks
def check_clauses(run, clauses):
    """the SQL text generated by the real _matching_conditions vs the spec's transcription"""
    seen = set()
    n = 0
    try:
        from cogent3.core.annotation_db import _matching_conditions

        con = sqlite3.connect(":memory:")
        for c in clauses:
            if c.get("act") != "Clause":
                continue
            s, e, q = c["args"]
            sig = (s, e, q["win"], q["start"], q["stop"], q["partial"])
            if sig in seen:
                continue
            seen.add(sig)
            cond = {}
            if q["win"] in ("both", "start"):
                cond["start"] = q["start"]
            if q["win"] in ("both", "stop"):
                cond["stop"] = q["stop"]
            sql, _vals = _matching_conditions(conditions=cond, allow_partial=q["partial"])
            got = bool(con.execute(f"SELECT ({sql}) FROM (SELECT {s} AS start, {e} AS stop)").fetchone()[0])
            n += 1
            if got != c["obs"]:
                run.model_drift(f"WHERE clause for window {q['win']} [{q['start']},{q['stop']}) partial={q['partial']} on extent [{s},{e}) evaluates to {got}; the transcription in AnnotDb.tla (SqlWindow) says {c['obs']}")
    except Exception as ex:
        run.model_drift(f"could not evaluate cogent3's _matching_conditions: {ex!r}")
    return n


def design_checks(run, scratch):
    emit = scratch / "sql.ndjson"
    res = run_tlc("AnnotDb", "MC_AnnotDb_sql.cfg", scratch, workers=4, env={"EMIT_FILE": emit}, must_pass=False)
    run.add_tlc(res)
    if not res.ok:
        if re.search(r"nvariant (of )?SqlAgrees is (equal to FALSE|violated)", res.out):
            run.model_drift("the transcribed SQL overlap clauses (SqlWindow) disagree with the linear-scan oracle on the interval lattice; the replay on the real database decides whether this is a defect")
        else:
            raise MachineryError(f"design-level invariants failed:\n{res.out[-3000:]}")
    if run.tier == "thorough":
        # vacuity guard for SqlAgrees: without the non-empty-window premise it must fail
        neg = run_tlc("AnnotDb", "MC_AnnotDb_sqlneg.cfg", scratch, workers=4, must_pass=False)
        run.note("sql_vs_oracle_on_empty_windows", "differ (expected: the oracle leaves empty windows undefined)" if not neg.ok and "SqlAgreesEvenOnEmptyWindows" in neg.out else "agree")
    nclause = check_clauses(run, list(read_emitted(emit)))
    run.note("sql_clause_cases_compared_with_real_sql_text", nclause)


# ------------------------------------------------------------------------- main
def new_totals():
    return {"n": 0, "nontrivial": 0, "unsupported": 0, "states": 0, "byact": Counter(), "samples": []}


def lattice(run, scratch, cfg, tag, totals):
    emit = scratch / f"{tag}.ndjson"
    t0 = time.time()
    res = run_tlc("AnnotDb", cfg, scratch, workers=16, env={"EMIT_FILE": emit}, heap="6g")
    run.add_tlc(res)
    run.extra.setdefault("wall_by_phase_s", {})[f"{tag}:tlc"] = round(time.time() - t0, 1)
    t0 = time.time()
    _G["addpred"] = {}
    shards, _clauses, n = shard_emitted(emit, scratch / f"{tag}-shards")
    emit.unlink()
    _G["params"] = {"mode": "lattice", "seed": run.seed, "workdir": str(scratch), "depth": 1, "follow_q": None, "follow_ops": None, "kinds": KINDS, "kinds_mode": "one"}
    pool_run(_shard_task, [str(s) for s in shards], run, totals)
    for s in shards:
        s.unlink()
    run.extra["wall_by_phase_s"][f"{tag}:replay"] = round(time.time() - t0, 1)
    return n


def _lazy_lookup(key):
    """history mode: parse the transitions of a state when a worker first needs them"""
    cache = _G.setdefault("parsed", {})
    got = cache.get(key)
    if got is None:
        raw = _G["raw"].get(key)
        if raw is None:
            return None
        got = {}
        for line in raw:
            _f, label, t = parse_transition(json.loads(line))
            got.setdefault(label, t)
        if len(cache) > 3000:
            cache.clear()
        cache[key] = got
    return got


def history(run, scratch, cfg, tag, totals, depth, follow_q, follow_ops, follow_subsets, mode="hist"):
    emit = scratch / f"{tag}.ndjson"
    t0 = time.time()
    res = run_tlc("AnnotDb", cfg, scratch, workers=16, env={"EMIT_FILE": emit}, heap="6g")
    run.add_tlc(res)
    run.extra.setdefault("wall_by_phase_s", {})[f"{tag}:tlc"] = round(time.time() - t0, 1)
    t0 = time.time()
    _G["addpred"] = {}
    raw = defaultdict(list)
    views = {}
    keyof = {}
    seen = set()
    n = 0
    with open(emit) as fh:
        for line in fh:
            line = line.strip()
            if not line:
                continue
            inner = json.loads(line)
            if not isinstance(inner, str):
                inner = line
            if not inner.startswith('{"from":'):
                continue
            h = hash(inner)
            if h in seen:  # TLC evaluates a few transitions twice
                continue
            seen.add(h)
            j = inner.index(',"act":')
            ftxt = inner[8:j]
            key = keyof.get(ftxt)
            if key is None:
                view = json.loads(ftxt)
                key = keyof[ftxt] = skey(view)
                views[key] = view
            raw[key].append(inner)
            n += 1
            if '"Add' in inner[j : j + 20]:
                fkey, label, t = parse_transition(json.loads(inner))
                note_add(fkey, label, t)
    emit.unlink()
    del seen
    _G["raw"], _G["views"], _G["parsed"] = raw, views, {}
    _G["params"] = {"mode": "hist", "seed": run.seed, "workdir": str(scratch), "depth": depth, "follow_q": follow_q, "follow_ops": follow_ops,
                    "follow_subsets": follow_subsets, "kinds": KINDS, "kinds_mode": "alternate" if run.tier == "quick" else "all"}
    base = [k for k in sorted(raw) if add_path(k) is not None]
    jobs = []
    for k in base:
        ext = any(r["via"] == "ext" for r in views[k])
        if ext:
            ks = ("gff", "gb")
        elif run.tier == "quick":  # user-only states: the user-only class and ONE of the two file classes
            ks = ("basic", "gff" if zlib.crc32(k.encode()) % 2 else "gb")
        else:
            ks = KINDS
        jobs.extend((k, kind) for kind in ks)
    pool_run(_hist_task, jobs, run, totals)
    run.note(f"{tag}_states_buildable_by_add_calls", len(base))
    run.note(f"{tag}_spec_states", len(views))
    _G["raw"], _G["views"], _G["parsed"] = {}, {}, {}
    run.extra["wall_by_phase_s"][f"{tag}:replay"] = round(time.time() - t0, 1)
    return n


def check(run: Run):
    tier = run.tier
    totals = new_totals()
    A.classes()  # import cogent3 once, before the worker pools fork
    with Scratch("C17") as probe_dir:
        run.note("update_then_write_returns", not A.probe_write_hang(str(probe_dir)))
    import cogent3.parse.genbank, cogent3.parse.gff, cogent3.util.deserialise  # noqa: E401,F401
    with Scratch("C17") as scratch:
        design_checks(run, scratch)
        if tier == "quick":
            nl = lattice(run, scratch, "MC_AnnotDb_quick.cfg", "lattice", totals)
            nh = history(run, scratch, "MC_AnnotDb_quick_hist.cfg", "hist", totals, depth=2, follow_q=6, follow_ops=6, follow_subsets=4)
        else:
            nl = lattice(run, scratch, "MC_AnnotDb_thorough_user.cfg", "lattice-user", totals)
            nl += lattice(run, scratch, "MC_AnnotDb_thorough_ext.cfg", "lattice-ext", totals)
            nh = history(run, scratch, "MC_AnnotDb_thorough_hist.cfg", "hist", totals, depth=3, follow_q=6, follow_ops=4, follow_subsets=8)
        # attribute tokens (substring match on the attributes column), two-record databases
        na = history(run, scratch, "MC_AnnotDb_attr.cfg", "attr", totals, depth=1, follow_q=None, follow_ops=None, follow_subsets=None)
        # values that differ only in letter case or exactly at a '_' (SQL LIKE would confuse them): exact-value
        # queries, value lists, count_distinct and update(seqids=...) must keep such twins apart
        nt = history(run, scratch, "MC_AnnotDb_twins.cfg", "twins", totals, depth=1, follow_q=None, follow_ops=None, follow_subsets=None)
        run.note("emitted_transitions_twins", nt)
        # code -> spec: recorded random call sequences validated by Trace_AnnotDb.tla
        import trace_C17

        t0 = time.time()
        nev = trace_C17.validate(run, scratch, *((30, 12) if tier == "quick" else (300, 20)))
        run.extra["wall_by_phase_s"]["traces"] = round(time.time() - t0, 1)
        # provenance: a file-bound object and in-memory copies of it as operands of update / union (AnnotDbProv.tla)
        import prov_C17

        t0 = time.time()
        nprov = prov_C17.validate(run, scratch, fraction=0.3 if tier == "quick" else 1.0)
        run.extra["wall_by_phase_s"]["provenance"] = round(time.time() - t0, 1)
        # loading: the records a GFF3 file denotes (AnnotDbLoad.tla)
        import load_C17

        t0 = time.time()
        if tier == "quick":
            nload = load_C17.validate(run, scratch, "MC_AnnotDb_load_quick.cfg", 0.12)
            nload += load_C17.validate(run, scratch, "MC_AnnotDb_load_attrs_quick.cfg", 0.15)
        else:
            nload = load_C17.validate(run, scratch, "MC_AnnotDb_load_quick.cfg", 1.0)
            nload += load_C17.validate(run, scratch, "MC_AnnotDb_load_attrs.cfg", 1.0)
            nload += load_C17.validate(run, scratch, "MC_AnnotDb_load_thorough.cfg", 0.25)
        run.extra["wall_by_phase_s"]["loading"] = round(time.time() - t0, 1)
    acts = dict(totals["byact"])
    needed = {"QueryRep", "QueryList", "CountDistinct", "Describe", "Query", "Subset", "Union", "Update", "Copy", "Pickle", "Json", "WriteLoad", "AddFeature", "AddRow", "LoadFile"}
    if needed - set(acts):
        raise MachineryError(f"vacuous run: no real execution of {sorted(needed - set(acts))}")
    run.cov["traces_validated_against_impl"] = totals["n"] + nev + nprov + nload
    run.cov["evaluations"] = totals["n"] + nev + nprov + nload
    run.cov["distinct_nontrivial"] = totals["nontrivial"] + nprov + nload
    run.cov["rule"] = (
        "a case = (database class, history of calls from an empty database, one more call) taken from the transitions TLC emitted; "
        "every case is executed once on the real class (cases are distinct by construction); non-trivial = the database holds a record "
        "before or after the call. Lattice configurations: every emitted transition is executed for each applicable class. History "
        "configuration: every transition from every state that Add calls can build is executed (depth 1); follow-up calls on the "
        "resulting real objects are a seeded sample of the transitions the spec emitted for the reached state. Recorded events of "
        "seeded random call sequences accepted by Trace_AnnotDb.tla are counted in evaluations, not in distinct_nontrivial. "
        "Provenance model (AnnotDbProv.tla): every update/union between a database and a derived second object (thorough: all; quick: every "
        "provenance combination plus a seeded 30%) is run by replaying its shortest call path on real objects, comparing both objects after "
        "each call; distinct (class, state, call) pairs executed are counted. Loading model (AnnotDbLoad.tla): every emitted load of a file "
        "in which a feature spans several lines, plus a seeded fraction of the other loads (quick 12%; thorough all 1-2 line files and 25% of "
        "the 3 line files), is executed through load_annotations on a written file; each executed transition is a distinct case."
    )
    run.cov["exhaustive"] = False
    run.note("exhaustive_at_depth_1", True)
    run.note("emitted_transitions_lattice", nl)
    run.note("emitted_transitions_history", nh)
    run.note("emitted_transitions_attributes", na)
    run.note("real_executions_by_action", acts)
    run.note("real_states_built", totals["states"])
    run.note("unsupported_transitions_skipped", totals["unsupported"])
    ops_first = [x for x in totals["samples"] if "records_after" in x][:3]
    for s in ops_first + [x for x in totals["samples"] if "records_after" not in x][: 6 - len(ops_first)]:
        run.sample(s)
    run.assumptions += [
        "strand is always given ('+' or '-'); on_alignment, parent/child queries and count_distinct are not modelled",
        "names / seqids / biotypes contain no SQL wildcard (%), attribute tokens are not substrings of other column text",
        "two-sided windows have start <= stop; partial matching is only specified for non-empty windows (start < stop)",
        "GFF lines sharing an ID form one multi-span feature (format definition); GenBank features are named by /gene",
        "comparison is on multisets of (seqid, biotype, name, strand, attribute token, spans, start, stop); row order is not compared",
    ]


if __name__ == "__main__":
    sys.exit(main_wrapper(check, "C17"))
