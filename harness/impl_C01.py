"""C01 helpers: drive the real cogent3 sequence classes and project them.

Nothing here knows what the right answer is: expected displays are rendered from
the spec's symbolic (idx, comp) with the symbol tables the spec emitted; slice
arithmetic, coordinates and outcomes all come from SeqView.tla / PySlice.tla.
"""
from __future__ import annotations

import json
import random

KINDS = ("old", "new", "sdv")
NONSELF = "ACGTRYMKHDBV"  # symbols whose complement differs from themselves
ALLSYM = "ACGTRYMKSWHDBVN-?"

TABLES = {}  # filled from the spec's Meta record


def set_tables(meta):
    TABLES["none"] = meta["none"]
    TABLES["compl"] = {}
    for mol, tab in meta["compl"].items():
        t = dict(tab)
        for g in meta["selfcompl"]:
            t[g] = g
        TABLES["compl"][mol] = t
    TABLES["exchange"] = meta["exchange"]


def render(root, idx, comp, mol):
    """the displayed string of the abstract view (idx, comp) over the concrete root"""
    if comp:
        t = TABLES["compl"][mol]
        return "".join(t[root[i]] for i in idx)
    return "".join(root[i] for i in idx)


def exchange(s, mol):
    t = TABLES["exchange"][mol]
    return "".join(t.get(c, c) for c in s)


def root_string(seed, L, off, variant):
    rnd = random.Random(f"C01-{seed}-{L}-{off}-{variant}")
    if variant == 0:
        return "".join(rnd.sample(NONSELF, L))
    return "".join(rnd.choice(ALLSYM) for _ in range(L))


# --------------------------------------------------------------------- real objects
def make(kind, s, mol, name="s", off=0):
    if kind == "old":
        import cogent3

        return cogent3.make_seq(s, name=name, moltype=mol, annotation_offset=off)
    from cogent3.core.new_moltype import get_moltype

    if kind == "new" or mol != "dna" or name is None:
        return get_moltype(mol).make_seq(seq=s, name=name, annotation_offset=off)
    if off or not s:
        return None  # collections hold no offsets / no empty sequences
    from cogent3.core import new_alignment

    return new_alignment.make_unaligned_seqs({name: s}, moltype=mol).get_seq(name)


# which raw-data representations each constructor takes (the handlers of _coerce_to_seqview / coerce_to_seqs_data_dict)
ACCEPTS = {
    "old": ("str", "bytes", "tuple", "list", "seqview", "sequence"),
    "new": ("str", "bytes", "tuple", "list", "seqview", "sequence"),
    "sdv": ("str", "bytes", "array"),
}


def make_from(kind, rep, s, off, name="s"):
    """(sequence made from `s` given as representation `rep`, the existing object handed over or None,
    the raw data object the caller keeps); None when that constructor does not take the representation"""
    if rep not in ACCEPTS[kind] or (kind == "sdv" and (off or not s)):
        return None
    from cogent3.core.new_moltype import get_moltype

    dna = get_moltype("dna")
    source = None
    if rep == "str":
        data = s
    elif rep == "bytes":
        data = s.encode("utf8")
    elif rep == "tuple":
        data = tuple(s)
    elif rep == "list":
        data = list(s)
    elif rep == "array":
        data = dna.most_degen_alphabet().to_indices(s)
    elif rep == "seqview":
        if kind == "old":
            from cogent3.core.sequence import SeqView

            data = source = SeqView(seq=s, seqid=name)
        else:
            from cogent3.core.new_sequence import SeqView

            data = source = SeqView(seq=s, seqid=name, alphabet=dna.most_degen_alphabet())
    elif rep == "sequence":
        data = source = make(kind, s, "dna", name, 0)
    else:
        raise ValueError(rep)
    if kind == "old":
        cls = type(make("old", "", "dna", name, 0))
        return cls(data, name=name, annotation_offset=off), source, data
    if kind == "new":
        return dna.make_seq(seq=data, name=name, annotation_offset=off, check_seq=isinstance(data, (str, bytes))), source, data
    from cogent3.core import new_alignment

    return new_alignment.make_unaligned_seqs({name: data}, moltype="dna").get_seq(name), source, data


def caller_overwrites(data):
    """the caller reuses the mutable raw data it handed to a constructor; 'ok' if the write went through, 'raised' if refused"""
    try:
        if isinstance(data, list):
            data.reverse()
            data[:1] = ["N"]
        else:  # numpy array of alphabet indices
            data[:] = (data + 1) % 4
        return "ok"
    except (ValueError, TypeError):
        return "raised"


def source_reading(src):
    """what an object handed to a constructor reads: it must read the same afterwards"""
    w = src._seq if hasattr(src, "_seq") else src
    return (str(src), int(w.start), int(w.stop), int(w.step), int(w.offset))


def pyarg(x):
    return None if x == TABLES["none"] else x


def apply_seq(o, act, args):
    """the public call of a spec action on a Sequence"""
    if act == "Slice":
        return o[slice(pyarg(args[0]), pyarg(args[1]), pyarg(args[2]))]
    if act == "Index":
        return o[args[0]]
    if act == "Rc":
        return o.rc()
    if act == "Copy":
        return o.copy(sliced=bool(args[0]))
    if act == "Conv":
        return o.to_rna() if args[0] == "rna" else o.to_dna()
    raise ValueError(act)


def apply_view(w, act, args):
    """the same call one level down, on the view record"""
    if act == "Slice":
        return w[slice(pyarg(args[0]), pyarg(args[1]), pyarg(args[2]))]
    if act == "Index":
        return w[args[0]]
    if act == "Rc":
        return w[::-1]
    raise ValueError(act)


def view_fields(w):
    sid = w.seqid
    return [int(w.start), int(w.stop), int(w.step), int(w.offset), int(w.seq_len), "none" if sid is None else sid]


def compare_seq(r, to, root, obs, diffs, drift, check_fields=True):
    """compare a real Sequence with the abstract state `to`; append names of
    differing observations to diffs, implementation-model-only differences to drift"""
    L, off, mol, sid, idx, comp, fields = to
    exp = render(root, idx, comp, mol)
    got = str(r)
    if got != exp:
        diffs.append("str")
    if len(r) != len(idx):
        diffs.append("len")
    if "".join(r) != exp and got == exp:
        diffs.append("iter")
    if r.moltype.label != mol:
        diffs.append("moltype")
    pc = None
    if idx:
        pc = r.parent_coordinates()
        b = obs["bounds"]
        if ("none" if pc[0] is None else pc[0]) != sid:
            diffs.append("coords.seqid")
        if pc[3] != b[0]:
            diffs.append("coords.strand")
        if not (b[1] <= pc[1] <= b[2]):
            diffs.append("coords.start")
        if not (b[3] <= pc[2] <= b[4]):
            diffs.append("coords.stop")
        if r.annotation_offset != pc[1]:
            diffs.append("annotation_offset")
    if check_fields and not diffs:
        vf = view_fields(r._seq)
        if vf != fields:
            drift.append(("fields", vf, fields))
        elif pc is not None:
            m = obs["model"]
            if [("none" if pc[0] is None else pc[0]), pc[1], pc[2], pc[3]] != m:
                drift.append(("coords", list(pc), m))
    return {"expected_str": exp, "observed_str": got, "observed_coords": list(pc) if pc else None}


def compare_view(w, to, root, diffs, drift, check_fields=True):
    """view level: the raw (uncomplemented) string and the record fields"""
    L, off, mol, sid, idx, comp, fields = to
    exp = render(root, idx, False, mol)
    got = str(w)
    if got != exp:
        diffs.append("str")
    if len(w) != len(idx):
        diffs.append("len")
    if idx and (w.step < 0) != comp:
        diffs.append("direction")
    if check_fields and not diffs:
        vf = view_fields(w)
        if vf != fields:
            drift.append(("fields", vf, fields))
    return {"expected_raw": exp, "observed_raw": got}


# ------------------------------------------------------------- structural classes
def view_class(state):
    """direction and stridedness of a view (what the four slice branches switch on)"""
    L, off, mol, sid, idx, comp, f = state
    if not idx:
        return "empty"
    c = "rev" if comp else "fwd"
    if (len(idx) >= 2 and abs(idx[1] - idx[0]) > 1) or abs(f[2]) > 1:
        c += ",strided"
    return c


def copy_class(state):
    """what Sequence.copy switches on: does the view record carry an annotation offset"""
    return "offset" if state[6][3] else "nooffset"


def conv_class(state):
    return "empty" if not state[4] else ("rev" if state[5] else "fwd")


def arg_class(x, n):
    if x == TABLES["none"]:
        return "N"
    if x == 0:
        return "0"
    if x > 0:
        return "+in" if x < n else "+out"
    return "-in" if -x <= n else "-out"


def label_class(state, act, args):
    n = len(state[4])
    if act == "Slice":
        k = args[2]
        ks = "+1" if k == TABLES["none"] or k == 1 else ("-1" if k == -1 else ("+k" if k > 0 else "-k"))
        return f"k={ks},a={arg_class(args[0], n)},b={arg_class(args[1], n)}"
    if act == "Index":
        return "i=" + arg_class(args[0], n)
    if act == "Copy":
        return "sliced" if args[0] else "unsliced"
    if act == "Conv":
        return "to=" + args[0]
    return ""


# ------------------------------------------------------------- read-only methods
DENY = {
    # random, plotting, annotation (C04) and constructor-like methods
    "shuffle", "add_feature", "annotate_from_gff", "annotate_matches_to", "copy_annotations",
    "get_features", "make_feature", "with_masked_annotations", "gapped_by_map", "gapped_by_map_motif_iter",
    "gapped_by_map_segment_iter", "get_drawable", "get_drawables", "replace_annotation_db", "is_annotated",
    "from_rich_dict", "annotation_db", "info", "moltype", "name", "codon_alphabet", "line_wrap", "protein",
    # the frame itself (checked against the spec, a fresh sequence is a different frame)
    "parent_coordinates", "annotation_offset",
    # serialisation: a view stores (plus-strand segment, step), a representation and not a reading; round trips are C10
    "to_rich_dict", "to_json",
    # spec actions (checked against the spec with the stronger oracle)
    "to_rna", "to_dna", "to_moltype", "rc", "reverse_complement", "copy",
}

SIMILAR = {("A", "G"): 1, ("G", "A"): 1, ("C", "T"): 1, ("T", "C"): 1, ("C", "U"): 1, ("U", "C"): 1}


def method_calls(o, other, otherstr):
    """[(label, thunk)] for every public read-only method of o"""
    first = str(o)[:1] or "A"
    table = {
        "count": [(first,), ("A",), ("-",)],
        "counts": [(), (2,), (1, True), (1, False, True), (1, True, True), (1, False, False, True)],
        "get_in_motif_size": [(1,), (2,), (3,)],
        "get_kmers": [(1,), (2,), (2, False), (3, False)],
        "iter_kmers": [(1,), (2, False)],
        "sliding_windows": [(1, 1), (2, 1), (2, 2)],
        "is_gap": [(), (first,)],
        "replace": [("A", "C"), (first, "N"), (first, "--")],
        "disambiguate": [("strip",)],
        "get_translation": [{"incomplete_ok": True}],
        "to_fasta": [(), (None, 2)],
        "to_html": [(), (2,)],
        "to_phylip": [()],
        "mw": [()],
        "strand_symmetry": [(), (2,)],
        "has_terminal_stop": [()],
        "trim_stop_codon": [()],
        "frac_similar": [(other, SIMILAR)],
        "matrix_distance": [(other, {a: {b: (1 if a != b else 0) for b in ALLSYM + "U"} for a in ALLSYM + "U"})],
    }
    takes_other = {
        "can_match", "can_mismatch", "can_pair", "can_mispair", "must_match", "must_pair", "diff", "distance",
        "frac_same", "frac_diff", "frac_same_gaps", "frac_diff_gaps", "frac_same_non_gaps", "frac_diff_non_gaps",
    }
    calls = []
    for name in sorted(dir(o)):
        if name.startswith("_") or name in DENY:
            continue
        try:
            attr = getattr(o, name)
        except Exception:
            continue
        if not callable(attr):
            continue
        if name in takes_other:
            arglists = [(other,), (otherstr,)]
        else:
            arglists = table.get(name, [()])
        for i, a in enumerate(arglists):
            calls.append((f"{name}#{i}", name, a))
    # dunder protocol the statement names: reads, iterates, measures
    for name, a in (
        ("__str__", ()), ("__len__", ()), ("__iter__", ()), ("__repr__", ()), ("__bytes__", ()), ("__array__", ()),
        ("__contains__", (first,)), ("__contains__", ("AC",)), ("__eq__", (other,)), ("__eq__", (str(o),)),
        ("__ne__", (other,)), ("__lt__", (other,)), ("__hash__", ()), ("__add__", (other,)),
    ):
        if hasattr(o, name):
            calls.append((f"{name}#{'' if not a else ('seq' if a[0] is other else 'str')}", name, a))
    return calls


def norm(x, depth=0):
    """project a method result to comparable JSON-like data"""
    import numpy

    if depth > 6:
        return "<deep>"
    if x is None or isinstance(x, (bool, int, str)):
        return x
    if isinstance(x, float):
        return "nan" if x != x else round(x, 9)
    if isinstance(x, bytes):
        return ["bytes", x.decode("latin1")]
    if isinstance(x, numpy.generic):
        return norm(x.item(), depth + 1)
    if isinstance(x, numpy.ndarray):
        return ["array", [norm(v, depth + 1) for v in x.tolist()]]
    if hasattr(x, "moltype") and hasattr(x, "_seq"):
        return ["seq", x.moltype.label, str(x), x.name]
    if isinstance(x, dict):
        out = {}
        for k, v in x.items():
            if k in ("version", "annotation_offset", "offset"):
                continue
            out[json.dumps(norm(k, depth + 1), sort_keys=True, default=repr)] = norm(v, depth + 1)
        return ["dict", type(x).__name__, sorted(out.items())]
    if isinstance(x, (set, frozenset)):
        return ["set", sorted(json.dumps(norm(v, depth + 1), sort_keys=True, default=repr) for v in x)]
    if isinstance(x, (list, tuple)):
        return [type(x).__name__, [norm(v, depth + 1) for v in x]]
    if hasattr(x, "__next__") or type(x).__name__ == "generator":
        return ["iter", [norm(v, depth + 1) for v in x]]
    if type(x).__name__ == "IndelMap":
        return ["IndelMap", norm(x.gap_pos, depth + 1), norm(x.cum_gap_lengths, depth + 1), int(x.parent_length)]
    if hasattr(x, "to_rich_dict"):
        try:
            return ["rich", type(x).__name__, norm(x.to_rich_dict(), depth + 1)]
        except Exception:
            pass
    r = repr(x)
    if " at 0x" in r:
        return ["obj", type(x).__name__]
    return ["repr", type(x).__name__, r]


def call_norm(o, mname, args):
    try:
        if isinstance(args, dict):
            return norm(getattr(o, mname)(**args))
        x = getattr(o, mname)(*args)
        if mname in ("__repr__", "to_html") and isinstance(x, str):
            # the class of a sequence is judged where it is made (action Conv), not in every rendering of it
            x = x.replace("DnaSequence", "Sequence").replace("RnaSequence", "Sequence")
        return norm(x)
    except Exception as ex:  # same exception class on both sides counts as the same answer
        return ["raised", type(ex).__name__]
