"""C19 fault injection: run ONE real cogent3 write in a forked child with every
file-system call boundary observable, and optionally kill the process or raise
OSError at the k-th boundary.

Boundaries are
  * audit events (sys.addaudithook) whose path argument lies inside the case
    directory: tempfile.mkdtemp, os.mkdir, open, os.remove, os.rename,
    shutil.rmtree, os.rmdir, ...
  * write()/writelines()/close() on file objects returned by cogent3.util.io.open_
    (a close() that fails loses the unflushed tail of the data: the file is truncated, then OSError is raised)
    for a path inside the case directory (a harness-side proxy installed in the
    child only; these calls raise no audit event).
At every boundary the child logs (role, raw event, snapshot of the directory
*before* the call).  mode "kill": os._exit at boundary k (nothing runs after);
mode "fault": the k-th call raises an OSError (handlers run).  The fault is instantiated with the
error a real file system can return there (variant "<ERRNO>:<once|persist>": EIO, EACCES ->
PermissionError, ENOENT -> FileNotFoundError, ENOSPC) and either once or persistently: with
"persist" every later call of the same kind on the same path(s) in that run fails again, so a
retry / fallback that re-issues the call does not get through.  A third field "kill@J" kills the
process at a later boundary J, i.e. while the fault is being handled.  "KeyboardInterrupt" / "SystemExit" in
place of the errno deliver an interrupt at the boundary instead (SIGINT raised for real / SystemExit).

Nothing here decides whether an outcome is acceptable: that is AtomicWrite.tla.
"""
from __future__ import annotations

import errno
import json
import os
import signal
import sys
import time
from pathlib import Path

KILL_STATUS = 77

_WRITE_EVENTS = {
    "tempfile.mkdtemp",
    "tempfile.mkstemp",
    "os.mkdir",
    "open",
    "os.remove",
    "os.rename",
    "os.rmdir",
    "shutil.rmtree",
    "shutil.copyfile",
    "shutil.copymode",
    "shutil.copystat",
    "shutil.move",
    "os.link",
    "os.symlink",
    "os.truncate",
    "os.chmod",
    "os.utime",
    "os.scandir",
    "os.listdir",
}


class Injector:
    def __init__(self, root: Path, dest: Path, k: int, mode: str, logfd: int, variant: str | None = None):
        parts = (variant or "EIO:once").split(":")
        # "KeyboardInterrupt" / "SystemExit" instead of an errno: the k-th boundary is where an interrupt (a BaseException
        # that is not an Exception) is delivered: SIGINT raised for real, or sys.exit() semantics
        self.interrupt = parts[0] if parts[0] in ("KeyboardInterrupt", "SystemExit") else None
        self.errno = errno.EIO if self.interrupt else getattr(errno, parts[0])
        self.persist = parts[1] == "persist"
        # optional second injection "kill@J": the process dies at boundary J > k while the fault is being handled
        self.kill_after = int(parts[2][len("kill@"):]) if len(parts) > 2 else None
        self.failing_site = None
        self.root = str(root)
        self.dest = str(dest)
        self.k = k
        self.mode = mode  # "dry" | "kill" | "fault"
        self.logfd = logfd
        self.idx = 0
        self.active = False
        self.busy = False
        self.tmpdirs = set()

    # ------------------------------------------------------------ logging
    def log(self, obj):
        os.write(self.logfd, (json.dumps(obj) + "\n").encode())

    def snapshot(self):
        """raw content of the case directory (small files): {relpath: hex | "<dir>"}"""
        out = {}
        stack = [self.root]
        while stack:
            d = stack.pop()
            try:
                names = os.listdir(d)
            except OSError:
                continue
            for n in names:
                p = os.path.join(d, n)
                rel = os.path.relpath(p, self.root)
                if os.path.isdir(p):
                    out[rel] = "<dir>"
                    stack.append(p)
                else:
                    try:
                        fd = os.open(p, os.O_RDONLY)
                        try:
                            out[rel] = os.read(fd, 1 << 20).hex()
                        finally:
                            os.close(fd)
                    except OSError:
                        out[rel] = "<unreadable>"
        return out

    # ------------------------------------------------------------ roles
    def _inside(self, p):
        return p == self.root or p.startswith(self.root + os.sep)

    def _paths(self, event, args):
        out = []
        dir_fd = None
        if event in ("os.remove", "os.rmdir") and len(args) >= 2:
            dir_fd = args[1]
        elif event == "os.mkdir" and len(args) >= 3:
            dir_fd = args[2]
        elif event == "os.rename" and len(args) >= 4:
            dir_fd = args[2]
        elif event == "open":
            args = args[:1]
        for a in args:
            if isinstance(a, bytes):
                try:
                    a = a.decode()
                except Exception:
                    continue
            if isinstance(a, os.PathLike):
                a = os.fspath(a)
            if not isinstance(a, str):
                continue
            if not os.path.isabs(a) and isinstance(dir_fd, int) and dir_fd >= 0:
                try:
                    a = os.path.join(os.readlink(f"/proc/self/fd/{dir_fd}"), a)
                except OSError:
                    pass
            elif not os.path.isabs(a):
                a = os.path.abspath(a)
            out.append(a)
        return out

    def role_of(self, event, paths, args):
        dest = self.dest
        if event in ("tempfile.mkdtemp", "tempfile.mkstemp"):
            return "mkdtemp"
        if event == "os.mkdir":
            self.tmpdirs.add(paths[0])
            return "mkdtemp"
        if event == "open":
            p = paths[0]
            mode = args[1] if len(args) > 1 else None
            if p == dest:
                return "open_dest" if (mode and any(c in str(mode) for c in "wax+")) else "read_dest"
            if os.path.isdir(p):
                return "rmtree"
            if mode and any(c in str(mode) for c in "wax+"):
                return "open_tmp"
            return "read_tmp"
        if event == "os.remove":
            return "unlink_dest" if paths[0] == dest else "rmtree"
        if event == "os.rename":
            if paths[-1] == dest:
                return "rename"
            return "rename_from_dest" if paths[0] == dest else "rename_other"
        if event in ("shutil.rmtree", "os.rmdir", "os.scandir", "os.listdir"):
            return "rmtree"
        return "other"

    # ------------------------------------------------------------ boundaries
    def boundary(self, role, raw, can_fail=True):
        """called just BEFORE the call; returns normally, kills, or raises OSError

        can_fail=False: the call cannot fail in reality (close() of an already closed file is a no-op):
        it stays a boundary (kill point) but no OSError is injected into it"""
        self.idx += 1
        kind = "call"
        if self.idx == self.k and self.mode in ("kill", "fault"):
            kind = self.mode
            if kind == "fault" and self.persist:
                self.failing_site = raw
        elif self.kill_after is not None and self.idx == self.kill_after and self.mode == "fault":
            kind = "kill"
        elif self.failing_site is not None and raw == self.failing_site:
            kind = "fault"  # the same call on the same path is issued again: it fails again
        if kind == "fault" and self.interrupt:
            kind = "interrupt"  # a signal can arrive before any call, also before a no-op one
        if kind == "fault" and not can_fail:
            kind = "call"
        self.busy = True
        try:
            self.log({"i": self.idx, "role": role, "raw": raw, "kind": kind, "snap": self.snapshot()})
        finally:
            self.busy = False
        if kind == "kill":
            os._exit(KILL_STATUS)
        if kind == "interrupt":
            if self.interrupt == "SystemExit":
                raise SystemExit(3)
            signal.raise_signal(signal.SIGINT)  # the default handler raises KeyboardInterrupt in this (main) thread
            raise KeyboardInterrupt("C19: SIGINT was not delivered as KeyboardInterrupt")
        if kind == "fault":
            raise OSError(self.errno, f"C19 injected {errno.errorcode[self.errno]} at boundary {self.idx} ({role})")

    def hook(self, event, args):
        if not self.active or self.busy or event not in _WRITE_EVENTS:
            return
        try:
            paths = self._paths(event, args)
        except Exception:
            return
        if not paths or not any(self._inside(p) for p in paths):
            return
        role = self.role_of(event, paths, args)
        if role in ("read_dest", "read_tmp"):
            # reads are boundaries too (zip append reads the staged file), but cannot change state
            pass
        raw = event + " " + " ".join(os.path.relpath(p, self.root) if self._inside(p) else "<outside>" for p in paths)
        self.boundary(role, raw)


class FileProxy:
    """wraps the object returned by open_ for a path in the case directory"""

    def __init__(self, real, inj: Injector, path: str):
        object.__setattr__(self, "_real", real)
        object.__setattr__(self, "_inj", inj)
        object.__setattr__(self, "_path", path)

    def __getattr__(self, name):
        return getattr(self._real, name)

    def __setattr__(self, name, value):
        setattr(self._real, name, value)

    def __iter__(self):
        return iter(self._real)

    def write(self, data):
        self._inj.boundary("write", "write " + self._path)
        return self._real.write(data)

    def writelines(self, lines):
        self._inj.boundary("write", "writelines " + self._path)
        return self._real.writelines(lines)

    def _already_closed(self):
        return bool(getattr(self._real, "closed", False))

    def _lose_unflushed(self):
        """a close() whose flush fails (ENOSPC, EFBIG, EIO): fewer bytes reached the disk than were written.
        The descriptor is released, the tail of the data is lost."""
        inj = self._inj
        path = os.path.join(inj.root, self._path)
        inj.busy = True
        try:
            if os.path.isfile(path):
                os.truncate(path, os.path.getsize(path) // 2)
        except OSError:
            pass
        finally:
            inj.busy = False

    def close(self):
        try:
            self._inj.boundary("close", "close " + self._path, can_fail=not self._already_closed())
        except OSError:
            self._real.close()
            self._lose_unflushed()
            raise
        return self._real.close()

    def __enter__(self):
        self._real.__enter__()  # atomic_write (zip) opens its staged file here
        return self

    def __exit__(self, et, ev, tb):
        try:
            self._inj.boundary("close", "close " + self._path, can_fail=not self._already_closed())
        except OSError:
            self._real.__exit__(et, ev, tb)
            self._lose_unflushed()
            raise
        except BaseException as intr:
            # an interrupt delivered as the body ends: the with statement still runs the real __exit__, with the interrupt
            self._real.__exit__(type(intr), intr, intr.__traceback__)
            raise
        return self._real.__exit__(et, ev, tb)


def install(inj: Injector):
    """child only: audit hook + open_ proxy in every cogent3 module that holds the name"""
    import cogent3.util.io as cio

    orig = cio.open_

    def open_proxy(filename, mode="rt", **kwargs):
        f = orig(filename, mode, **kwargs)
        try:
            p = os.path.abspath(os.path.expanduser(os.fspath(filename)))
        except TypeError:
            return f
        m = mode or "rt"
        if inj.active and inj._inside(p) and any(c in m for c in "wax+"):
            return FileProxy(f, inj, os.path.relpath(p, inj.root))
        return f

    for name, mod in list(sys.modules.items()):
        if name.startswith("cogent3") and mod is not None and getattr(mod, "open_", None) is orig:
            setattr(mod, "open_", open_proxy)
    sys.addaudithook(inj.hook)


def run_in_child(root: Path, dest: Path, k: int, mode: str, logpath: Path, action, timeout=60, variant=None):
    """fork; in the child install the injector and call action(); returns (status, events, end)

    status: "exited" (child ran to the end of action), "killed" (injected kill), "died" (anything else)
    """
    logfd = os.open(str(logpath), os.O_WRONLY | os.O_CREAT | os.O_TRUNC, 0o600)
    sys.stdout.flush()
    sys.stderr.flush()
    pid = os.fork()
    if pid == 0:
        code = 3
        try:
            signal.alarm(timeout)
            signal.signal(signal.SIGINT, signal.default_int_handler)
            inj = Injector(root, dest, k, mode, logfd, variant)
            install(inj)
            how, err = "ok", None
            inj.active = True
            try:
                action()
            except BaseException as ex:  # noqa: BLE001 - the outcome of the call IS the observation
                how, err = "failed", f"{type(ex).__name__}: {ex}"[:300]
            inj.active = False
            inj.log({"end": how, "err": err, "n": inj.idx})
            code = 0
        except BaseException as ex:  # machinery problem inside the child
            try:
                os.write(logfd, (json.dumps({"machinery": repr(ex)}) + "\n").encode())
            except Exception:
                pass
        finally:
            os._exit(code)
    os.close(logfd)
    _, st = os.waitpid(pid, 0)
    events, end = [], None
    for line in Path(logpath).read_text().splitlines():
        rec = json.loads(line)
        if "machinery" in rec:
            raise RuntimeError(f"child machinery failure: {rec['machinery']}")
        if "end" in rec:
            end = rec
        else:
            events.append(rec)
    if os.WIFEXITED(st) and os.WEXITSTATUS(st) == 0 and end is not None:
        status = "exited"
    elif os.WIFEXITED(st) and os.WEXITSTATUS(st) == KILL_STATUS:
        status = "killed"
    else:
        status = f"died:{st}"
    return status, events, end
