"""C19 resume clause: apply_to interrupted after every prefix, then re-run on the same store.

Oracle: specs/AtomicWriteResume.tla (RecOK / ResumeOK / RerunCompletes).  The harness drives the
real `loader + app + write_seqs` pipeline on a real DataStoreDirectory:
  run 1 (store opened in mode "w") in a forked child, interrupted either by KeyboardInterrupt
        raised from the k-th data_store.write / write_not_completed before it does anything, or
        by os._exit at the k-th file-system boundary inside the output directory (audit events +
        write/close of the files the store opens; every boundary of the whole run is used), or by
        an OSError raised by that k-th call (a failing close loses the unflushed data) which aborts apply_to;
  run 2 (same store opened in mode "a", the documented append-only way to resume) in a fresh child.
The store as found after run 1 / run 2 is projected per input to the record states of the spec
(by comparison with the store an uninterrupted run leaves), the test app counts the inputs the
pipeline is invoked for, and the spec's verdict table decides.
"""
from __future__ import annotations

import json
import multiprocessing as mp
import os
import shutil
import tempfile
import threading
from collections import Counter
from pathlib import Path

from tlc import read_emitted, run_tlc

import faults_C19 as faults

IDS = ["ida", "idb", "idc", "idd"]
WORKERS = int(os.environ.get("VERIF_C19_WORKERS", "12"))


# ------------------------------------------------------------------ real pipeline
def make_inputs(indir: Path, n: int):
    indir.mkdir(parents=True)
    for j, i in enumerate(IDS[:n]):
        (indir / f"{i}.fasta").write_text(f">s1\nACGT{'ACGT'[j]}A\n>s2\nAC-T{'TGCA'[j]}A\n>s3\nACGTTA\n")


def _tag_app():
    import tagapp_C19

    return tagapp_C19.c19_tag


def pipeline_action(indir, outdir, mode, fail_ids, callsfile, soft_k, store="dir", idopt="default"):
    def action():
        import multiprocessing.process as mpp

        mpp._parent_process = None  # a forked driver is a master process (else store dirs are not created)
        from cogent3 import get_app, open_data_store
        from cogent3.app.data_store import DataStoreDirectory

        if store == "sqlite":
            from cogent3.app.sqlite_data_store import DataStoreSqlite

            out = DataStoreSqlite(sqlite_path(outdir), mode=mode)
        else:
            out = DataStoreDirectory(outdir, mode=mode, suffix="fasta")
        if soft_k:
            n = [0]

            def wrap(orig):
                def inner(*a, **kw):
                    n[0] += 1
                    if n[0] == soft_k:
                        raise KeyboardInterrupt(f"C19 interrupt at store write {soft_k}")
                    return orig(*a, **kw)

                return inner

            out.write = wrap(out.write)
            out.write_not_completed = wrap(out.write_not_completed)
        loader = get_app("load_aligned", format="fasta", moltype="dna")
        import tagapp_C19

        # where the id_from_source option is given: left out / to apply_to / to the writer's constructor / to both
        wkw = {"id_from_source": tagapp_C19.custom_writer_id} if idopt in ("writer", "both") else {}
        akw = {"id_from_source": tagapp_C19.custom_apply_id} if idopt in ("apply_to", "both") else {}
        if store == "sqlite":
            writer = get_app("write_db", data_store=out, **wkw)
        else:
            writer = get_app("write_seqs", data_store=out, format="fasta", **wkw)

        tag = tagapp_C19.c19_tag_ser if store == "sqlite" else tagapp_C19.c19_tag
        app = loader + tag(fail_ids=fail_ids, callsfile=str(callsfile)) + writer
        ins = open_data_store(indir, suffix="fasta")
        try:
            app.apply_to(ins, show_progress=False, **akw)
        finally:
            if store == "sqlite":
                out.close()

    return action


def sqlite_path(outdir: Path) -> Path:
    return Path(str(outdir) + ".sqlitedb")


def store_snapshot(outdir: Path, store="dir"):
    """{relative path: text} of the store without its logs (sqlite: {record_id: [is_completed, md5, data]})"""
    snap = {}
    if store == "sqlite":
        import sqlite3

        path = sqlite_path(outdir)
        if not path.exists():
            return snap
        db = sqlite3.connect(f"file:{path}?mode=ro", uri=True)
        try:
            for rid, done, md5, data in db.execute("SELECT record_id, is_completed, md5, data FROM results"):
                data = data if isinstance(data, bytes) else str(data).encode()
                md5 = md5.decode() if isinstance(md5, bytes) else md5
                snap[str(rid)] = [int(done), md5, data.hex()]
        except sqlite3.OperationalError:
            pass  # the tables do not exist yet
        finally:
            db.close()
        return snap
    if not outdir.exists():
        return snap
    for p in sorted(outdir.rglob("*")):
        rel = str(p.relative_to(outdir))
        if p.is_file() and not rel.startswith("logs"):
            snap[rel] = p.read_bytes().decode("utf8", "replace")
    return snap


def rec_state(snap, ref, i, isnc, store="dir", prefix=""):
    i = prefix + i  # the record's name as the spec's RecordsNamedBy says
    if store == "sqlite":
        # one row per input holds the record, its checksum and the completed flag; written by one statement
        if i not in snap:
            return "none"
        return "done" if snap[i] == ref[i] else "rec_partial"
    rec = f"not_completed/{i}.json" if isnc else f"{i}.fasta"
    md5 = f"md5/{i}.txt"
    if rec not in snap:
        return "none"
    if snap[rec] != ref[rec]:
        return "rec_partial"
    if md5 not in snap:
        return "rec_nomd5"
    if snap[md5] != ref[md5]:
        return "md5_partial"
    return "done"


def read_calls(path: Path):
    return path.read_text().split() if path.exists() else []


def scenario(job):
    """one interrupted run + re-run; returns raw observations"""
    indir, n, fail_ids, kind, k, scratch = job[:6]
    store = job[6] if len(job) > 6 else "dir"
    idopt = job[8] if len(job) > 8 else "default"
    root = Path(tempfile.mkdtemp(prefix="resume-", dir=scratch))
    try:
        o = root / "o"
        o.mkdir()
        outdir = o / "out"
        c1, c2 = root / "calls1.txt", root / "calls2.txt"
        if kind == "none":
            st1, ev1, end1 = faults.run_in_child(o, outdir, 0, "dry", root / "log1", pipeline_action(indir, outdir, "w", fail_ids, c1, None, store, idopt), timeout=120)
            return {"kind": kind, "k": k, "store": store, "idopt": idopt, "fail_ids": fail_ids, "status1": st1, "end1": end1, "nbound": len(ev1),
                    "events": [(e["role"], e["raw"]) for e in ev1], "calls1": read_calls(c1), "ref": store_snapshot(outdir, store)}
        if kind == "soft":
            st1, ev1, end1 = faults.run_in_child(o, outdir, 0, "dry", root / "log1", pipeline_action(indir, outdir, "w", fail_ids, c1, k, store, idopt), timeout=120)
        elif kind == "fault":
            st1, ev1, end1 = faults.run_in_child(o, outdir, k, "fault", root / "log1", pipeline_action(indir, outdir, "w", fail_ids, c1, None, store, idopt), timeout=120, variant=job[7])
        else:
            st1, ev1, end1 = faults.run_in_child(o, outdir, k, "kill", root / "log1", pipeline_action(indir, outdir, "w", fail_ids, c1, None, store, idopt), timeout=120)
        at = store_snapshot(outdir, store)
        where = next((e["raw"] for e in ev1 if e["i"] == k), None) if kind in ("kill", "fault") else f"store write #{k}"
        st2, ev2, end2 = faults.run_in_child(o, outdir, 0, "dry", root / "log2", pipeline_action(indir, outdir, "a", fail_ids, c2, None, store, idopt), timeout=120)
        return {"kind": kind, "k": k, "store": store, "idopt": idopt, "fail_ids": fail_ids, "status1": st1, "end1": end1, "where": where, "at": at,
                "status2": st2, "end2": end2, "calls1": read_calls(c1), "calls2": read_calls(c2), "final": store_snapshot(outdir, store)}
    finally:
        shutil.rmtree(root, ignore_errors=True)


# --------------------------------------------------------------------------- TLC
def run_models(run, scratch):
    out = {}

    def go(name, cfg, **kw):
        emit = scratch / f"emit-resume-{name}.ndjson"
        try:
            res = run_tlc("AtomicWriteResume", cfg, scratch, workers=2, heap="1g", env={"EMIT_FILE": emit}, **kw)
            out[name] = (res, list(read_emitted(emit)))
        except Exception as ex:  # noqa: BLE001
            out[name] = ex

    ths = [
        threading.Thread(target=go, args=("model", f"MC_AtomicWrite_resume_{run.tier}.cfg")),
        threading.Thread(target=go, args=("cx", "MC_AtomicWrite_resume_cx.cfg"), kwargs={"must_pass": False}),
        threading.Thread(target=go, args=("intended", "MC_AtomicWrite_resume_intended.cfg")),
        threading.Thread(target=go, args=("judge", "MC_AtomicWrite_resume_judge.cfg")),
    ]
    for t in ths:
        t.start()
    for t in ths:
        t.join()
    for v in out.values():
        if isinstance(v, Exception):
            raise v
    cx = out["cx"][0]
    if not (cx.violated and "Invariant ResumeOK is violated" in cx.out):
        raise RuntimeError("TLC did not report the expected counterexample of the resume property:\n" + cx.out[-1500:])
    table = {}
    for r in out["judge"][1]:
        if r.get("act") == "JudgeRec":
            a, c, f, k = r["args"]
            table[(a, bool(c), f, bool(k))] = bool(r["ok"])
    if len(table) != 100:
        raise RuntimeError(f"resume verdict table incomplete: {len(table)}")
    run.note("tlc_runs_resume", {n: {"states": out[n][0].distinct, "transitions": out[n][0].generated, "wall_s": round(out[n][0].wall, 1)} for n in out})
    return out["model"][1], table, [out[n][0] for n in ("model", "cx", "intended")]


def model_outcomes(model):
    """terminal states of the transcribed model: (configuration, nc set, at vector, calls2, final vector, raised)"""
    outs = set()
    for r in model:
        t = r["to"]
        if t["phase"] == "raised" or (t["phase"] == "finished" and t["run"] == 2):
            outs.add((t["cfg"], tuple(sorted(t["nc"])), tuple(t["at"]), tuple(sorted(t["calls2"])), tuple(t["s"]), t["phase"] == "raised"))
    return outs


# ------------------------------------------------------------------------- check
STORES = {"dir": "current", "sqlite": "sqlite"}  # store kind -> configuration of AtomicWriteResume.tla transcribing it


def check_resume(run, scratch: Path, models):
    model, table, tlc_results = models
    for res in tlc_results:
        run.add_tlc(res)
    outs = model_outcomes(model)
    n = 3 if run.tier == "quick" else 4
    indir = scratch / "resume-in"
    make_inputs(indir, n)
    work = scratch / "resume"
    work.mkdir()
    ctx = mp.get_context("fork")
    _tag_app()
    stats = Counter()
    ncsets = [(), (2,)] if run.tier == "quick" else [(), (2,), (4,), (1, 3)]
    with ctx.Pool(WORKERS) as pool:
        plans = []
        order = None
        for store in STORES:
            # the uninterrupted run without failing inputs fixes the processing order
            base = scenario((indir, n, (), "none", 0, str(work), store))
            if base["status1"] != "exited" or base["end1"]["end"] != "ok" or sorted(base["calls1"]) != sorted(IDS[:n]):
                raise RuntimeError(f"uninterrupted apply_to ({store}) did not complete: {base['status1']} {base['end1']} {base['calls1']}")
            if order is None:
                order = base["calls1"]
            if base["calls1"] != order:
                raise RuntimeError(f"processing order differs between store kinds: {order} {base['calls1']}")
            for ncs in ncsets:
                fail_ids = tuple(order[p - 1] for p in ncs)
                ref = base if not ncs else scenario((indir, n, fail_ids, "none", 0, str(work), store))
                if ref["status1"] != "exited" or ref["end1"]["end"] != "ok" or ref["calls1"] != order:
                    raise RuntimeError(f"uninterrupted apply_to ({store}) with failing inputs {fail_ids}: {ref['status1']} {ref['end1']} {ref['calls1']}")
                plans.append((store, "default", ncs, fail_ids, ref))
        # the id_from_source option given to apply_to / to the writer / to both: the spec says which function names the
        # records (RecordsNamedBy); the uninterrupted run must have named them so, then the interrupted prefixes are re-run
        namedby = {}
        for rec in model:
            namedby[rec["from"]["idopt"]] = rec["from"]["namedby"]
        import tagapp_C19

        prefix_of = {o: (tagapp_C19.APPLY_PREFIX if nb == "apply_to_argument" else "") for o, nb in namedby.items()}
        for store in STORES:
            for idopt in sorted(o for o in namedby if o != "default"):
                for ncs in ncsets[:2]:
                    fail_ids = tuple(order[p - 1] for p in ncs)
                    ref = scenario((indir, n, fail_ids, "none", 0, str(work), store, None, idopt))
                    if ref["status1"] != "exited" or ref["end1"]["end"] != "ok" or ref["calls1"] != order:
                        raise RuntimeError(f"uninterrupted apply_to ({store}, id_from_source given to {idopt}): {ref['status1']} {ref['end1']} {ref['calls1']}")
                    expected = {prefix_of[idopt] + i for i in order}
                    if store == "dir":
                        got = {Path(k).name.rsplit(".", 1)[0] for k in ref["ref"] if not k.startswith("md5/")}
                    else:
                        got = set(ref["ref"])
                    stats[f"{store}:naming"] += 1
                    if got != expected:
                        run.fail(f"resume{'' if store == 'dir' else '-' + store}:id_from_source={idopt}:uninterrupted:records-not-named-by-{namedby[idopt]}",
                                 {"store": store, "id_from_source_given_to": idopt, "records_named_by": namedby[idopt], "expected_record_ids": sorted(expected),
                                  "stored_record_ids": sorted(got), "failing_inputs": list(fail_ids)},
                                 what=f"apply_to stored the records as {sorted(got)}, the id_from_source of {namedby[idopt]} makes {sorted(expected)}")
                        continue
                    plans.append((store, idopt, ncs, fail_ids, ref))
        jobs = []
        for store, idopt, ncs, fail_ids, ref in plans:
            for k in range(1, n + 1):
                jobs.append((indir, n, fail_ids, "soft", k, str(work), store, None, idopt))
            if store == "sqlite" or idopt != "default":
                continue  # sqlite: interruption between store writes only (no process kill inside sqlite's own I/O)
            for k in range(1, ref["nbound"] + 1):
                raw = ref["events"][k - 1][1]
                if run.tier == "quick" and ncs and not ("not_completed" in raw or any(f in raw for f in fail_ids)):
                    continue  # quick: with a failing input only the boundaries that differ from the all-complete run
                jobs.append((indir, n, fail_ids, "kill", k, str(work), store))
                # the same boundary as a handled failure: the call raises OSError, apply_to aborts, the store is re-run
                role = ref["events"][k - 1][0]
                jobs.append((indir, n, fail_ids, "fault", k, str(work), store, "ENOSPC:once" if role in ("write", "close") else "EIO:once"))
        results = pool.map(scenario, jobs, chunksize=1)
    refs = {(store, idopt, fail_ids): (ncs, ref) for store, idopt, ncs, fail_ids, ref in plans}
    observed = set()
    for r in results:
        store = r["store"]
        idopt = r["idopt"]
        ncs, ref = refs[(store, idopt, r["fail_ids"])]
        pre_ = prefix_of[idopt]
        stats[f"{store}:{r['kind']}"] += 1
        if idopt != "default":
            stats["id_from_source_option_scenarios"] += 1
        refsnap = ref["ref"]
        isnc = {i: (i in r["fail_ids"]) for i in order}
        at = [rec_state(r["at"], refsnap, i, isnc[i], store, pre_) for i in order]
        fin = [rec_state(r["final"], refsnap, i, isnc[i], store, pre_) for i in order]
        calls2 = r["calls2"]
        raised = not (r["status2"] == "exited" and r["end2"]["end"] == "ok")
        expected_status1 = "killed" if r["kind"] == "kill" else "exited"
        if r["status1"] != expected_status1:
            raise RuntimeError(f"resume scenario {store} {r['kind']}@{r['k']}: run 1 ended {r['status1']} {r['end1']}")
        detail = {
            "store": {"dir": "DataStoreDirectory + write_seqs", "sqlite": "DataStoreSqlite + write_db"}[store],
            "id_from_source_given_to": idopt,
            "inputs_in_processing_order": order,
            "failing_inputs": list(r["fail_ids"]),
            "interrupt": r["kind"],
            "k": r["k"],
            "where": r["where"],
            "record_states_at_interrupt": at,
            "invoked_in_rerun": calls2,
            "record_states_after_rerun": fin,
            "rerun_exception": (r["end2"] or {}).get("err") if raised else None,
            "store_at_interrupt": sorted(r["at"]),
            "store_after_rerun": sorted(r["final"]),
            "store_uninterrupted": sorted(refsnap),
        }
        pfx = "resume" if store == "dir" else f"resume-{store}"
        if idopt != "default":
            pfx += f":id_from_source={idopt}"
        bad = False
        if raised:
            exc = (detail["rerun_exception"] or r["status2"]).split(":")[0]
            pre = ["present"] if any(isnc[i] and a != "none" for i, a in zip(order, at)) else []
            bad = True
            run.fail(f"{pfx}:{r['kind']}:rerun-raises:{exc}:nc-record={'+'.join(pre) or 'none'}", detail,
                     what=f"re-running apply_to in append mode raised {detail['rerun_exception']}")
        else:
            if len(calls2) != len(set(calls2)):
                bad = True
                run.fail(f"{pfx}:{r['kind']}:input-processed-twice", detail, what="an input was processed twice in the re-run")
            for i, a, f in zip(order, at, fin):
                if not table[(a, i in calls2, f, isnc[i])]:
                    bad = True
                    run.fail(f"{pfx}:{r['kind']}:record{'(not-completed)' if isnc[i] else ''}:at-interrupt={a}:reprocessed={i in calls2}:final={f}",
                             {**detail, "input": i}, what=f"input {i}: {a} at interrupt ({r['where']}), reprocessed={i in calls2}, final={f}")
            extra = sorted(set(r["final"]) - set(refsnap))
            if extra:
                bad = True
                run.fail(f"{pfx}:{r['kind']}:unexpected-members", {**detail, "extra": extra}, what=f"the resumed store holds members an uninterrupted run does not: {extra}")
        stats["bad" if bad else "good"] += 1
        # conformance with the transcribed model (outcome level)
        obs = (STORES[store], tuple(ncs), tuple(at), tuple(sorted(order.index(c) + 1 for c in set(calls2))), tuple(fin), raised)
        observed.add(obs)
        if obs not in outs:
            stats["not_a_model_outcome"] += 1
            run.model_drift(f"resume outcome is not an outcome of the transcribed model: {store} {r['kind']}@{r['k']} {obs}")
        else:
            run.cov["traces_validated_against_impl"] += 1
        if (r["kind"] in ("kill", "fault") and (bad or r["k"] % 9 == 0)) or (store == "sqlite" and r["fail_ids"] and r["k"] == n):
            run.sample({"resume": r["kind"], "store": store, "where": r["where"], "failing": list(r["fail_ids"]), "at": at, "reprocessed": calls2, "final": fin, "rerun_raised": raised}, limit=14 if store == "dir" else 18)
    bad_model = {o for o in outs if o[5] or any(not table[(a, (j + 1) in o[3], f, (j + 1) in o[1])] for j, (a, f) in enumerate(zip(o[2], o[4])))}
    # reproduction is required where the kill points are fully driven: the directory store (quick: without failing input)
    bad_model = {o for o in bad_model if o[0] == "current" and not (run.tier == "quick" and o[1])}
    missing = sorted(bad_model - observed)
    run.note("resume_model_outcomes", len(outs))
    run.note("resume_predicted_counterexamples", len(bad_model))
    run.note("resume_predicted_counterexamples_reproduced", len(bad_model) - len(missing))
    run.note("resume_predicted_not_reproduced", [list(map(list, m[1:5])) + [m[5]] for m in missing[:10]])
    for m in missing:
        run.model_drift(f"resume counterexample of the transcribed model not reproduced on the real code: {m}")
    run.note("resume_scenarios", dict(stats))
    run.note("resume_boundaries_per_run", {f"{store}:{list(ncs)}": ref["nbound"] for store, idopt, ncs, _, ref in plans if idopt == "default"})
    run.note("id_from_source_records_named_by", namedby)
    nsc = sum(v for k, v in stats.items() if k.endswith((":soft", ":kill", ":fault")))
    run.cov["evaluations"] += nsc
    run.cov["distinct_nontrivial"] += nsc
