"""C11 — the likelihood is invariant under relabelling, reordering and re-rooting.

Invariance.tla proves, exactly on the Felsenstein model (TN93 family), that moving the root to
any inner node (time-reversible) and splitting an edge into two composing edges
(time-homogeneous) leave every site likelihood unchanged; column/sequence/child order and
column repetition are invariances by construction of the model (sets of children, product
over columns).  The harness (a) applies the emitted root moves / edge splits to the real
likelihood functions of the exact configurations and (b) applies the same transformation
list relationally to real problems of every model class (nucleotide incl. non-reversible,
codon, protein) with seeded alignments (ambiguities, gaps) and parameters: lnL before and
after must agree (rtol 1e-9); for RepeatColumns(k) lnL' = k lnL.
"""
from __future__ import annotations

import math
import random
import sys
from fractions import Fraction

from common import Run, main_wrapper
from tlc import Scratch, read_emitted, run_tlc

RTOL = 1e-9


def close(a, b, rtol=RTOL):
    return abs(a - b) <= rtol * max(1.0, abs(a), abs(b))


# measured float noise of exp(Qt) composition for 61- / 20-state models on the unchanged tree is ~3e-9
# relative (SplitEdge, CNFGTR); the tolerance is >= 100x that.  4-state models stay at 1e-9.
KIND_RTOL = {"nucleotide": 1e-9, "codon": 1e-6, "protein": 1e-6}


def frac(r):
    return Fraction(r[0], r[1])


# ------------------------------------------------------------------ newick helpers
def to_newick(node, order=None, split=None):
    """Serialise a cogent3 tree (lengths kept); `order`: random.Random to shuffle children;
    `split`: (tip name, fraction) inserts a single-child node on that tip's edge."""
    kids = list(node.children)
    if order is not None:
        order.shuffle(kids)
    length = "" if node.length is None or node.parent is None else f":{node.length!r}"
    if not kids:
        if split and split[0] == node.name:
            l1 = node.length * split[1]
            l2 = node.length - l1
            return f"({node.name}:{l1!r}){node.name}_split:{l2!r}"
        return f"{node.name}{length}"
    inner = ",".join(to_newick(k, order, split) for k in kids)
    name = node.name if node.parent is not None and node.name else ""
    return f"({inner}){name}{length}"


# ------------------------------------------------------------------ problems
def random_problem(rnd, kind):
    from cogent3 import make_aligned_seqs, make_tree

    taxa = ["a", "b", "c", "d", "e"]
    L = [round(rnd.uniform(0.03, 0.5), 3) for _ in range(8)]
    nwk = f"((a:{L[0]},b:{L[1]}):{L[2]},(c:{L[3]},(d:{L[4]},e:{L[5]}):{L[6]}):{L[7]})"
    tree = make_tree(nwk)
    n = 12
    if kind == "nucleotide":
        cols = []
        for _ in range(n * 2):
            base = rnd.choice("ACGT")
            col = [base if rnd.random() < 0.7 else rnd.choice("ACGT") for _ in taxa]
            r = rnd.random()
            if r < 0.15:
                col[rnd.randrange(5)] = rnd.choice("RYN-")
            cols.append(col)
        seqs = {t: "".join(c[i] for c in cols) for i, t in enumerate(taxa)}
        mt, ml = "dna", 1
    elif kind == "codon":
        from cogent3 import get_code

        sense = [c for c in get_code(1).sense_codons] if hasattr(get_code(1), "sense_codons") else None
        if not sense:
            sense = [a + b + c for a in "TCAG" for b in "TCAG" for c in "TCAG" if a + b + c not in ("TAA", "TAG", "TGA")]
        cols = []
        for _ in range(n):
            base = rnd.choice(sense)
            col = [base if rnd.random() < 0.6 else rnd.choice(sense) for _ in taxa]
            r = rnd.random()
            if r < 0.15:
                col[rnd.randrange(5)] = "---"
            elif r < 0.3:
                # a codon known only in part (frame-breaking gap / N): compatible with the sense codons matching its known positions
                k = rnd.randrange(5)
                c = list(col[k])
                c[rnd.randrange(3)] = rnd.choice("-N")
                col[k] = "".join(c)
            cols.append(col)
        seqs = {t: "".join(c[i] for c in cols) for i, t in enumerate(taxa)}
        mt, ml = "dna", 3
    else:
        aas = "ACDEFGHIKLMNPQRSTVWY"
        cols = []
        for _ in range(n * 2):
            base = rnd.choice(aas)
            col = [base if rnd.random() < 0.6 else rnd.choice(aas) for _ in taxa]
            if rnd.random() < 0.1:
                col[rnd.randrange(5)] = rnd.choice("X-")
            cols.append(col)
        seqs = {t: "".join(c[i] for c in cols) for i, t in enumerate(taxa)}
        mt, ml = "protein", 1
    aln = make_aligned_seqs(seqs, moltype=mt)
    return tree, aln, ml


def lnl(model, tree, aln, params, mprobs=None):
    from cogent3 import get_model

    sm = get_model(model)
    lf = sm.make_likelihood_function(tree)
    lf.set_alignment(aln)
    if mprobs is not None:
        lf.set_motif_probs(mprobs)
    for p, v in params.items():
        lf.set_param_rule(p, value=v, is_constant=True)
    return lf.lnL


MODELS = {
    # name: (kind, reversible)
    "JC69": ("nucleotide", True),
    "F81": ("nucleotide", True),
    "HKY85": ("nucleotide", True),
    "TN93": ("nucleotide", True),
    "GTR": ("nucleotide", True),
    "GN": ("nucleotide", False),
    "ssGN": ("nucleotide", False),
    "MG94HKY": ("codon", True),
    "GY94": ("codon", True),
    "CNFGTR": ("codon", True),
    "JTT92": ("protein", True),
}


def relational(run, seed, models, nproblems):
    from cogent3 import get_model, make_tree

    rnd = random.Random(seed)
    ncases = 0
    guards = {}
    for name in models:
        kind, reversible = MODELS[name]
        for pi in range(nproblems):
            tree, aln, ml = random_problem(rnd, kind)
            sm = get_model(name)
            lf0 = sm.make_likelihood_function(tree)
            params = {p: rnd.choice([0.4, 0.8, 1.7, 3.0]) for p in lf0.get_param_names() if p not in ("mprobs", "length", "psmprobs")}
            mprobs = None
            if kind == "nucleotide" and name not in ("JC69", "K80"):
                w = [rnd.uniform(0.5, 2.0) for _ in range(4)]
                mprobs = {b: x / sum(w) for b, x in zip("TCAG", w)}
            base = lnl(name, tree, aln, params, mprobs)

            def expect(tag, value, want=base):
                nonlocal ncases
                ncases += 1
                if not close(value, want, KIND_RTOL[kind]):
                    run.fail(f"relational:{kind}:{'reversible' if reversible else 'non-reversible'}:{tag}", {"model": name, "transform": tag, "lnL_before": want, "lnL_after": value, "newick": tree.get_newick(with_distances=True), "params": params, "alignment": aln.to_dict()}, what=f"lnL changed under {tag} ({name})")

            ncol = len(aln) // ml
            perm = list(range(ncol))
            rnd.shuffle(perm)
            pos = [p * ml + k for p in perm for k in range(ml)]
            expect("PermuteColumns", lnl(name, tree, aln.take_positions(pos), params, mprobs))
            names = list(aln.names)
            rnd.shuffle(names)
            expect("ReorderSeqs", lnl(name, tree, aln.take_seqs(names), params, mprobs))
            expect("ReorderChildren", lnl(name, make_tree(to_newick(tree, order=rnd) + ";"), aln, params, mprobs))
            k = rnd.choice([2, 3])
            rep = aln
            for _ in range(k - 1):
                rep = rep + aln
            expect(f"RepeatColumns", lnl(name, tree, rep, params, mprobs), want=k * base)
            # merging identical columns == repeating them: each column k times side by side
            adj = [p * ml + j for p in range(ncol) for _ in range(k) for j in range(ml)]
            expect("RepeatColumnsAdjacent", lnl(name, tree, aln.take_positions(adj), params, mprobs), want=k * base)
            tip = rnd.choice(["a", "b", "c", "d", "e"])
            expect("SplitEdge", lnl(name, make_tree(to_newick(tree, split=(tip, rnd.uniform(0.2, 0.8))) + ";"), aln, params, mprobs))
            # splits whose pieces are very unequal: one piece of 1e-9 / 1e-12 (still a positive length) on either side.
            # A piece of exactly 0.0 is NOT used: cogent3 reads a zero length in a tree as "no length given"
            # (tests/test_evolve/test_likelihood_function.py::test_lengths_as_ens_model_mix pins that), so it is no split.
            tl = tree.get_node_matching_name(tip).length
            for piece in (1e-9, 1e-12):
                for fr in (piece / tl, 1.0 - piece / tl):
                    if not (tl * fr > 0.0 and tl - tl * fr > 0.0):
                        continue  # float rounding produced a zero piece: not a split (see above)
                    expect("SplitEdge:tiny-piece", lnl(name, make_tree(to_newick(tree, split=(tip, fr)) + ";"), aln, params, mprobs))
            if reversible:
                # the root moved ONTO an edge (anywhere on the tree, not only to existing nodes): in the middle of it and
                # a hair's breadth (1e-9, 1e-15) from its end
                for tag, fr in (("interior", rnd.uniform(0.2, 0.8)), ("near-node", 1e-9 / tl), ("near-node", 1.0 - 1e-15 / tl)):
                    if not (tl * fr > 0.0 and tl - tl * fr > 0.0):
                        continue
                    st = make_tree(to_newick(tree, split=(tip, fr)) + ";")
                    expect(f"MoveRootOntoEdge:{tag}", lnl(name, st.rooted_at(f"{tip}_split"), aln, params, mprobs))
                # a ROOTED tree (two children at the root, the root sitting on a tip's edge) written with its root children
                # in either order, and the library's own root-removing / root-moving methods applied to it: unrooted()
                # dissolves the inner root child and must carry its length over to the other child whatever the order
                st = make_tree(to_newick(tree, split=(tip, rnd.uniform(0.2, 0.8))) + ";")
                kids = [c.get_newick(with_distances=True).rstrip(";") for c in st.rooted_at(f"{tip}_split").children]
                kids.sort(key=lambda k: k.startswith("("))
                for order_tag, ks in (("tip-first", kids), ("clade-first", kids[::-1])):
                    two = make_tree("(" + ",".join(ks) + ");")
                    expect(f"RootOnEdge:{order_tag}", lnl(name, two, aln, params, mprobs))
                    expect(f"Unrooted:{order_tag}", lnl(name, two.unrooted(), aln, params, mprobs))
                    expect(f"UnrootedDeepcopy:{order_tag}", lnl(name, two.unrooted_deepcopy(), aln, params, mprobs))
                    expect(f"RootAtMidpoint:{order_tag}", lnl(name, two.root_at_midpoint(), aln, params, mprobs))
                    other = rnd.choice([t for t in ("a", "b", "c", "d", "e") if t != tip])
                    expect(f"RootedWithTip:{order_tag}", lnl(name, two.rooted_with_tip(other), aln, params, mprobs))
            if kind == "nucleotide" and mprobs is not None and reversible:
                # (models whose motif probabilities are free parameters - GN, ssGN - take the data's frequencies only as a
                # start value, with a pseudocount: not covered by this clause)
                # motif probabilities TAKEN FROM THE DATA by an explicit call with every option at its default, on data that
                # lack one base altogether: repeating every column k times leaves the frequencies, hence the process, the same
                from cogent3 import make_aligned_seqs as _mas

                lack = _mas({n_: str(s_).replace("G", "A").replace("R", "A") for n_, s_ in aln.to_dict().items()}, moltype="dna")
                lack_rep = lack
                for _ in range(k - 1):
                    lack_rep = lack_rep + lack

                def from_data(a_):
                    lf_ = get_model(name).make_likelihood_function(tree)
                    lf_.set_alignment(a_)
                    lf_.set_motif_probs_from_data(a_)
                    for p_, v_ in params.items():
                        lf_.set_param_rule(p_, value=v_, is_constant=True)
                    return lf_.lnL

                expect("RepeatColumns:motif-probs-from-data:a-base-absent", from_data(lack_rep), want=k * from_data(lack))
            # the numeric TYPE of the branch lengths carried by the tree is a representation: numpy.float32 / float16 lengths
            # (a tree built from arrays) must give what Python floats of the same value give (no transform on top: adding two float16 lengths rounds differently)
            import numpy as _np

            for ftype in (_np.float32, _np.float16):
                tnp, tpy = tree.deepcopy(), tree.deepcopy()
                for a_, b_ in zip(tnp.get_edge_vector(include_root=False), tpy.get_edge_vector(include_root=False)):
                    a_.length = ftype(a_.length)
                    b_.length = float(ftype(b_.length))
                want_t = lnl(name, tpy, aln, params, mprobs)
                expect(f"LengthType:{ftype.__name__}", lnl(name, tnp, aln, params, mprobs), want=want_t)
            roots = [e.name for e in tree.get_edge_vector(include_root=False) if not e.is_tip()]
            for r in roots:
                val = lnl(name, tree.rooted_at(r), aln, params, mprobs)
                if reversible:
                    expect("MoveRoot", val)
                else:
                    guards.setdefault(name, []).append(abs(val - base) > 1e-6)
            for t in ("a", "d"):
                val = lnl(name, tree.rooted_with_tip(t), aln, params, mprobs)
                if reversible:
                    expect("MoveRootBesideTip", val)
    # edge-specific parameters CARRIED BY THE TREE (lf.get_annotated_tree()): moving the root must move every edge's
    # parameters with the edge (time-reversible models with shared motif probs stay reversible edge by edge)
    ncases += annotated_reroot(run, rnd, [m for m in models if MODELS[m][1] and MODELS[m][0] != "protein"])
    # very many distinct site patterns (beyond 2**16) under a clade that is not the first child
    ncases += large_alignment(run, rnd)
    # wide polytomies: many children under one node (site patterns are indexed per node from the children's patterns)
    ncases += polytomy_cases(run, rnd)
    # non-vacuity of the reversibility guard: root placement DOES matter for non-reversible models
    run.note("root_matters_for_non_reversible", {m: any(v) for m, v in guards.items()})
    return ncases


def annotated_reroot(run, rnd, models):
    from cogent3 import get_model

    n = 0
    for name in models:
        kind, _ = MODELS[name]
        tree, aln, ml = random_problem(rnd, kind)
        sm = get_model(name)
        lf = sm.make_likelihood_function(tree)
        lf.set_alignment(aln)
        mp = lf.get_motif_probs()
        pars = [p for p in lf.get_param_names() if p not in ("mprobs", "length", "psmprobs")]
        if not pars:
            continue
        edges = [e.name for e in tree.get_edge_vector(include_root=False)]
        for p in pars:
            for e in edges:
                lf.set_param_rule(p, edge=e, value=rnd.choice([0.3, 0.6, 1.4, 2.2, 3.5, 5.0]), is_constant=True)
        base = lf.lnL
        at = lf.get_annotated_tree()
        targets = [("node", e.name) for e in at.get_edge_vector(include_root=False) if not e.is_tip()] + [("tip", "a"), ("tip", "d")]
        for how, r in targets:
            rt = at.rooted_at(r) if how == "node" else at.rooted_with_tip(r)
            lf2 = sm.make_likelihood_function(rt)   # per-edge values are read from the tree
            lf2.set_alignment(aln)
            lf2.set_motif_probs(mp)
            n += 1
            if not close(lf2.lnL, base, KIND_RTOL[kind]):
                kept = {e.name: {k: v for k, v in e.params.items() if k in pars} for e in rt.get_edge_vector(include_root=False)}
                run.fail(f"relational:{kind}:reversible:MoveRoot:edge-parameters-on-the-tree:{how}", {"model": name, "root": r, "lnL_before": base, "lnL_after": lf2.lnL, "newick": at.get_newick(with_distances=True), "edge_params_after": kept}, what=f"lnL changed when the root of a tree carrying edge-specific parameters was moved ({name})")
    return n


def large_alignment(run, rnd):
    """72000 random columns on 11 taxa: the 10-taxon clade X of (a, X) has more than 2**16 distinct site patterns.
    lnL must not depend on child order, on the root, or on how the columns are split into blocks."""
    import numpy as np
    from cogent3 import make_aligned_seqs, make_tree

    taxa = list("abcdefghijk")
    ncol = 72000
    arr = np.array(list("ACGT"))[np.random.RandomState(rnd.randrange(10**6)).randint(0, 4, size=(len(taxa), ncol))]
    seqs = {t: "".join(arr[i]) for i, t in enumerate(taxa)}
    aln = make_aligned_seqs(seqs, moltype="dna")
    X = "((((b:0.1,c:0.2)n1:0.1,(d:0.15,e:0.1)n2:0.1)n3:0.05,((f:0.1,g:0.3)n4:0.1,(h:0.2,i:0.1)n5:0.2)n6:0.1)n7:0.1,(j:0.3,k:0.2)n8:0.1)X:0.2"
    params = {"kappa": 2.0}
    mprobs = {"A": 0.25, "C": 0.25, "G": 0.25, "T": 0.25}
    t1 = make_tree(f"(a:0.2,{X});")
    t2 = make_tree(f"({X},a:0.2);")
    base = lnl("HKY85", t1, aln, params, mprobs)
    n = 0
    for tag, val in (("ReorderChildren", lnl("HKY85", t2, aln, params, mprobs)),
                     ("MoveRoot", lnl("HKY85", t1.rooted_at("n3"), aln, params, mprobs)),
                     ):
        n += 1
        if not close(val, base, 1e-9):
            run.fail(f"large-alignment:{tag}", {"ncolumns": ncol, "ntaxa": len(taxa), "lnL_before": base, "lnL_after": val}, what=f"lnL of a 72000-column alignment (more than 2**16 site patterns in one clade) changed under {tag}")
    return n


def polytomy_cases(run, rnd):
    """Star trees with many tips: column order, child order and repetition must not matter, and lnL must equal the
    sum of the single-column lnLs (columns are independent)."""
    from cogent3 import make_aligned_seqs, make_tree

    n = 0
    for model, kind, ntips, ncols in (("HKY85", "nucleotide", 24, 48), ("GY94", "codon", 11, 14), ("HKY85", "nucleotide-gapped", 70, 36)):
        gapped = kind.endswith("-gapped")
        kind = kind.split("-")[0]
        tips = [f"t{i:02d}" for i in range(ntips)]
        lens = [round(rnd.uniform(0.05, 0.4), 3) for _ in tips]
        nwk = "(" + ",".join(f"{t}:{l}" for t, l in zip(tips, lens)) + ");"
        tree = make_tree(nwk)
        if kind == "nucleotide":
            alpha, ml = list("ACGT"), 1
        else:
            alpha, ml = [a + b + c for a in "TCAG" for b in "TCAG" for c in "TCAG" if a + b + c not in ("TAA", "TAG", "TGA")], 3
        cols = []
        for c in range(ncols):
            base = rnd.choice(alpha)
            col = [base] * ntips
            # most columns differ only in the first few children; a few differ elsewhere
            for k in rnd.sample(range(3), rnd.randint(1, 3)) if c % 4 else rnd.sample(range(ntips), 3):
                col[k] = rnd.choice(alpha)
            cols.append(col)
        if gapped:
            # > 64 children; every tip shows all four bases and one gap (the same number of leaf patterns everywhere): a
            # pattern key built from the children's pattern numbers exceeds 63 bits; columns that differ only in one of
            # the FIRST children (singletons) must stay distinct from the columns they resemble
            cols = [[("ACGT"[c % 4])] * ntips for c in range(ncols)]
            for k in range(ntips):
                cols[10 + (k % 20)][k] = "-"
            for k, (c, x) in enumerate(((0, "G"), (1, "T"), (2, "A"), (3, "C"))):
                cols[c][k] = x
            cols[4][ntips // 2] = "G"
            cols[5][ntips - 1] = "T"
        seqs = {t: "".join(c[i] for c in cols) for i, t in enumerate(tips)}
        aln = make_aligned_seqs(seqs, moltype="dna")
        params = {"kappa": 2.5} if model == "HKY85" else {"kappa": 2.5, "omega": 0.6}
        mprobs = {b: p for b, p in zip("TCAG", (0.2, 0.3, 0.15, 0.35))} if model == "HKY85" else None
        base_lnl = lnl(model, tree, aln, params, mprobs)
        tol = KIND_RTOL[kind]

        def expect(tag, value, want=base_lnl):
            nonlocal n
            n += 1
            if not close(value, want, tol):
                run.fail(f"polytomy:{kind}:{tag}", {"model": model, "ntips": ntips, "lnL_before": want, "lnL_after": value, "newick": nwk, "alignment": seqs}, what=f"lnL changed under {tag} on a {ntips}-tip star tree ({model})")

        ncol = len(aln) // ml
        rev = [p * ml + j for p in reversed(range(ncol)) for j in range(ml)]
        expect("ReverseColumns", lnl(model, tree, aln.take_positions(rev), params, mprobs))
        order = list(zip(tips, lens))
        order.reverse()
        expect("ReverseChildren", lnl(model, make_tree("(" + ",".join(f"{t}:{l}" for t, l in order) + ");"), aln, params, mprobs))
        expect("ReorderSeqs", lnl(model, tree, aln.take_seqs(list(reversed(tips))), params, mprobs))
        if ntips > 30:
            # wide case: a per-column sum would build one function per column; two blocks show merged patterns as well
            h = (ncol // 2) * ml
            expect("SplitIntoBlocks", lnl(model, tree, aln[:h], params, mprobs) + lnl(model, tree, aln[h:], params, mprobs))
            rot = tips[7:] + tips[:7]
            expect("RotateChildren", lnl(model, make_tree("(" + ",".join(f"{t}:{l}" for t, l in zip(rot, lens[7:] + lens[:7])) + ");"), aln, params, mprobs))
        elif mprobs is not None or True:
            # columns are independent: lnL = sum over columns of the single-column lnL (same fixed motif probs)
            mp = mprobs
            if mp is None:
                from cogent3 import get_model

                lf0 = get_model(model).make_likelihood_function(tree)
                lf0.set_alignment(aln)
                mp = lf0.get_motif_probs().to_dict()
                base2 = lnl(model, tree, aln, params, mp)
            else:
                base2 = base_lnl
            tot = sum(lnl(model, tree, aln[p * ml : (p + 1) * ml], params, mp) for p in range(ncol))
            expect("SumOfSingleColumns", tot, want=base2)
    return n


def exact_family(run, scratch, cfg):
    """Root moves and edge splits emitted by TLC, applied to the real functions of the exact configurations."""
    import check_C02
    from cogent3 import make_tree

    emit = scratch / "lik.ndjson"
    res = run_tlc("MC_Felsenstein", cfg.replace("Invariance", "Felsenstein"), scratch, workers=1, env={"EMIT_FILE": emit}, timeout=3000)
    run.add_tlc(res)
    configs = {}
    for rec in read_emitted(emit):
        configs[rec["id"]] = rec
    emit2 = scratch / "inv.ndjson"
    res2 = run_tlc("MC_Invariance", cfg, scratch, workers=1, env={"EMIT_FILE": emit2}, timeout=3000)
    run.add_tlc(res2)
    n = 0
    seen = set()
    nscope = 0
    sseen = set()
    for tr in read_emitted(emit2):
        if tr["id"] not in sseen:
            sseen.add(tr["id"])
            nscope += scope_cases(run, tr)
        if tr["id"] in seen or tr["id"] not in configs:
            continue
        seen.add(tr["id"])
        rec = configs[tr["id"]]
        if rec["bprobs"]:
            continue
        lf, _ = check_C02.build_lf(rec)
        base = lf.lnL
        exact = sum(math.log(float(frac(v))) for v in rec["lik"])
        insts = {(e[1], tuple(e[3]), tuple(e[4])) for e in rec["edges"]}
        for ename, s1, s2 in tr["splits"]:
            # q = q1*q2  <=>  t = t1 + t2 with t_i = -mu n1 ln q_i
            e = [x for x in rec["edges"] if x[0] == ename][0]
            if ename not in rec["leafname"]:
                continue
            mu, n1 = float(frac(e[5])), e[6]
            t1, t2 = [-mu * n1 * math.log(float(frac(s))) for s in (s1, s2)]
            tree = make_tree(rec["newick"])
            for x in rec["edges"]:
                node = tree.get_node_matching_name(x[0])
                q = float(frac(x[7]))
                node.length = -float(frac(x[5])) * x[6] * math.log(q) if q != 1 else 0.0
            nwk = to_newick(tree, split=(ename, t1 / (t1 + t2))) + ";"
            lf2 = _rebuild(rec, make_tree(nwk), extra={f"{ename}_split": e})
            n += 1
            if not close(lf2.lnL, base) or not close(lf2.lnL, exact):
                run.fail("exact:SplitEdge", {"config": rec["id"], "edge": ename, "lnL": base, "lnL_split": lf2.lnL, "exact": exact}, what="splitting an edge changed lnL")
        if len(insts) == 1:
            for r in tr["roots"]:
                tree = make_tree(rec["newick"])
                for x in rec["edges"]:
                    node = tree.get_node_matching_name(x[0])
                    q = float(frac(x[7]))
                    node.length = -float(frac(x[5])) * x[6] * math.log(q) if q != 1 else 0.0
                lf2 = _rebuild(rec, tree.rooted_at(r), uniform=True)
                n += 1
                if not close(lf2.lnL, base) or not close(lf2.lnL, exact):
                    run.fail("exact:MoveRoot", {"config": rec["id"], "root": r, "lnL": base, "lnL_rerooted": lf2.lnL, "exact": exact}, what="moving the root changed lnL")
        else:
            # per-edge parameter scopes (spec: Reroot moves every edge's instance and length WITH the edge): the real
            # function's annotated tree carries each edge's parameters; the re-rooted tree is given back to the model
            at = lf.get_annotated_tree()
            aln = lf.get_param_value("alignment")
            for r in tr["roots"]:
                rt = at.rooted_at(r)
                lf2 = lf.model.make_likelihood_function(rt)
                lf2.set_alignment(aln)
                if lf.model.name not in ("JC69", "K80"):
                    lf2.set_motif_probs(lf.get_motif_probs())
                n += 1
                if not close(lf2.lnL, base) or not close(lf2.lnL, exact):
                    run.fail("exact:MoveRoot:scoped", {"config": rec["id"], "root": r, "lnL": base, "lnL_rerooted": lf2.lnL, "exact": exact, "rerooted": rt.get_newick(with_distances=True)}, what="moving the root of a tree with per-edge parameter scopes changed lnL")
        run.sample({"config": rec["id"], "roots": tr["roots"], "splits": tr["splits"]}, limit=3)
    run.note("root_free_scope_cases", nscope)
    return n + nscope, len(seen)


def scope_cases(run, tr):
    """Parameter scopes given as (tip1, tip2 | outgroup): the edges they name must be the spec's (root-free) set on every
    rooting of the real tree, and a rate parameter scoped that way gives the same lnL on every rooting."""
    from cogent3 import get_model, make_aligned_seqs, make_tree

    if not tr["scopes"]:
        return 0
    base = make_tree(tr["newick"])
    tips = base.get_tip_names()
    if len(tips) < 4:
        # three tips: the clade of two of them seen from the third is those two edges on every rooting; still checked
        pass
    k = 0
    for e in base.get_edge_vector(include_root=False):
        k += 1
        e.length = 0.05 + 0.07 * k
    rootings = [("as-written", base)]
    for r in tr["roots"]:
        rootings.append((f"rooted_at({r})", base.rooted_at(r)))
    for tip in tips[:2]:
        rootings.append((f"rooted_with_tip({tip})", base.rooted_with_tip(tip)))
    rnd = random.Random(len(tips) * 7919)
    seqs = {tp: "".join(rnd.choice("ACGT") if rnd.random() < 0.4 else "ACGTTGCAAGCT"[i % 12] for i in range(24)) for tp in tips}
    aln = make_aligned_seqs(seqs, moltype="dna")
    sm = get_model("HKY85")
    n = 0
    for t1, t2, og, clade, stem in tr["scopes"]:
        want_clade = set(clade)
        lnls = {}
        for tag, tree in rootings:
            n += 1
            shape = "root-has-%d-children" % len(tree.children)
            try:
                got = set(tree.get_edge_names(t1, t2, clade=True, stem=False, outgroup_name=og))
                got_stem = set(tree.get_edge_names(t1, t2, clade=True, stem=True, outgroup_name=og))
            except Exception as ex:
                run.fail(f"scope:edge-names:raised:{shape}:{tag.split('(')[0]}", {"config": tr["id"], "newick": tree.get_newick(), "tips": [t1, t2], "outgroup": og, "exception": repr(ex)}, what="resolving a (tip, tip | outgroup) scope raised")
                continue
            if got != want_clade or got_stem != want_clade | {stem}:
                run.fail(f"scope:edge-names:{shape}:{tag.split('(')[0]}", {"config": tr["id"], "rooting": tag, "newick": tree.get_newick(), "tips": [t1, t2], "outgroup": og, "clade_edges": sorted(got), "clade_and_stem": sorted(got_stem), "spec_clade": sorted(want_clade), "spec_stem": stem}, what="the edges named by a (tip, tip | outgroup) scope depend on where the root is")
                continue
            lf = sm.make_likelihood_function(tree)
            lf.set_alignment(aln)
            lf.set_motif_probs({"A": 0.1, "C": 0.2, "G": 0.3, "T": 0.4})
            lf.set_param_rule("kappa", value=1.0, is_constant=True)
            lf.set_param_rule("kappa", tip_names=[t1, t2], outgroup_name=og, clade=True, stem=False, value=7.0, is_constant=True)
            lnls[tag] = lf.lnL
        if lnls:
            ref = next(iter(lnls.values()))
            bad = {k2: v for k2, v in lnls.items() if not close(v, ref)}
            if bad:
                run.fail("scope:lnL-depends-on-root", {"config": tr["id"], "tips": [t1, t2], "outgroup": og, "lnL": lnls}, what="lnL of a time-reversible model with a (tip, tip | outgroup)-scoped parameter changed with the rooting")
    return n


def _rebuild(rec, tree, extra=None, uniform=False):
    """Real lf for configuration `rec` on a transformed tree whose edge lengths are already set."""
    import check_C02
    from cogent3 import get_model, make_aligned_seqs

    edges = {e[0]: e for e in rec["edges"]}
    if extra:
        edges.update(extra)
    if any("kappa_y" in e[2] for e in rec["edges"]):
        mname = "TN93"
    elif any("kappa" in e[2] for e in rec["edges"]):
        mname = "K80" if all(frac(v) == Fraction(1, 4) for _, v in rec["pi"]) else "HKY85"
    else:
        mname = "JC69" if all(frac(v) == Fraction(1, 4) for _, v in rec["pi"]) else "F81"
    lf = get_model(mname).make_likelihood_function(tree)
    if mname not in ("JC69", "K80"):
        lf.set_motif_probs({x: float(frac(v)) for x, v in rec["pi"]})
    seqs = {n: [] for n in rec["leafname"] if n}
    for col in rec["cols"]:
        for node, sym in col.items():
            seqs[rec["leafname"][int(node) - 1]].append(sym)
    lf.set_alignment(make_aligned_seqs({n: "".join(s) for n, s in seqs.items()}, moltype="dna"))
    for edge in tree.get_edge_vector(include_root=False):
        lf.set_param_rule("length", edge=edge.name, value=edge.length, is_constant=True)
        e = edges.get(edge.name) if not uniform else rec["edges"][0]
        if e is None:
            raise RuntimeError(f"no instance for edge {edge.name}")
        if mname == "TN93":
            lf.set_param_rule("kappa_y", edge=edge.name, value=float(frac(e[3])), is_constant=True)
            lf.set_param_rule("kappa_r", edge=edge.name, value=float(frac(e[4])), is_constant=True)
        elif mname in ("K80", "HKY85"):
            lf.set_param_rule("kappa", edge=edge.name, value=float(frac(e[3])), is_constant=True)
    return lf


def check(run: Run):
    cfg = "MC_Invariance_quick.cfg" if run.tier == "quick" else "MC_Invariance_thorough.cfg"
    with Scratch("C11") as scratch:
        nexact, nconf = exact_family(run, scratch, cfg)
        models = list(MODELS) if run.tier == "thorough" else ["F81", "HKY85", "GTR", "GN", "MG94HKY", "JTT92"]
        nrel = relational(run, run.seed, models, 3 if run.tier == "thorough" else 1)
    run.cov["traces_validated_against_impl"] = nexact + nrel
    run.cov["evaluations"] = nexact + nrel
    run.cov["distinct_nontrivial"] = nexact + nrel
    run.cov["rule"] = (
        "exact family: every root move / edge split TLC proved invariant, applied to the real function of the same configuration; "
        "relational: PermuteColumns, ReorderSeqs, ReorderChildren, RepeatColumns(k), SplitEdge for every model, MoveRoot to every inner "
        "node and beside two tips for time-reversible models; seeded 5-taxon problems with ambiguities and gaps"
    )
    run.note("relational_models", models)
    run.assumptions += [
        "for models without an exact oracle the comparison is lnL(before) vs lnL(after) in float (rtol 1e-9); the spec dictates which relation must hold",
        "MoveRoot is required only of time-reversible models; evidence records that root placement does change lnL for GN/ssGN (guard not vacuous)",
    ]


if __name__ == "__main__":
    sys.exit(main_wrapper(check, "C11"))
