"""C04, alignment level: drive real old-style Alignments for the universes of AnnotationAln.tla.

As in impl_C04.py nothing here knows the right answer: positions, row strings of the
feature's slice, projected positions / string and query membership all come from the
spec's records; this module builds the alignment, makes the public calls and projects
Feature objects to plain values.
"""
from __future__ import annotations

import json
import random
import zlib
from collections import deque

import impl_C04 as I


def dumps(v):
    return json.dumps(v, separators=(",", ":"))


def strings(seed, ukey, meta):
    """ungapped x and y (distinct symbols throughout) and the gapped rows"""
    U, L, xl, yl = meta["U"], meta["L"], meta["xl"], meta["yl"]
    rnd = random.Random(zlib.crc32(f"C04aln-{seed}-{ukey}".encode()))
    syms = rnd.sample(I.NONSELF, U + len(yl))
    x, y = "".join(syms[:U]), "".join(syms[U:])
    gx = "".join(x[xl.index(c)] if c in xl else "-" for c in range(L))
    gy = "".join(y[yl.index(c)] if c in yl else "-" for c in range(L))
    return x, y, gx, gy


def make_alignment(mode, gx, gy, feature):
    import cogent3

    aln = cogent3.make_aligned_seqs(data={"x": gx, "y": gy}, moltype="dna", array_align=False)
    spans = [tuple(sp) for sp in feature["spans"]]
    if mode == "add":
        created = aln.add_feature(seqid="x", biotype=feature["bio"], name=feature["name"], spans=spans, strand=feature["strand"])
        # the same spans as alignment (column) coordinates: an alignment-level feature
        aln.add_feature(biotype="region", name="r", spans=spans, strand=feature["strand"], on_alignment=True)
        return aln, created
    from cogent3.core.annotation_db import BasicAnnotationDb

    db = BasicAnnotationDb()
    given = [tuple(sp) for sp in feature.get("given", feature["spans"])]  # the spans in the order the spec hands them over
    db.add_feature(seqid="x", biotype=feature["bio"], name=feature["name"], spans=given, strand=feature["strand"])
    db.add_feature(seqid=None, biotype="region", name="r", spans=spans, strand=feature["strand"], on_alignment=True)
    aln.annotation_db = db
    return aln, None


def apply(aln, act, args):
    if act == "Slice":
        return aln[args[0] : args[1]]
    if act == "Rc":
        return aln.rc()
    raise ValueError(act)


def render_row(symbols, row, fcomp, compl, gap):
    out = []
    for v in row:
        if v == gap:
            out.append("-")
        else:
            out.append(compl[symbols[v]] if fcomp else symbols[v])
    return "".join(out)


def key_of(op, state, obs, what):
    d = "rev" if state[5] else "fwd"
    cls = ("-" if obs["fcomp"] else "+") + "".join(obs["cls"])
    touch = "".join(sorted({c for c in obs["cls"] if c in "ab"}))
    if what.startswith("raised") and op.startswith("get_features") and touch:
        return f"aln:{op}:touch-{touch}:{what}"
    return f"aln:{op}:{d}:{cls}:{what}"


def observe(rep, ctx, v, state, obs, chain):
    x, y, compl, gap = ctx["x"], ctx["y"], ctx["compl"], ctx["gap"]

    def detail(extra):
        return lambda: {
            "level": "alignment", "mode": ctx["mode"], "rows": {"x": ctx["gx"], "y": ctx["gy"]}, "feature": ctx["feature"],
            "chain": chain(), "state": state, "view": v.to_dict(), "expected": obs, **extra,
        }

    for partial in (True, False):
        op = "get_features-partial" if partial else "get_features"
        status = obs["vis"] if partial else obs["inside"]
        rep.stats["aln_queries"] += 1
        try:
            got = v.get_features(seqid="x", on_alignment=False, allow_partial=partial)
            got = [] if got is None else list(got)
        except Exception as ex:
            if obs["heldx"] == 0:
                # the view shows only gaps of row x: nothing overlaps, the query has to return nothing
                rep.add(f"aln:{op}:row-without-residues:raised-{type(ex).__name__}",
                        detail({"call": f"get_features(seqid='x', allow_partial={partial})", "exception": repr(ex)}),
                        f"alignment get_features(allow_partial={partial}) on a view holding only gaps of the row raised {ex!r}")
                continue
            rep.add(key_of(op, state, obs, f"raised-{type(ex).__name__}"), detail({"call": f"get_features(seqid='x', allow_partial={partial})", "exception": repr(ex)}),
                    f"alignment get_features(allow_partial={partial}) raised {ex!r}")
            continue
        got = [g for g in got if (g.biotype, g.name) == (ctx["feature"]["bio"], ctx["feature"]["name"])]
        if len(got) > 1:
            rep.add(key_of(op, state, obs, "duplicates"), detail({"returned": len(got)}), "the feature was returned more than once")
        if not got:
            if status == "in":
                rep.add(key_of(op, state, obs, "missing"), detail({"call": f"get_features(seqid='x', allow_partial={partial})"}), "feature not returned")
            continue
        if status == "out":
            rep.add(key_of(op, state, obs, "unexpected"), detail({"call": f"get_features(seqid='x', allow_partial={partial})"}), "feature returned although it is not in / inside the view")
            continue
        g = got[0]
        try:
            pr = I.project(g)
        except Exception as ex:
            rep.add(key_of(op, state, obs, f"coordinates-raised-{type(ex).__name__}"), detail({"exception": repr(ex)}), "projection raised")
            continue
        # a feature of which the view retains nothing has no orientation to speak of
        diffs = [k for k in ("pos", "rev") if pr[k] != obs[k] and (k == "pos" or obs["pos"])]
        if diffs:
            rep.add(key_of(op, state, obs, ",".join(diffs)), detail({"observed": pr}), f"alignment feature differs in {diffs}")
        if not partial:
            continue
        # the slice of the alignment feature: sub-alignment of the denoted columns
        rep.stats["aln_slices"] += 1
        want = {"x": render_row(x, obs["rowx"], obs["fcomp"], compl, gap), "y": render_row(y, obs["rowy"], obs["fcomp"], compl, gap)}
        try:
            sl = g.get_slice().to_dict()
        except Exception as ex:
            if not obs["pos"]:
                rep.stats[f"unsupported:aln:slice-of-feature-without-retained-columns:{type(ex).__name__}"] += 1
                sl = None
            else:
                rep.add(key_of("get_slice", state, obs, f"raised-{type(ex).__name__}"), detail({"exception": repr(ex), "expected_slice": want, "observed": pr}),
                        f"get_slice() of the alignment feature raised {ex!r}")
                sl = None
        if sl is not None and sl != want:
            rep.add(key_of("get_slice", state, obs, "rows" if not diffs else "rows-after-" + ",".join(diffs)),
                    detail({"observed_slice": sl, "expected_slice": want, "observed": pr}), f"slice of the alignment feature is {sl}, the denoted columns read {want}")
        elif sl is not None and obs["pos"] and obs["inside"] != "in":
            rep.nontrivial.add((ctx["ukey"], dumps(state[4:])))
        # projection onto row y
        rep.stats["aln_projections"] += 1
        wantp = render_row(y, obs["pread"], obs["fcomp"], compl, gap)
        try:
            p = v.get_projected_feature(seqid="y", feature=g)
            pp = I.project(p)
        except Exception as ex:
            if not obs["ppos"]:
                rep.stats[f"unsupported:aln:projection-onto-no-residues:{type(ex).__name__}"] += 1
            else:
                rep.add(key_of("get_projected_feature", state, obs, f"raised-{type(ex).__name__}"), detail({"exception": repr(ex)}), f"get_projected_feature raised {ex!r}")
            continue
        pd = []
        if pp["pos"] != obs["ppos"]:
            pd.append("pos")
        if obs["ppos"] and pp["rev"] != obs["rev"]:
            pd.append("rev")
        try:
            ps = str(p.get_slice())
        except Exception as ex:
            ps = None
            if obs["ppos"]:
                rep.add(key_of("get_projected_feature", state, obs, f"get_slice-raised-{type(ex).__name__}"), detail({"exception": repr(ex), "observed": pp}), f"slice of the projected feature raised {ex!r}")
            else:
                rep.stats[f"unsupported:aln:projection-onto-no-residues:{type(ex).__name__}"] += 1
        if ps is not None and ps != wantp:
            pd.append("str")
        if pd:
            rep.add(key_of("get_projected_feature", state, obs, ",".join(pd)),
                    detail({"observed": pp, "observed_slice": ps, "expected_slice": wantp, "y_held": str(v.named_seqs["y"].data)}),
                    f"feature projected onto y differs in {pd}")


class _Sub:
    """collects the disagreements of one question so that they can be reported under one key"""

    def __init__(self, rep):
        self.fail = {}
        self.stats = rep.stats

    def add(self, key, detail_fn, what):
        self.fail.setdefault(key, (detail_fn, what))


def observe_region(rep, ctx, v, state, obs, chain):
    """the alignment-level feature r (on_alignment=True) on the view"""
    robs = obs["region"]
    x, y, compl, gap = ctx["x"], ctx["y"], ctx["compl"], ctx["gap"]
    sub = _Sub(rep)
    d = "rev" if state[5] else "fwd"
    for partial in (True, False):
        status = robs["vis"] if partial else robs["inside"]
        tag = "partial" if partial else "strict"
        rep.stats["aln_region_queries"] += 1
        try:
            got = v.get_features(on_alignment=True, allow_partial=partial)
            got = [g for g in ([] if got is None else list(got)) if (g.biotype, g.name) == ("region", "r")]
        except Exception as ex:
            sub.add(f"{tag}:raised-{type(ex).__name__}", lambda ex=ex: {"exception": repr(ex)}, f"raised {ex!r}")
            continue
        if len(got) > 1:
            sub.add(f"{tag}:duplicates", lambda: {}, "returned twice")
        if not got:
            if status == "in":
                sub.add(f"{tag}:missing", lambda: {}, "not returned")
            continue
        if status == "out":
            sub.add(f"{tag}:unexpected", lambda: {}, "returned although it is not in / inside the view")
            continue
        g = got[0]
        pr = I.project(g)
        diffs = [k for k in ("pos", "rev") if pr[k] != robs[k] and (k == "pos" or robs["pos"])]
        if diffs:
            sub.add(f"{tag}:" + ",".join(diffs), lambda pr=pr: {"observed": pr}, f"differs in {diffs}")
        if partial and robs["pos"]:
            want = {"x": render_row(x, robs["rowx"], robs["fcomp"], compl, gap), "y": render_row(y, robs["rowy"], robs["fcomp"], compl, gap)}
            try:
                sl = g.get_slice().to_dict()
            except Exception as ex:
                sub.add(f"get_slice:raised-{type(ex).__name__}", lambda ex=ex: {"exception": repr(ex)}, f"get_slice raised {ex!r}")
                continue
            if sl != want:
                sub.add("get_slice:rows", lambda sl=sl, want=want: {"observed_slice": sl, "expected_slice": want}, f"slice {sl} != {want}")
    if sub.fail:
        where = "whole" if len(state[4]) == ctx["L"] else "sliced"
        first = sorted(sub.fail)[0]
        fn, what = sub.fail[first]
        extra = fn()
        strand = "-" if robs["fcomp"] else "+"
        rep.add(f"aln:on_alignment:{strand}:{where}:queries-disagree",
                lambda: {"level": "alignment", "mode": ctx["mode"], "rows": {"x": ctx["gx"], "y": ctx["gy"]}, "feature": ctx["feature"],
                         "chain": chain(), "state": state, "view": v.to_dict(), "expected": robs, "all_disagreements": sorted(sub.fail), **extra},
                f"alignment-level feature r on the view: {first} {what}")


def observe_algebra(rep, ctx, v, state, obs, chain):
    """as_one_span / get_slice(allow_gaps=True) of the row feature and Alignment.with_masked_annotations on the view"""
    x, y, compl, gap = ctx["x"], ctx["y"], ctx["compl"], ctx["gap"]
    shown = v.to_dict()

    def detail(extra):
        return lambda: {
            "level": "alignment", "mode": ctx["mode"], "rows": {"x": ctx["gx"], "y": ctx["gy"]}, "feature": ctx["feature"],
            "chain": chain(), "state": state, "view": shown, "expected": obs, **extra,
        }

    try:
        got = [g for g in v.get_features(seqid="x", on_alignment=False, allow_partial=True) if g.name == ctx["feature"]["name"]]
    except Exception:
        got = []  # reported by observe()
    if got and obs["pos"]:
        g = got[0]
        want = {"x": render_row(x, obs["onerowx"], obs["fcomp"], compl, gap), "y": render_row(y, obs["onerowy"], obs["fcomp"], compl, gap)}
        for op, fn in (("as_one_span", lambda: g.as_one_span().get_slice().to_dict()), ("get_slice-allow_gaps", lambda: g.get_slice(allow_gaps=True).to_dict())):
            rep.stats["aln_algebra"] += 1
            try:
                sl = fn()
            except Exception as ex:
                rep.add(key_of(f"algebra:{op}", state, obs, f"raised-{type(ex).__name__}"), detail({"exception": repr(ex), "expected_slice": want}), f"{op} raised {ex!r}")
                continue
            if sl != want:
                rep.add(key_of(f"algebra:{op}", state, obs, "rows"), detail({"observed_slice": sl, "expected_slice": want}), f"{op} shows {sl}, expected {want}")
        rep.stats["aln_algebra"] += 1
        try:
            pos = I.positions(g.as_one_span())
            if pos != obs["onepos"]:
                rep.add(key_of("algebra:as_one_span", state, obs, "pos"), detail({"observed_pos": pos}), f"as_one_span covers {pos}, expected {obs['onepos']}")
        except Exception as ex:
            rep.add(key_of("algebra:as_one_span", state, obs, f"raised-{type(ex).__name__}"), detail({"exception": repr(ex)}), f"as_one_span raised {ex!r}")
    if obs["heldx"] == 0:
        return
    for sh in (0, 1):
        rep.stats["aln_algebra"] += 1
        want = {
            "x": "".join("?" if k in obs["maskx"][sh] else c for k, c in enumerate(shown["x"])),
            "y": "".join("?" if k in obs["masky"][sh] else c for k, c in enumerate(shown["y"])),
        }
        op = f"algebra:mask-{'shadow' if sh else 'plain'}"
        try:
            m = v.with_masked_annotations("gene", mask_char="?", shadow=bool(sh)).to_dict()
        except Exception as ex:
            rep.add(key_of(op, state, obs, f"raised-{type(ex).__name__}"), detail({"exception": repr(ex), "expected_rows": want}), f"with_masked_annotations(shadow={bool(sh)}) raised {ex!r}")
            continue
        if m != want:
            rep.add(key_of(op, state, obs, "rows"), detail({"observed_rows": m, "expected_rows": want}), f"with_masked_annotations(shadow={bool(sh)}) shows {m}, expected {want}")


def check_created(rep, ctx, created, state, obs):
    rep.stats["aln_created"] += 1
    pr = I.project(created)
    want = {"x": render_row(ctx["x"], obs["rowx"], obs["fcomp"], ctx["compl"], ctx["gap"]), "y": render_row(ctx["y"], obs["rowy"], obs["fcomp"], ctx["compl"], ctx["gap"])}
    try:
        sl = created.get_slice().to_dict()
    except Exception as ex:
        sl = f"raised {ex!r}"
    if pr["pos"] != obs["pos"] or pr["rev"] != obs["rev"] or sl != want:
        rep.add(key_of("add_feature-result", state, obs, "differs"),
                lambda: {"level": "alignment", "rows": {"x": ctx["gx"], "y": ctx["gy"]}, "feature": ctx["feature"], "observed": pr, "observed_slice": sl,
                         "expected": obs, "expected_slice": want},
                "the Feature returned by Alignment.add_feature() does not show the requested residues")


def check_variant(rep, G, mode, ukey, u):
    meta = u["meta"]
    x, y, gx, gy = strings(G["seed"], ukey, meta)
    ctx = {"mode": mode, "x": x, "y": y, "gx": gx, "gy": gy, "compl": meta["compl"], "gap": meta["gap"], "feature": meta["feature"], "ukey": ukey, "L": meta["L"]}
    rootkey = dumps(meta["from"])
    rep.stats["aln_universe_variants"] += 1
    try:
        aln, created = make_alignment(mode, gx, gy, meta["feature"])
    except Exception as ex:
        rep.add(f"aln:setup-{mode}:raised-{type(ex).__name__}", lambda: {"rows": {"x": gx, "y": gy}, "feature": meta["feature"], "exception": repr(ex)}, "cannot build the alignment")
        return
    looks, trans = u["looks"], u["trans"]
    parent = {}

    def chain_of(key):
        def f():
            out = []
            k = key
            while k in parent:
                k, act, args = parent[k]
                out.append([act, args])
            return out[::-1]

        return f

    if created is not None:
        check_created(rep, ctx, created, meta["from"], looks[rootkey]["obs"])
    objs = {rootkey: aln}
    queue = deque([rootkey])
    while queue:
        fk = queue.popleft()
        o = objs[fk]
        look = looks[fk]
        state = look["from"]
        rep.stats["states"] += 1
        observe(rep, ctx, o, state, look["obs"], chain_of(fk))
        observe_region(rep, ctx, o, state, look["obs"], chain_of(fk))
        h = zlib.crc32(f"{ukey}{mode}{fk}algebra".encode()) ^ G["seed"]
        if G["algebra_rate"] >= 1 or h % 9973 < G["algebra_rate"] * 9973:
            observe_algebra(rep, ctx, o, state, look["obs"], chain_of(fk))
        for act, args, tk, obs in trans.get(fk, ()):
            tree = tk in looks and tk not in objs
            if not tree:
                h = zlib.crc32(f"{ukey}{mode}{fk}{act}{args}".encode()) ^ G["seed"]
                if G["edge_rate"] < 1 and h % 9973 >= G["edge_rate"] * 9973:
                    rep.stats["transitions_not_sampled"] += 1
                    continue
            try:
                o2 = apply(o, act, args)
            except Exception as ex:
                rep.stats[f"unsupported:aln:{act}:{type(ex).__name__}"] += 1
                continue
            rep.stats["transitions"] += 1
            if tree:
                objs[tk] = o2
                parent[tk] = (fk, act, args)
                queue.append(tk)
                continue

            def chain(pk=fk, pact=act, pargs=args):
                return chain_of(pk)() + [[pact, pargs]]

            observe(rep, ctx, o2, json.loads(tk), obs, chain)
            if len(rep.samples) < 1 and act == "Slice" and obs["pos"] and obs["inside"] != "in":
                rep.samples.append({"level": "alignment", "rows": {"x": gx, "y": gy}, "feature": meta["feature"], "chain": chain(), "view": o2.to_dict(), "expected": obs})
    missing = [k for k in looks if k not in objs]
    if missing:
        rep.stats["states_not_built"] += len(missing)


def replay(d):
    aln, _ = make_alignment(d.get("mode", "add"), d["rows"]["x"], d["rows"]["y"], d["feature"])
    print(f"alignment {d['rows']} feature {d['feature']}")
    v = aln
    for act, args in d.get("chain", []):
        v = apply(v, act, args)
        print(f"  {act}{args} -> {v.to_dict()}")
    for partial in (True, False):
        try:
            got = list(v.get_features(seqid="x", on_alignment=False, allow_partial=partial))
            print(f"  get_features(seqid='x', allow_partial={partial}):")
            for g in got:
                try:
                    s = g.get_slice().to_dict()
                except Exception as ex:
                    s = f"raised {ex!r}"
                print(f"     {g.biotype} {g.name} coords={g.map.get_coordinates()} reversed={g.reversed} slice={s}")
                if partial:
                    try:
                        p = v.get_projected_feature(seqid="y", feature=g)
                        print(f"     projected onto y ({str(v.named_seqs['y'].data)!r}): coords={p.map.get_coordinates()} reversed={p.reversed} slice={str(p.get_slice())!r}")
                    except Exception as ex:
                        print(f"     projection raised {ex!r}")
        except Exception as ex:
            print(f"  get_features(allow_partial={partial}) raised {ex!r}")
    for k in ("call", "expected", "expected_slice", "observed", "observed_slice", "exception"):
        if k in d:
            print(f"  recorded {k}: {d[k]!r}"[:700])
