"""Shared run context: tier/seed, violation + known-finding reporting, evidence."""
from __future__ import annotations

import json
import os
import re
import sys
import time
import traceback
from pathlib import Path

VERIF = Path(__file__).resolve().parent.parent
EVIDENCE = VERIF / "evidence"
REPLAYS = VERIF / "replays"
FINDINGS = VERIF / "known_findings.txt"
FINDINGS_D = VERIF / "known_findings.d"
REPO = Path(os.environ.get("VERIF_REPO", "/repo"))


def load_findings():
    """known_findings.txt lines:
        known: property=<id> key=<structural-key> <free text>
        fixed: property=<id> <commit> <free text>
    Only `known:` lines suppress anything; matching is by exact structural key.
    """
    known = {}
    files = ([FINDINGS] if FINDINGS.exists() else []) + (sorted(FINDINGS_D.glob("*.txt")) if FINDINGS_D.exists() else [])
    for f in files:
        for line in f.read_text().splitlines():
            line = line.strip()
            if not line.startswith("known:"):
                continue
            m = re.match(r"known:\s+property=(\S+)\s+key=(\S+)\s*(.*)", line)
            if m:
                known[(m.group(1), m.group(2))] = m.group(3)
    return known


class Run:
    """One execution of one property's check."""

    def __init__(self, prop: str, tier: str, level: str = "model_checking"):
        self.prop = prop
        self.tier = tier
        self.level = level
        self.seed = int(os.environ.get("VERIF_SEED", "0") or 0)
        self.t0 = time.time()
        self.known = load_findings()
        self.violations = []  # (key, replay path)
        self.vcount = {}
        self.known_hits = {}  # key -> count
        self.cov = {
            "states": 0,
            "transitions": 0,
            "traces_validated_against_impl": 0,
            "evaluations": 0,
            "distinct_nontrivial": 0,
            "samples": [],
            "rule": "",
        }
        self.assumptions = []
        self.extra = {}
        self.drift = 0
        self._nrep = 0
        (REPLAYS / prop).mkdir(parents=True, exist_ok=True)
        EVIDENCE.mkdir(parents=True, exist_ok=True)

    # ---------------------------------------------------------------- counts
    def add_tlc(self, res):
        self.cov["states"] += res.distinct
        self.cov["transitions"] += res.generated

    def sample(self, obj, limit=6):
        if len(self.cov["samples"]) < limit:
            self.cov["samples"].append(obj)

    def note(self, key, val):
        self.extra[key] = val

    # ------------------------------------------------------------- reporting
    def fail(self, key: str, detail: dict, what: str = ""):
        """Report a disagreement between real code and spec.

        key: structural key of the failing case (used to match known findings).
        """
        if (self.prop, key) in self.known:
            if key not in self.known_hits:
                self.known_hits[key] = 0
            self.known_hits[key] += 1
            return False
        self.vcount[key] = self.vcount.get(key, 0) + 1
        if self.vcount[key] > 1 or len(self.vcount) > 40:
            # one VIOLATION line and replay file per distinct structural key
            self.violations.append((key, None))
            return True
        self._nrep += 1
        path = REPLAYS / self.prop / f"{self.tier}-{self._nrep}.json"
        with open(path, "w") as fh:
            json.dump({"property": self.prop, "key": key, "what": what, **detail}, fh, indent=1, default=repr)
        print(f"VIOLATION property={self.prop} replay={path.relative_to(VERIF)}  key={key} {what}", flush=True)
        self.violations.append((key, str(path)))
        return True

    def model_drift(self, msg):
        self.drift += 1
        if self.drift <= 5:
            print(f"MODEL-DRIFT property={self.prop} {msg}", flush=True)

    # --------------------------------------------------------------- finish
    def finish(self) -> int:
        for key, n in sorted(self.known_hits.items()):
            print(f"KNOWN-FINDING: property={self.prop} key={key} ({n} cases) {self.known[(self.prop, key)]}")
        cov = dict(self.cov)
        cov.update(self.extra)
        if cov["evaluations"] == 0:
            cov["evaluations"] = cov["traces_validated_against_impl"] or cov["transitions"]
        if not cov["samples"]:
            cov["samples"] = ["(none recorded)"]
        cov["violation_keys"] = dict(self.vcount)
        cov["known_finding_cases"] = {k: n for k, n in self.known_hits.items()}
        cov["model_drift"] = self.drift
        ev = {
            "property_id": self.prop,
            "tier": self.tier,
            "seed": self.seed,
            "level": self.level,
            "coverage": cov,
            "assumptions": self.assumptions,
            "wall_s": round(time.time() - self.t0, 2),
            "violations": len(self.violations),
        }
        with open(EVIDENCE / f"{self.prop}.json", "w") as fh:
            json.dump(ev, fh, indent=1, default=repr)
        print(
            f"[{self.prop}/{self.tier}] states={cov['states']} transitions={cov['transitions']} "
            f"impl_cases={cov['traces_validated_against_impl']} violations={len(self.violations)} "
            f"known={sum(self.known_hits.values())} wall={ev['wall_s']}s",
            flush=True,
        )
        return 1 if self.violations else 0


def main_wrapper(fn, prop):
    """Run fn(run) -> None; translate exceptions to exit code 2."""
    import argparse

    ap = argparse.ArgumentParser()
    ap.add_argument("--tier", default=os.environ.get("VERIF_TIER", "quick"), choices=["quick", "thorough"])
    ap.add_argument("--replay", default=None)
    a = ap.parse_args(sys.argv[2:] if len(sys.argv) > 1 and sys.argv[1] == prop else sys.argv[1:])
    if a.replay:
        return replay(prop, a.replay)
    run = Run(prop, a.tier)
    run.replay = a.replay
    try:
        fn(run)
    except Exception:
        traceback.print_exc()
        print(f"MACHINERY-FAILURE property={prop}", flush=True)
        return 2
    return run.finish()


def replay(prop, path):
    """./check <ID> --replay <file>: show a recorded violation and, where the check provides a
    `replay_case(detail)` function, re-execute the recorded path + call on the real code.
    Does not touch the evidence file.  Exit 1 if the violation reproduces (or cannot be re-executed), 0 if it no longer occurs."""
    import importlib

    p = Path(path)
    if not p.is_absolute():
        p = VERIF / p
    detail = json.loads(p.read_text())
    print(f"replay property={prop} key={detail.get('key')} what={detail.get('what')}")
    for k in ("from", "act", "args", "path", "allowed", "observed", "model", "transform", "mismatches", "event", "case"):
        if k in detail:
            print(f"  {k}: {json.dumps(detail[k], default=repr)[:1200]}")
    try:
        mod = importlib.import_module(f"check_{prop}")
    except Exception:
        mod = sys.modules.get("__main__")
    fn = getattr(mod, "replay_case", None) or getattr(sys.modules.get("__main__"), "replay_case", None)
    if fn is None:
        print("  (no re-execution hook for this check: the recorded case above is the counterexample)")
        return 1
    again = fn(detail)
    print("  re-executed:", json.dumps(again, default=repr)[:1500])
    return 1 if again.get("reproduced", True) else 0
