"""C14: runs a list of jobs (see impl_C14.run_job) in a process of its own.

A parallel `apply_to` uses loky's process-global reusable executor, so concurrent forced
schedules need one master process each:  python runner_C14.py <jobs.json> <out.ndjson> <scratch>
One observation (JSON line) per job is appended to <out.ndjson>.
"""
from __future__ import annotations

import json
import shutil
import sys
import traceback
from pathlib import Path


def main(jobs_file, out_file, scratch):
    import impl_C14

    jobs = json.loads(Path(jobs_file).read_text())
    with open(out_file, "a") as out:
        for job in jobs:
            root = Path(scratch) / f"job-{job['id']}"
            try:
                if job.get("kind") == "as_completed":
                    obs = impl_C14.run_as_completed(job, root)
                    obs["id"] = job["id"]
                else:
                    obs = impl_C14.run_job(job, root)
            except BaseException as ex:  # noqa
                obs = {"id": job["id"], "ret": "harness-error", "machinery": True, "traceback": traceback.format_exc()[-2500:]}
            out.write(json.dumps(obs, default=repr) + "\n")
            out.flush()
            shutil.rmtree(root, ignore_errors=True)
    return 0


if __name__ == "__main__":
    sys.exit(main(*sys.argv[1:4]))
