"""C15 code -> spec: record real nj() runs at PartialTree.join, validate with Trace_NJ.tla.

The inputs are seeded random symmetric integer matrices that are NOT additive (ties, violated
triangle inequalities, negative estimated lengths that the implementation clamps to 0), so this
direction exercises the algorithm outside the generators of the spec -> code direction.
"""
from __future__ import annotations

import json
import os
import random
import re
from fractions import Fraction
from pathlib import Path

from tlc import VERIF, run_tlc


def record(seed, ntraces):
    import cogent3.phylo.nj as njmod

    log = []
    orig = njmod.PartialTree.join

    def join(self, i, j):
        log.append((sorted(self.tips[i]), sorted(self.tips[j])))
        return orig(self, i, j)

    rnd = random.Random(seed)
    traces = {}
    njmod.PartialTree.join = join
    try:
        for t in range(ntraces):
            n = rnd.choice([3, 4, 4, 5, 5, 5, 6, 6])
            style = rnd.choice(["wide", "ties", "near-additive"])
            hi = {"wide": 12, "ties": 2, "near-additive": 6}[style]
            M = [[0] * n for _ in range(n)]
            if style == "near-additive":
                pos = [rnd.randint(0, 9) for _ in range(n)]
                for i in range(n):
                    for j in range(i + 1, n):
                        M[i][j] = M[j][i] = abs(pos[i] - pos[j]) + rnd.randint(1, 3)
            else:
                for i in range(n):
                    for j in range(i + 1, n):
                        M[i][j] = M[j][i] = rnd.randint(1, hi)
            names = [f"t{k + 1}" for k in range(n)]
            order = list(range(n))
            rnd.shuffle(order)
            dists = {(names[i], names[j]): float(M[i][j]) for i in order for j in order if i != j}
            del log[:]
            tree = njmod.nj(dists, show_progress=False)
            joins = [[[int(x[1:]) for x in a], [int(x[1:]) for x in b]] for a, b in log]
            edges = []
            for node in tree.postorder(include_self=False):
                fr = Fraction(node.length).limit_denominator(100000)
                if abs(float(fr) - node.length) > 1e-9:
                    fr = Fraction(-1, 1)  # not a small rational: cannot be the spec's value
                edges.append([sorted(int(x[1:]) for x in node.get_tip_names()), fr.numerator, fr.denominator])
            traces.setdefault(n, []).append({"M": M, "joins": joins, "edges": edges, "style": style})
    finally:
        njmod.PartialTree.join = orig
    return traces


def tlc_validate(n, traces, scratch: Path):
    tf = scratch / f"nj-traces-{n}.json"
    tf.write_text(json.dumps([{k: t[k] for k in ("M", "joins", "edges")} for t in traces]))
    cfg = scratch / f"Trace_NJ_{n}.cfg"
    cfg.write_text(f"SPECIFICATION TraceSpec\nCONSTANTS\n  N = {n}\n  TipLens = {{1}}\n  IntLens = {{1}}\nINVARIANT Report\n")
    res = run_tlc("Trace_NJ", os.path.relpath(cfg, VERIF / "specs"), scratch, workers=1, heap="1g",
                  env={"TRACE_FILE": tf}, timeout=900)
    m = re.search(r'<<\s*"TRACE-VERDICT",\s*(\d+),\s*(\{.*?\})\s*>>', res.out, re.S)
    if not m:
        raise RuntimeError("no TRACE-VERDICT from TLC:\n" + res.out[-3000:])
    if int(m.group(1)) != len(traces):
        raise RuntimeError("Trace_NJ did not consume every trace")
    return [(int(a), int(b)) for a, b in re.findall(r"<<\s*(\d+),\s*(\d+)\s*>>", m.group(2))], res


def validate_collect(seed, scratch: Path, ntraces):
    """record + TLC; no access to the Run object (called from a worker thread)"""
    traces = record(seed + 15, ntraces)
    out = []
    for n, trs in sorted(traces.items()):
        rej, res = tlc_validate(n, trs, scratch)
        out.append((n, trs, rej))
    return out


def report(run, collected, stats):
    st = {}
    for n, trs, rej in collected:
        nev = sum(len(t["joins"]) + 1 for t in trs)
        st[f"n={n}"] = {"traces": len(trs), "events": nev, "rejected": len(rej)}
        run.cov["traces_validated_against_impl"] += len(trs)
        for tid, l in rej:
            t = trs[tid - 1]
            stage = "join-not-minimal-Q" if l <= len(t["joins"]) else "final-edges"
            run.fail(f"trace:nj:{stage}", {"n": n, "trace": t, "rejected_event": l},
                     what="a recorded real NJ run is not a behaviour of NJ.tla")
    if collected:
        n, trs, _ = collected[-1]
        run.sample({"code_to_spec_trace": {k: trs[0][k] for k in ("M", "joins", "edges")}})
    stats["Trace_NJ"] = st
