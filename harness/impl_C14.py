"""C14: drive the real composed app for one TLC-chosen behaviour and project what happened.

Nothing in this module knows what the store *should* contain: `run_job` enacts
(plan, worker count, completion order) on the real `apply_to` / `as_completed`
and returns observations as JSON-able values in the vocabulary of ComposedApp.tla.
"""
from __future__ import annotations

import json
import os
import shutil
import sqlite3
import threading
import time
import traceback
from pathlib import Path

NONE = {"kind": "none"}
NOARG = {"head": 0, "left": 0, "calls": 0}
WRITERS = {
    # name -> (store kind, suffix, spec's WriterTyped)
    "write_seqs": ("dir", "fasta", True),
    "write_json": ("dir", "json", False),
    "write_db": ("sqlite", None, False),
    "write_json_sqlite": ("sqlite", None, False),
    "write_seqs_sqlite": ("sqlite", None, True),
}
SCHED_TIMEOUT = float(os.environ.get("VERIF_C14_SCHED_TIMEOUT", "150"))  # executor start-up included
RECORD_TIMEOUT = float(os.environ.get("VERIF_C14_RECORD_TIMEOUT", "60"))


# identifiers of the inputs 1..n of the job at hand (ComposedApp.tla, Name): set per job from the
# behaviour TLC emitted; jobs run one after the other in a process
DEFAULT_NAMES = ["t1", "t2", "t3", "t4"]
NAMES = list(DEFAULT_NAMES)


def set_names(names=None):
    NAMES[:] = list(names) if names else DEFAULT_NAMES


def name_of(i: int) -> str:
    return NAMES[i - 1]


def payload_of(i: int) -> str:
    # distinct per input: the written content identifies which input it came from
    return "AC" + "G" * i + "T"


def index_of_name(name) -> int:
    name = str(name)
    return NAMES.index(name) + 1 if name in NAMES else 0


# --------------------------------------------------------------------- projection
def _payload_index(pl, anomalies):
    if isinstance(pl, str) and pl.startswith("AC") and pl.endswith("T") and set(pl[2:-1]) <= {"G"} and len(pl) > 3:
        return len(pl) - 3
    anomalies.append("completed-content-payload")
    return 0


def _abstract_value(obj, anomalies):
    """a completed value (of any value class of apps_C14) -> [kind, src, trail, wrong] of the spec"""
    rec = {"kind": "completed", "src": 0, "trail": [], "wrong": 0}
    try:
        if isinstance(obj, dict) and "c14_wrong_from" in obj:
            rec.update(src=index_of_name(obj.get("c14_name")), trail=list(obj.get("c14_trail", [])), wrong=obj["c14_wrong_from"])
        elif isinstance(obj, dict) and "c14_name" in obj:
            rec.update(src=index_of_name(obj["c14_name"]), trail=list(obj["c14_trail"]))
            if _payload_index(obj.get("c14_payload"), anomalies) != rec["src"]:
                anomalies.append("completed-content-payload")
        elif isinstance(obj, bytes):
            name, payload, trail = obj.decode("utf8").split("|")
            rec.update(src=index_of_name(name), trail=[int(k) for k in trail.split(",") if k])
            if _payload_index(payload, anomalies) != rec["src"]:
                anomalies.append("completed-content-payload")
        elif isinstance(obj, str):
            q = Path(obj)
            if not (q.parent.parent.name == "c14v" and q.parent.name.startswith("T") and q.suffix == ".fasta"):
                raise ValueError(obj)
            rec.update(src=index_of_name(q.stem), trail=[int(k) for k in q.parent.name[1:].split("-") if k])
        else:
            d = {str(k): str(v) for k, v in obj.to_dict().items()}
            return _abstract_seqs(d, anomalies)
    except Exception:
        anomalies.append("completed-content-unreadable")
    return rec


def _abstract_seqs(d, anomalies):
    src = _payload_index(d.get("id"), anomalies)
    trail = [1]
    rec_arg = None
    if "arg" in d:
        import re

        m = re.fullmatch(r"(A*)(C*)(G*)T", d["arg"])
        if m:
            rec_arg = {"head": len(m.group(1)), "left": len(m.group(2)), "calls": len(m.group(3))}
        else:
            anomalies.append("completed-content-arg-unreadable")
    for k in sorted(x for x in d if x not in ("id", "arg")):
        if k.startswith("g") and k[1:].isdigit() and d[k] == "ACGT"[: int(k[1:])]:
            trail.append(int(k[1:]))
        else:
            anomalies.append("completed-content-extra-seq")
    rec = {"kind": "completed", "src": src, "trail": trail, "wrong": 0}
    if rec_arg is not None:
        rec["_arg"] = rec_arg  # popped by the callers: what the function style step's call found
    return rec


def _abstract_nc(nc, anomalies, expect=None):
    """a NotCompleted -> [kind, type, origin, msg, src] of the spec; `expect` = index of the input
    under whose identifier it was found (messages of the test apps name their record)"""
    import re

    from apps_C14 import STEP_OF_ORIGIN
    from cogent3.app.data_store import get_unique_id

    origin = STEP_OF_ORIGIN.get(str(nc.origin), 0)
    if not origin:
        anomalies.append("nc-origin-unknown")
    try:
        src = index_of_name(get_unique_id(nc.source)) if nc.source else 0
    except Exception:
        src = 0
        anomalies.append("nc-source-unreadable")
    msg = str(nc.message)

    def mine(m):
        return m and int(m.group(2)) == origin and index_of_name(m.group(1)) == (expect if expect is not None else src)

    if msg == "unexpected output value None":
        cls = "none-out"
    elif msg.startswith("invalid data type"):
        cls = "invalid-type"
    elif msg.startswith("c14-fail "):
        cls = "custom" if mine(re.fullmatch(r"c14-fail (.+) step (\d+)", msg)) else "custom-other-record"
    elif "C14Error: boom " in msg and "Traceback" in msg:
        cls = "exception" if mine(re.search(r"C14Error: boom (.+) step (\d+)", msg)) else "exception-other-record"
    else:
        cls = "other"
    return {"kind": "not_completed", "type": str(nc.type), "origin": origin, "msg": cls, "src": src}


def _unpickled(data):
    """what write_db pickled: a rich dict of a cogent3 object / NotCompleted, or a primitive value"""
    import pickle

    from cogent3.util.deserialise import deserialise_object

    obj = pickle.loads(data)
    return deserialise_object(obj) if isinstance(obj, dict) and "type" in obj else obj


def decode_completed(writer, data, anomalies):
    from cogent3.app.data_store import load_record_from_json
    from cogent3.app.io import DEFAULT_DESERIALISER
    from cogent3.util.deserialise import deserialise_object

    w = writer.split("_sqlite")[0]
    try:
        if w == "write_seqs":
            if isinstance(data, bytes):
                data = data.decode("utf8")
            lines = [l.strip() for l in data.splitlines() if l.strip()]
            d, label = {}, None
            for l in lines:  # sequences longer than a line are wrapped
                if l.startswith(">"):
                    label = l[1:]
                    d[label] = ""
                elif label is None:
                    anomalies.append("completed-content-not-fasta")
                    break
                else:
                    d[label] += l
            if not d or any(not v for v in d.values()):
                anomalies.append("completed-content-not-fasta")
            return _abstract_seqs(d, anomalies)
        if w == "write_json":
            ident, value, completed = load_record_from_json(data)
            if not completed:
                anomalies.append("json-record-flag-not-completed")
            obj = deserialise_object(value) if isinstance(value, dict) and "type" in value else value
            rec = _abstract_value(obj, anomalies)
            if index_of_name(ident) != rec["src"]:
                anomalies.append("json-record-identifier-differs")
            return rec
        return _abstract_value(_unpickled(data), anomalies)
    except Exception as ex:  # noqa
        anomalies.append(f"completed-content-undecodable:{type(ex).__name__}")
        return {"kind": "completed", "src": 0, "trail": [], "wrong": 0}


def decode_nc(writer, data, anomalies, expect=None):
    from cogent3.app.composable import NotCompleted
    from cogent3.app.io import DEFAULT_DESERIALISER
    from cogent3.util.deserialise import deserialise_object

    w = writer.split("_sqlite")[0]
    try:
        nc = DEFAULT_DESERIALISER(data) if w == "write_db" else deserialise_object(data)
        if not isinstance(nc, NotCompleted):
            anomalies.append("nc-record-not-a-NotCompleted")
            return {"kind": "not_completed", "type": "?", "origin": 0, "msg": "other", "src": 0}
        return _abstract_nc(nc, anomalies, expect)
    except Exception as ex:  # noqa
        anomalies.append(f"nc-content-undecodable:{type(ex).__name__}")
        return {"kind": "not_completed", "type": "?", "origin": 0, "msg": "other", "src": 0}


def canon_hash(writer, data):
    """hash of a record's content; write_db blobs are compared decoded (pickle byte streams of
    equal objects may differ in memoisation after a trip through a worker process)"""
    import hashlib

    from cogent3.app.io import DEFAULT_DESERIALISER

    if writer.split("_sqlite")[0] == "write_db":
        try:
            import pickle

            data = json.dumps(pickle.loads(data), sort_keys=True, default=repr)
        except Exception as ex:  # noqa
            data = f"undecodable:{type(ex).__name__}"
    b = data.encode("utf8") if isinstance(data, str) else bytes(data)
    return hashlib.md5(b).hexdigest()


def member_index(kind, uid, nc, suffix, anomalies=None):
    """identifier of a store member -> input index (0 = not the identifier of any input)"""
    uid = str(uid)
    if kind == "sqlite" and nc and uid.endswith(".json") and index_of_name(uid[:-5]):
        # the record is attributable, but its identifier is not the input's identifier
        if anomalies is not None:
            anomalies.append("sqlite:not_completed-identifier-carries-.json-suffix")
        return index_of_name(uid[:-5])
    if kind == "dir":
        if nc:
            p = Path(uid)
            if p.parent.name != "not_completed" or p.suffix != ".json":
                return 0
            return index_of_name(p.stem)
        if not uid.endswith(f".{suffix}"):
            return 0
        return index_of_name(uid[: -len(suffix) - 1])
    return index_of_name(uid)


def project_store(ds, writer, n, tag, raw=None):
    """-> (written[1..n], anomalies) from a data store object"""
    kind, suffix, _ = WRITERS[writer]
    anomalies = []
    written = [dict(NONE) for _ in range(n)]
    argseen = [dict(NOARG) for _ in range(n)]
    for nc, members in ((False, list(ds.completed)), (True, list(ds.not_completed))):
        seen = set()
        for m in members:
            uid = str(m.unique_id)
            if uid in seen:
                anomalies.append(f"{tag}:duplicate-member")
                continue
            seen.add(uid)
            i = member_index(kind, uid, nc, suffix, anomalies)
            if not 1 <= i <= n:
                anomalies.append(f"{tag}:record-under-unknown-identifier")
                continue
            data = m.read()
            rec = decode_nc(writer, data, anomalies, i) if nc else decode_completed(writer, data, anomalies)
            if raw is not None:
                raw[str(i)] = canon_hash(writer, data)
            arg = rec.pop("_arg", None)
            if written[i - 1]["kind"] != "none":
                anomalies.append(f"{tag}:completed-and-not-completed-record")
                continue
            written[i - 1] = rec
            if arg is not None:
                argseen[i - 1] = arg
            try:
                import hashlib

                md5 = ds.md5(uid)
                b = data.encode("utf8") if isinstance(data, str) else data
                if md5 != hashlib.md5(b).hexdigest():
                    anomalies.append(f"{tag}:md5-" + ("wrong" if md5 else "missing"))
            except Exception:
                anomalies.append(f"{tag}:md5-raised")
    if raw is not None:
        raw["argseen"] = argseen
    return written, sorted(set(anomalies))


# ------------------------------------------------------------------------- stores
def open_store(writer, path: Path, mode):
    from cogent3.app.data_store import DataStoreDirectory
    from cogent3.app.sqlite_data_store import DataStoreSqlite

    kind, suffix, _ = WRITERS[writer]
    if kind == "dir":
        return DataStoreDirectory(path / "out", mode=mode, suffix=suffix)
    return DataStoreSqlite(path / "out.sqlitedb", mode=mode)


def close_store(ds):
    try:
        if hasattr(ds, "unlock"):
            ds.unlock(force=True)
        if hasattr(ds, "close"):
            ds.close()
    except Exception:
        pass


class Tap:
    """records, in the master, every record the writer hands to the data store"""

    def __init__(self, ds, writer):
        self.events = []  # (monotonic_ns, kind, input index)
        self.cv = threading.Condition()
        kind, suffix, _ = WRITERS[writer]
        for meth, nc in (("write", False), ("write_not_completed", True)):
            orig = getattr(ds, meth)

            def wrapped(*, unique_id, data, _orig=orig, _nc=nc):
                out = _orig(unique_id=unique_id, data=data)
                uid = str(unique_id)
                # identifier as handed over by the writer (suffix-less or not)
                stem = uid
                for sfx in (".json", f".{suffix}" if suffix else ""):
                    if sfx and stem.endswith(sfx):
                        stem = stem[: -len(sfx)]
                with self.cv:
                    self.events.append((time.monotonic_ns(), "not_completed" if _nc else "completed", index_of_name(stem), uid, data))
                    self.cv.notify_all()
                return out

            setattr(ds, meth, wrapped)

    def wait_more(self, count, timeout, state):
        """wait until the master handed one more record to the store (or the run is over)"""
        with self.cv:
            self.cv.wait_for(lambda: len(self.events) > count or state.get("stop"), timeout)
            return len(self.events) > count

    def wake(self):
        with self.cv:
            self.cv.notify_all()


# --------------------------------------------------------------------------- jobs
def make_steps(job, ctl=None):
    """loader + step 2 + step 3 of the job's family, instantiated with its plan and value classes"""
    import apps_C14 as A

    n = len(job["plan"])
    plan = {name_of(i + 1): list(p) for i, p in enumerate(job["plan"])}
    delays = {name_of(i + 1): d for i, d in enumerate(job.get("delays") or [])}
    sched = dict(ctl=str(ctl) if ctl else "", gated=bool(job.get("order")) and job.get("w", 0) > 0, delays=delays)
    vclass = {name_of(i + 1): c for i, c in enumerate(job.get("vclass") or []) if c}
    if job.get("family") == "values":
        payloads = {name_of(i + 1): payload_of(i + 1) for i in range(n)}
        step3 = A.STEP3[job.get("step3") or "typed"]
        return A.c14_vload(plan, vclass, payloads, **sched) + A.c14_v1(plan, vclass, payloads) + step3(plan, vclass, payloads)
    if job.get("step2") == "fn":
        # the harness keeps the objects it constructs the app with: they must never change either
        job["_ctor_args"] = (list(A.ARG0_TICKETS), dict(A.ARG0_CFG))
        step2 = A.c14_fn(plan, vclass, job["_ctor_args"][0], cfg=job["_ctor_args"][1])
    else:
        step2 = A.c14_g1(plan, vclass=vclass)
    return A.c14_load(plan, vclass=vclass, **sched) + step2 + A.c14_g2(plan, vclass=vclass)


def build_app(job, ods, ctl):
    from cogent3.app import io

    wcls = getattr(io, job["writer"].split("_sqlite")[0])
    kw = {"format": "fasta"} if wcls is io.write_seqs else {}
    return make_steps(job, ctl) + wcls(data_store=ods, **kw)


def prepare_named_inputs(ind: Path, names):
    """input records for one more list of identifiers (same content per position)"""
    for i, name in enumerate(names, start=1):
        f = Path(ind) / f"{name}.fasta"
        if not f.exists():
            f.write_text(f">id\n{payload_of(i)}\n")


def prepare_inputs(base: Path, nmax: int) -> Path:
    """the (read-only, shared) input records t1..t<nmax>"""
    ind = Path(base) / "in"
    ind.mkdir(parents=True, exist_ok=True)
    (ind / "alt").mkdir(exist_ok=True)
    set_names()
    for i in range(1, nmax + 1):
        (ind / f"{name_of(i)}.fasta").write_text(f">id\n{payload_of(i)}\n")
        # another file whose identifier (name without format suffixes, get_unique_id) is the same
        (ind / "alt" / f"{name_of(i)}.fasta").write_text(f">id\n{payload_of(i)}\n")
    for n in range(1, nmax + 1):  # directories holding exactly the first n records
        (ind / f"exact-{n}").mkdir(exist_ok=True)
        for i in range(1, n + 1):
            (ind / f"exact-{n}" / f"{name_of(i)}.fasta").write_text(f">id\n{payload_of(i)}\n")
    return ind


UNORDERED_REPS = ("glob", "datastore")  # the order of a directory listing is the file system's


def make_inputs(job):
    """the job's inputs in the REPRESENTATION the behaviour names (ComposedApp.tla, Reps)"""
    from cogent3.app.data_store import DataStoreDirectory

    ind = Path(job["in_dir"])
    names = [name_of(i) for i in job.get("subset") or range(1, job["n"] + 1)]
    if job.get("rev"):
        names.reverse()
    rep = job.get("rep") or "list"
    if rep in UNORDERED_REPS:
        # a directory holding exactly these records
        exact = ind / f"exact-{job['n']}"
        return DataStoreDirectory(exact, suffix="fasta") if rep == "datastore" else exact.glob("*.fasta")
    if rep == "liststr" or (rep != "members" and job["inputs"] == "path"):
        items = [str(ind / f"{nm}.fasta") for nm in names]
    else:
        ins = DataStoreDirectory(ind, suffix="fasta")
        by = {m.unique_id: m for m in ins.completed}
        items = [by[f"{nm}.fasta"] for nm in names]
    if rep == "tuple":
        return tuple(items)
    if rep == "generator":
        return (x for x in items)
    if rep == "map":
        return map(lambda x: x, items)
    if rep == "iter":
        return iter(items)
    if rep == "reversed":
        return reversed(items)
    return items


def scheduler(job, ctl: Path, tap: Tap, state: dict):
    """release the gates in the completion order TLC chose, each only after the master
    consumed the previous result"""
    try:
        for t in job["order"]:
            if state.get("stop"):
                break
            started = ctl / "started" / name_of(t)
            deadline = time.monotonic() + SCHED_TIMEOUT
            while not started.exists():
                if time.monotonic() > deadline or state.get("stop"):
                    state["unforced"] = f"task {t} was not running when the schedule wanted it to complete"
                    break
                time.sleep(0.004)
            if "unforced" in state:
                break
            state.setdefault("running_at_release", []).append(sorted(index_of_name(p.name) for p in (ctl / "started").iterdir()))
            before = len(tap.events)
            (ctl / "gate" / name_of(t)).write_text("go")
            # the master writes one record per consumed result (which identifier it used is
            # judged afterwards)
            if not tap.wait_more(before, RECORD_TIMEOUT, state):
                if state.get("stop"):
                    break
                state["unforced"] = f"no record was written after the task of input {t} was released"
                break
    finally:
        # whatever happened, let every blocked task go so that the executor can shut down
        for i in range(1, job["n"] + 1):
            (ctl / "gate" / name_of(i)).write_text("go")


def run_job(job, root: Path):
    """job: {n, plan, w, order, writer, inputs, delays?, id}; returns observations"""
    root = Path(root)
    root.mkdir(parents=True, exist_ok=True)
    set_names(job.get("names"))
    n, w = job["n"], job["w"]
    obs = {"id": job.get("id")}
    ctl = None
    if w > 0:
        ctl = root / "ctl"
        for sub in ("started", "gate", "stamp"):
            (ctl / sub).mkdir(parents=True)
    inputs = make_inputs(job)
    ods = open_store(job["writer"], root, "w")
    tap = Tap(ods, job["writer"])
    app = build_app(job, ods, ctl)
    state = {}
    th = None
    # an exception escaping writer.main aborts apply_to, whose executor then waits for the blocked
    # tasks: tell the scheduler at once (observation only; the exception is re-raised)
    writer_main = app.main

    def _main(*a, **k):
        try:
            return writer_main(*a, **k)
        except BaseException:
            state["stop"] = True
            tap.wake()
            raise

    app.main = _main
    if w > 0 and job.get("order"):
        th = threading.Thread(target=scheduler, args=(job, ctl, tap, state), daemon=True)
        th.start()
    t0 = time.monotonic_ns()
    try:
        kw = {"parallel": True, "par_kw": {"max_workers": w}} if w > 0 else {}
        ret = app.apply_to(inputs, logger=False, **kw)
        obs["ret"] = "ok"
        obs["returns_store"] = ret is ods
    except BaseException as ex:  # GateTimeout is a BaseException
        # the executor only shuts down (when the traceback is released, at the end of this
        # block) once the blocked tasks are let go: tell the scheduler first
        state["stop"] = True
        tap.wake()
        obs["ret"] = "raised"
        obs["exception"] = type(ex).__name__
        obs["traceback"] = traceback.format_exc()[-1800:]
        if type(ex).__name__ in ("GateTimeout", "KeyboardInterrupt", "TerminatedWorkerError", "BrokenProcessPool"):
            obs["machinery"] = True
    finally:
        state["stop"] = True
        tap.wake()
        if th is not None:
            th.join(SCHED_TIMEOUT + 5)
    obs["t0"] = t0
    obs["writes"] = []
    wanom = []
    for ts, k, i, uid, data in tap.events:
        rec = decode_nc(job["writer"], data, wanom, i) if k == "not_completed" else decode_completed(job["writer"], data, wanom)
        rec.pop("_arg", None)
        obs["writes"].append({"ts": ts, "kind": k, "i": i, "uid": uid, "rec": rec, "hash": canon_hash(job["writer"], data)})
    if "unforced" in state:
        obs["unforced"] = state["unforced"]
    obs["running_at_release"] = state.get("running_at_release")
    # live object, then what a freshly opened read-only store sees
    try:
        obs["live"], obs["live_anomalies"] = project_store(ods, job["writer"], n, "live")
    except Exception:
        obs["live"], obs["live_anomalies"] = None, ["live:projection-raised:" + traceback.format_exc()[-300:]]
    close_store(ods)
    raw = {}
    ro = open_store(job["writer"], root, "r")
    try:
        obs["disk"], obs["disk_anomalies"] = project_store(ro, job["writer"], n, "disk", raw)
    finally:
        close_store(ro)
    obs["argseen"] = raw.pop("argseen", None)
    obs["raw"] = raw
    if "_ctor_args" in job:
        import apps_C14 as A

        obs["ctor_args_unchanged"] = job["_ctor_args"] == (A.ARG0_TICKETS, A.ARG0_CFG)
        del job["_ctor_args"]
    if ctl is not None:
        stamps = {}
        for p in (ctl / "stamp").iterdir():
            if p.name.startswith("."):
                continue
            a, b = p.read_text().split()
            stamps[str(index_of_name(p.name))] = [int(a), int(b)]
        obs["stamps"] = stamps
    return obs


def run_as_completed(job, root: Path):
    """list(app.as_completed(inputs)) for the composition without writer -> [[src, value]...]"""
    from cogent3.app.composable import NotCompleted
    from cogent3.app.data_store import get_unique_id

    root = Path(root)
    root.mkdir(parents=True, exist_ok=True)
    set_names(job.get("names"))
    inputs = make_inputs(job)
    app = make_steps(job)
    job.pop("_ctor_args", None)
    out = []
    anomalies = []
    argseen = [dict(NOARG) for _ in range(job["n"])]
    try:
        kw = {"parallel": True, "par_kw": {"max_workers": job["w"]}} if job.get("w", 0) > 0 else {}
        for r in app.as_completed(inputs, show_progress=False, **kw):
            src = index_of_name(get_unique_id(r.source))
            obj = getattr(r, "obj", r)
            if isinstance(obj, NotCompleted):
                a = _abstract_nc(obj, anomalies, src)
                val = {"k": "nc", "type": a["type"], "origin": a["origin"], "msg": a["msg"], "src": a["src"]}
            else:
                a = _abstract_value(obj, anomalies)
                val = {"k": "val", "src": a["src"], "trail": a["trail"], "wrong": a["wrong"]}
                if "_arg" in a and 1 <= src <= len(argseen):
                    argseen[src - 1] = a["_arg"]
            out.append({"src": src, "obj": val})
        return {"ret": "ok", "results": out, "anomalies": anomalies, "argseen": argseen}
    except Exception as ex:
        return {"ret": "raised", "exception": type(ex).__name__, "traceback": traceback.format_exc()[-1500:], "results": out, "anomalies": anomalies}
