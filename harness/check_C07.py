"""C07 — incrementally recalculated likelihoods equal a fresh calculation.

Layer 1 (Recalc.tla): Calculator.change transcribed; TLC checks Fresh / UndoSound /
ReturnIsTop on the closed reachable set of three DAG shapes; every emitted transition is
replayed on a REAL cogent3 Calculator built from real OptPar / EvaluatedCell objects whose
calc functions compute provenance tuples (and, for recycling cells, write into Box objects
in place), comparing both buffers, array identities, _switch, last_values, last_undo and
spare with the spec state.
Layer 1b: the same change-vector histories (paths of the spec graph) are driven through
real likelihood-function calculators and lnL is compared with a newly built function.
Layer 2 (ParamScope.tla): see scope_C07.
"""
from __future__ import annotations

import json
import os
import random
import sys

from common import Run, main_wrapper
from graph import Adapter, Graph, explore, skey
from tlc import Scratch, read_emitted, run_tlc

SHAPES = {
    # name: (NPar, N, args (1-based ranks), recycled, bad cell, bad par, bad val, vals)
    "Chain": (3, 6, {4: [1, 2], 5: [4, 3], 6: [5]}, {4}, 5, 3, 3),
    "Diamond": (2, 6, {3: [1], 4: [1, 2], 5: [3, 4], 6: [5]}, {4, 5}, 5, 2, 3),
    "Shared": (2, 5, {3: [1], 4: [2], 5: [3, 4]}, {3, 4, 5}, 5, 2, 3),
}
MIXED = 99


class Box:
    """A mutable 'array' with a creation-order label (the spec's array id)."""

    __slots__ = ("label", "value")


class Ctx:
    pass


class CalcAdapter(Adapter):
    def __init__(self, shape):
        self.shape = shape
        self.npar, self.n, self.args, self.recycled, self.badcell, self.badpar, self.badval = SHAPES[shape]

    def fresh(self, variant):
        from cogent3.maths.optimisers import ParameterOutOfBoundsError
        from cogent3.recalculation.calculation import Calculator, EvaluatedCell, OptPar

        ctx = Ctx()
        ctx.boxes = []
        npar = self.npar

        def prov(x, p=None):
            if isinstance(x, Box):
                return x.value
            if isinstance(x, tuple):
                return x
            return tuple(int(x) if q == p else 0 for q in range(1, npar + 1))

        def make_calc(rank, argranks, recycled):
            def combine(argvals):
                ps = [prov(a, r) for a, r in zip(argvals, argranks)]
                out = []
                for q in range(npar):
                    s = {p[q] for p in ps} - {0}
                    out.append(0 if not s else (s.pop() if len(s) == 1 else MIXED))
                out = tuple(out)
                if rank == self.badcell and out[self.badpar - 1] == self.badval:
                    raise ParameterOutOfBoundsError((rank, out))
                return out

            if recycled:

                def calc(prev, *argvals):
                    val = combine(argvals)
                    if prev is None:
                        prev = Box()
                        ctx.boxes.append(prev)
                        prev.label = len(ctx.boxes)
                    prev.value = val
                    return prev

            else:

                def calc(*argvals):
                    return combine(argvals)

            return calc

        cells = [OptPar(f"p{p}", (), (0.0, 1.0, 10.0)) for p in range(1, npar + 1)]
        for c in range(npar + 1, self.n + 1):
            argcells = [cells[a - 1] for a in self.args[c]]
            cells.append(EvaluatedCell(f"c{c}", make_calc(c, self.args[c], c in self.recycled), argcells, recycling=c in self.recycled))
        ctx.calc = Calculator(cells, {}, trace=False, with_undo=True)
        return ctx

    def apply(self, ctx, act, args):
        assert act == "Change"
        chf = args[0]
        changes = [(p, float(v)) for p, v in enumerate(chf) if v != 0]
        try:
            out = ctx.calc.change(changes)
        except Exception as ex:
            ctx.last_exc = repr(ex)
            return {"kind": "raised", "val": [0] * self.npar}
        val = out.value if isinstance(out, Box) else out
        return {"kind": "value", "val": list(val)}

    def project(self, ctx):
        c = ctx.calc

        def cellv(r, v):
            if r < self.npar:
                return int(v)
            if isinstance(v, Box):
                return v.label
            if v is None:
                return 0
            return list(v)

        cv = [[cellv(r, v) for r, v in enumerate(c.cell_values[b])] for b in (0, 1)]
        undo = [0] * self.npar
        for i, v in c.last_undo:
            undo[i] = int(v)
        return {
            "cv": cv,
            "heap": [list(b.value) for b in ctx.boxes],
            "sw": int(c._switch),
            "lastv": [int(v) for v in c.last_values],
            "undo": undo,
            "spare": [(s.label if isinstance(s, Box) else 0) for s in c.spare],
        }

    def ret_matches(self, spec_ret, real_ret):
        return spec_ret == real_ret

    def finding_key(self, status, detail):
        if status != "mismatch":
            return f"calculator:{self.shape}:{status}"
        obs = detail["observed"]["state"]
        exp = detail["allowed"][0]["to"]
        diffs = sorted(k for k in exp if obs.get(k) != exp[k])
        if detail["allowed"][0]["ret"] != detail["observed"]["ret"]:
            diffs.append("ret")
        f = detail["from"]
        nch = sum(1 for v in detail["args"][0] if v)
        undo_on = any(f["undo"])
        return f"calculator:{self.shape}:nchanges={nch}:undo_offered={undo_on}:" + ",".join(diffs)


def layer1(run, scratch, shapes, budget):
    stats = {}
    for shape in shapes:
        emit = scratch / f"recalc-{shape}.ndjson"
        res = run_tlc("MC_Recalc", f"MC_Recalc_{shape}.cfg", scratch, workers=16, env={"EMIT_FILE": emit}, timeout=1500)
        run.add_tlc(res)
        g = Graph(read_emitted(emit))
        emit.unlink()
        ad = CalcAdapter(shape)
        ctx = ad.fresh(0)
        init = ad.project(ctx)
        if skey(init) not in g.states:
            run.fail(f"calculator:{shape}:initial-state", {"observed": init}, what="real Calculator's initial buffers differ from Recalc!Init")
            continue
        st = explore(g, init, ad, run, seed=run.seed, budget=budget)
        stats[shape] = st
        run.cov["traces_validated_against_impl"] += st["impl_transitions_checked"]
        # every spec state must be reachable by the real calculator too (the model is not wider than the code)
        if st["skipped_by_budget"] == 0 and st["mismatches"] == 0 and st["impl_states_reached"] != st["spec_states"]:
            run.model_drift(f"{shape}: real calculator reached {st['impl_states_reached']} of {st['spec_states']} spec states")
    run.note("layer1_calculator_replay", stats)
    return stats


def check(run: Run):
    with Scratch("C07") as scratch:
        if run.tier == "quick":
            layer1(run, scratch, ["Diamond", "Shared"], budget=int(os.environ.get("VERIF_C07_BUDGET", "30000")))
        else:
            layer1(run, scratch, ["Diamond", "Shared", "Chain"], budget=None)
        import lf_C07
        import trace_C07

        trace_C07.record_and_validate(run, scratch, 5 if run.tier == "quick" else 15)
        lf_C07.run_layers(run, scratch)
    run.cov["rule"] = (
        "layer 1: every (state, change-vector) transition of Recalc.tla for each DAG shape replayed on a real Calculator "
        "(all subsets of parameters x 3 values incl. reverting/partially reverting/no-op/out-of-bounds vectors); "
        "layers 1b/2: spec-generated histories on real likelihood functions vs freshly built functions"
    )
    run.cov["evaluations"] = run.cov["traces_validated_against_impl"]
    run.cov["distinct_nontrivial"] = run.cov["traces_validated_against_impl"]
    run.assumptions += [
        "cell values are modelled by provenance; numeric correctness of individual calc functions is not part of C07",
        "MPI / parallel calculators and tracing_update are not covered",
    ]


def replay_case(detail):
    from graph import replay_detail

    key = str(detail.get("key", ""))
    if key.startswith("calculator:"):
        return replay_detail(CalcAdapter(key.split(":")[1]), detail)
    if key.startswith("lf:"):
        import lf_C07

        return replay_detail(lf_C07.LfAdapterChecked(), detail)
    return {"reproduced": True, "note": "trace findings are replayed by re-running the check"}


if __name__ == "__main__":
    sys.exit(main_wrapper(check, "C07"))
