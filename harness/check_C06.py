"""C06 -- sequence file formats round-trip and all parsers of a format agree.

spec -> code, two specifications:
  LineStream.tla  a state machine transcribed from util/io.py iter_splitlines (text layer with
                  universal newlines, read(chunk), `last`, yield, flush).  TLC proves, for every
                  text over {a, b, \\n, \\r} up to the bound and every chunk size (with arbitrary
                  short reads), that the yielded lines are exactly SplitLines(text) -- the
                  independently written definition of str.splitlines -- and emits (text, chunk,
                  lines, line blocks); the harness runs the real iter_splitlines /
                  iter_line_blocks on scratch files (plain, .gz, .bz2) with the same arguments.
  SeqFormats.tla  the oracle Parse(Write_fmt(x)) = <<Trunc_fmt(name), seq>>, line-level models of the
                  FASTA / PHYLIP / PAML / GDE writers and transcriptions of every parser.  TLC
                  enumerates small collections (names over character classes, sequences with
                  lengths around the block boundaries), proves the parser models lossless on the
                  clean domain (names holding '>' included) for every text the writer relation
                  allows, and emits each case with the oracle,
                  its structural class and the model predictions; the harness builds the real
                  collection (ArrayAlignment, Alignment, SequenceCollection; DNA / RNA / protein),
                  writes it (plain, .gz, .bz2, explicit format=), loads it back, and calls every
                  parser variant of the format directly on the written text (bytes / line based,
                  strict / non-strict, through iter_splitlines with several chunk sizes, CRLF copies).
  SeqFormatsHist.tla  the loader configuration as state: histories of loads of one line based format in one
                  process (LoadOpt ; RoundTrip = RoundTrip); TLC refutes the design that merges per-call options
                  into the shared parser object; every history is replayed in a pristine forked process.
  SeqFormatsGb.tla  model of the GenBank flat-file layout (cogent3 has no GenBank writer) + transcription of
                  the bytes-splitting iter_genbank_records; every GenBank parser variant (minimal_parser,
                  rich_parser, MinimalGenbankParser, registry, loaders) must return the oracle records.
"""
from __future__ import annotations

import multiprocessing as mp
import os
import pathlib
import sys
import time

from common import Run, main_wrapper
from tlc import Scratch, read_emitted, run_tlc

import formats_C06 as F
import lines_C06 as L

# shared machine: 8 TLC workers and 8 replay processes unless told otherwise
NPROC = int(os.environ.get("VERIF_NPROC", min(8, os.cpu_count() or 1)))
WORKERS = int(os.environ.get("VERIF_TLC_WORKERS", 8))


def _init_worker():
    import multiprocessing.process as mpp

    mpp._parent_process = None


def tlc_emit(run, spec, cfg, scratch, name, workers=None, **kw):
    """run TLC with emission; records larger than one buffered write (~8 kB) need workers=1"""
    emit = scratch / f"{name}.ndjson"
    res = run_tlc(spec, cfg, scratch, workers=workers or WORKERS, env={"EMIT_FILE": emit}, **kw)
    run.add_tlc(res)
    t0 = time.time()
    recs = list(read_emitted(emit))
    emit.unlink(missing_ok=True)
    print(f"[C06] {cfg}: {res.distinct} states, {res.generated} transitions, {len(recs)} emitted, tlc {res.wall:.1f}s, read {time.time() - t0:.1f}s", flush=True)
    if not recs:
        raise RuntimeError(f"vacuous: no transitions emitted by {cfg}")
    return recs, res


def check_linestream(run: Run, scratch, stats):
    tier = run.tier
    cfgs = ["MC_LineStream_quick.cfg"] if tier == "quick" else ["MC_LineStream_thorough.cfg", "MC_LineStream_thorough_short.cfg"]
    by_text = {}
    for cfg in cfgs:
        recs, res = tlc_emit(run, "LineStream", cfg, scratch, cfg[:-4])
        g = L.group_records(recs, (1, 2, 3))
        for text, d in g.items():
            cur = by_text.setdefault(text, {})
            for k, e in d.items():
                if k in cur and cur[k] != e:
                    raise RuntimeError("LineStream configurations disagree")
                cur[k] = e
        stats[cfg] = {"tlc_states": res.distinct, "tlc_transitions": res.generated, "tlc_wall_s": round(res.wall, 1), "emitted": len(recs)}
    # vacuity guard: the alphabet must contain the real line-end characters
    for needle in ("\n", "\r", "\r\n", "a"):
        if not any(needle in t for t in by_text):
            raise RuntimeError(f"vacuous: no emitted text contains {needle!r}")
    if not any(len(e["lines"]) >= 3 for d in by_text.values() for e in d.values()):
        raise RuntimeError("vacuous: no emitted text has three lines")
    d = scratch / "ls"
    d.mkdir()
    L.set_scratch(d)
    jobs = [(text, by_k, tier) for text, by_k in sorted(by_text.items())]
    t0 = time.time()
    ncalls = bad = 0
    ctx = mp.get_context("fork")
    with ctx.Pool(NPROC, initializer=_init_worker) as pool:
        for job, (out, n) in zip(jobs, pool.imap(L.run_text, jobs, chunksize=32)):
            ncalls += n
            for key, what, detail in out:
                bad += 1
                run.fail(key, detail, what=what)
    pairs = sum(len(v) for v in by_text.values())
    for text in ("a\r\nb\n", "ab\rb\n\n"):
        if text in by_text:
            k = sorted(by_text[text])[1]
            run.sample({"spec": "LineStream", "text": text, "chunk_size": k, "lines": by_text[text][k]["lines"]})
    print(f"[C06] LineStream: {len(jobs)} texts, {pairs} (text, chunk) pairs, {ncalls} real calls, {bad} disagreements, {time.time() - t0:.1f}s", flush=True)
    stats["linestream_replay"] = {"texts": len(jobs), "text_chunk_pairs": pairs, "real_calls": ncalls, "disagreements": bad}
    return pairs, ncalls


def check_formats(run: Run, scratch, stats):
    tier = run.tier
    recs, res = tlc_emit(run, "SeqFormats", f"MC_SeqFormats_{tier}.cfg", scratch, "seqformats")
    stats["SeqFormats"] = {"tlc_states": res.distinct, "tlc_transitions": res.generated, "tlc_wall_s": round(res.wall, 1), "emitted": len(recs)}
    # the FASTA writer relation: allowed line-length layouts per (sequence length, block)
    layouts = {}
    for r in recs:
        if r["to"]["layouts"]:
            layouts[(len(r["from"]["seqs"][0]), r["from"]["block"])] = {tuple(x) for x in r["to"]["layouts"]}
        elif r["from"]["fmt"] == "fasta" and len(r["from"]["seqs"]) == 1 and not r["from"]["seqs"][0]:
            layouts[(0, r["from"]["block"])] = {()}
    F.set_layouts(layouts)
    d = scratch / "sf"
    d.mkdir()
    F.set_scratch(d)
    recs.sort(key=lambda r: (r["from"]["fam"], r["from"]["fmt"], r["from"]["block"], r["from"]["names"], r["from"]["seqs"]))
    jobs = [(i, r, tier, run.seed) for i, r in enumerate(recs)]
    t0 = time.time()
    tot = {}
    bad = drift = 0
    by_class = {}
    ctx = mp.get_context("fork")
    with ctx.Pool(NPROC, initializer=_init_worker) as pool:
        for (i, r, _, _), (idx, out, st) in zip(jobs, pool.imap(F.run_case, jobs, chunksize=16)):
            for k, v in st.items():
                tot[k] = tot.get(k, 0) + v
            ck = f"{r['from']['fam']}:{r['from']['fmt']}:{r['to']['cls']}"
            by_class[ck] = by_class.get(ck, 0) + 1
            for o in out:
                if o[0] == "fail":
                    bad += 1
                    run.fail(o[1], {"case": r["from"], **o[3]}, what=o[2])
                else:
                    drift += 1
                    run.model_drift(f"SeqFormats: {o[1]} {str(o[2])[:300]}")
            if i % 1499 == 7:
                run.sample({"spec": "SeqFormats", "fmt": r["from"]["fmt"], "block": r["from"]["block"],
                            "names": ["".join(n) for n in r["from"]["names"]], "seqs": ["".join(s) for s in r["from"]["seqs"]],
                            "class": r["to"]["cls"], "expected": [["".join(e["name"]), "".join(e["seq"])] for e in r["to"]["exp"]]})
    print(f"[C06] SeqFormats: {len(jobs)} cases, {tot.get('loads', 0)} write+load round trips, {tot.get('parses', 0)} direct parser calls, "
          f"{bad} disagreements with the oracle, {drift} model drifts, {time.time() - t0:.1f}s", flush=True)
    stats["seqformats_replay"] = {"cases": len(jobs), **tot, "disagreements": bad, "model_drift": drift, "cases_by_family_format_class": by_class}
    if tot.get("loads", 0) == 0 or tot.get("parses", 0) == 0:
        raise RuntimeError("vacuous: no round trip / parser call was executed")
    # vacuity guards: every format and every structural class is present, blanks / '>' really occur in names,
    # sequences reach beyond one block, and the model's characterisation of the bytes parser is exercised
    seen_cls = {k.split(":", 1)[1] for k in by_class}
    for need in [f"{f}:plain" for f in ("fasta", "phylip", "paml", "gde", "json")] + ["fasta:has-gt", "fasta:edge-blank", "phylip:trunc-edge-blank", "phylip:edge-blank"]:
        if need not in seen_cls:
            raise RuntimeError(f"vacuous: no case of class {need}")
    if not any(len(s) > 2 * r["from"]["block"] for r in recs for s in r["from"]["seqs"]):
        raise RuntimeError("vacuous: no sequence longer than two blocks")
    # names holding a '>' are read back verbatim by every FASTA parser model (since the repair of iter_fasta_records)
    if not any(isinstance(r["to"]["model"], dict) and r["to"]["model"].get("bytes", {"same": False})["same"] and r["to"]["cls"] == "has-gt" for r in recs):
        raise RuntimeError("vacuous: no has-gt case on which the bytes-parser model equals the oracle")
    # ragged collections whose FIRST sequence is shorter than a later one by more than a line, and the reverse
    def _lens(r):
        return [len(x) for x in r["from"]["seqs"]]
    for f in ("fasta", "gde", "json"):
        qs = [r for r in recs if r["from"]["fam"] == "Q" and r["from"]["fmt"] == f]
        if not any(_lens(r)[0] <= 1 and max(_lens(r)) > 2 * r["from"]["block"] for r in qs) or not any(_lens(r)[0] > 2 * r["from"]["block"] and min(_lens(r)) <= 1 for r in qs):
            raise RuntimeError(f"vacuous: no ragged {f} collection with the first sequence shortest / longest by more than two lines")
    if tot.get("route_roundtrips", 0) == 0 or not all(any(r["from"]["fam"] == "O" and r["from"]["fmt"] == f for r in recs) for f in ("fasta", "phylip", "paml", "gde", "json")):
        raise RuntimeError("vacuous: no round trip through the other writer routes (family O)")
    if tot.get("kept_argument_checks", 0) == 0:
        raise RuntimeError("vacuous: no check of the caller's list after a parse")
    if tot.get("handle_parses", 0) == 0:
        raise RuntimeError("vacuous: no parse from an open text handle positioned after consumed lines")
    if tot.get("default_width_roundtrips", 0) == 0:
        raise RuntimeError("vacuous: no ragged round trip at the default line width")
    # names with an interior run of blanks and with an interior tab, in every format
    for f in ("fasta", "phylip", "paml", "gde", "json"):
        nm = ["".join(n) for r in recs if r["from"]["fmt"] == f for n in r["from"]["names"]]
        for needle in ("  ", "   ", "\t"):
            if not any(needle in x.strip() for x in nm):
                raise RuntimeError(f"vacuous: no {f} name with {needle!r} inside")
    if not any(len("".join(n)) > 9 for r in recs if r["from"]["fmt"] == "phylip" for n in r["from"]["names"]):
        raise RuntimeError("vacuous: no PHYLIP name longer than 9 characters")
    return len(jobs), tot.get("loads", 0) + tot.get("parses", 0)


def check(run: Run):
    import cogent3  # noqa: F401  (imported once so that forked workers share it)
    import cogent3.parse.sequence  # noqa: F401

    stats = {}
    # VERIF_C06_PARTS restricts a run to some parts (development / mutant self-tests only; default = everything)
    parts = set(os.environ.get("VERIF_C06_PARTS", "linestream,hist,formats,genbank").split(","))
    pairs = lcalls = cases = fcalls = 0
    with Scratch("C06") as scratch:
        if "linestream" in parts:
            pairs, lcalls = check_linestream(run, scratch, stats)
        if "hist" in parts:
            # before anything in this process touches a loader: histories fork from a pristine parent
            import hist_C06

            nh, hcalls = hist_C06.check_histories(run, scratch, stats, tlc_emit, NPROC)
            cases += nh
            fcalls += hcalls
        if "formats" in parts:
            c2, f2 = check_formats(run, scratch, stats)
            cases += c2
            fcalls += f2
        if "genbank" in parts:
            import genbank_C06

            gfiles, gcalls = genbank_C06.check_genbank(run, scratch, stats, tlc_emit)
            cases += gfiles
            fcalls += gcalls
    run.note("groups", stats)
    run.cov["traces_validated_against_impl"] = pairs + cases
    run.cov["evaluations"] = lcalls + fcalls
    run.cov["distinct_nontrivial"] = pairs + cases
    run.cov["exhaustive"] = parts >= {"linestream", "hist", "formats", "genbank"}
    if not run.cov["exhaustive"]:
        run.assumptions.append(f"PARTIAL RUN: VERIF_C06_PARTS={sorted(parts)}")
    run.cov["rule"] = (
        "LineStream: every (text over {a,b,\\n,\\r} up to the bound, chunk size 1..8) pair of the exhaustive model, each run on "
        "plain/.gz(/.bz2) files through iter_splitlines and iter_line_blocks; SeqFormats: every case (format, block size, names, "
        "sequences) of the exhaustive model, each written and loaded as ArrayAlignment / Alignment / SequenceCollection and parsed by "
        "every parser variant of the format; SeqFormatsGb: every generated GenBank file (1..3 records, lengths around the 10/60 residue "
        "boundaries) parsed by every GenBank parser variant; distinct = distinct (text, chunk) pairs + distinct cases + distinct files; "
        "evaluations = real API calls; SeqFormatsHist: every history of 2 (thorough 3) public calls (load with parser_kw / label_to_name, "
        "plain round trip x {plain,.gz,.bz2} x {aligned,unaligned}, strictness probe) on each registered line based format, replayed in a pristine process"
    )
    run.assumptions += [
        "names contain at least one non-blank character and no control characters; names of one collection stay distinct after the format's truncation",
        "white space INSIDE a name (runs of 2-3 blanks, a tab; digit-only and residue-only words) must come back verbatim in every format "
        "(PHYLIP: within the first 9 characters): the parsers strip the edges of a label only; clustal/msf column layouts have no registered writer and no round trip",
        "writer routes (family O): write(), write_seqs app, to_fasta/to_phylip/to_json strings and FORMATTERS[fmt](dict) must all keep the collection's order; diff kind 'order' = same records, other order",
        "source representations: bytes, str path, Path, list / tuple / generator of lines, open text handle, open text handle after k consumed preamble lines "
        "(plain/.gz/.bz2 through open_), utf-16 handle, CR-only line ends; a handle at position k means the remaining lines",
        "arguments the caller keeps: the list of lines given to a parser, the dict / order list given to a formatter and the collection written must read as before after the call; a second parse of the same list gives the same records",
        "PHYLIP truncation is the writer's: names longer than 9 characters keep their first 9 (format/phylip.py)",
        "sequences use upper-case residues and '-' (the bytes FASTA parser upper-cases by documented design); residues A/C of the model are instantiated per case as DNA A/C, RNA A/U or protein M/K",
        "zero-length sequences are only exercised in ragged unaligned collections (FASTA, GDE, JSON) and reported under the class empty-seq",
        "JSON has no line-level model: only the oracle (names, order, sequences unchanged) is checked",
        "text differing from the writer model / a parser differing from its transcription while the oracle holds is MODEL-DRIFT, not a violation",
        "histories stay within one format (each format has its own parser object); 'the records of the file' for formats without a registered writer "
        "(clustal, nexus, msf, xmfa) is what the same plain load returns in a pristine process",
        "GenBank: cogent3 has no writer, well-formed files come from the layout model in SeqFormatsGb.tla; sequences are compared up to letter case",
        "clustal/nexus/xmfa/msf are not in FORMATTERS (no writer), so they have no round trip; encoding detection by chardet is exercised on ASCII only",
    ]


if __name__ == "__main__":
    sys.exit(main_wrapper(check, "C06"))
