"""C13, the sqlite store's lock: SqliteLock.tla replayed on real DataStoreSqlite objects.

Processes are simulated by patching os.getpid around every call (the store records os.getpid() as lock_pid)."""
from __future__ import annotations

import os
import shutil
import tempfile
from pathlib import Path

from graph import Adapter, Graph, explore
from tlc import read_emitted, run_tlc

PIDS = {"p1": 41001, "p2": 41002}
OBSERVER = 49999
IDS = ["x"]


class Ctx:
    pass


class as_pid:
    def __init__(self, pid):
        self.pid = pid

    def __enter__(self):
        self.real = os.getpid
        os.getpid = lambda: self.pid

    def __exit__(self, *a):
        os.getpid = self.real


class LockAdapter(Adapter):
    def fresh(self, variant):
        ctx = Ctx()
        ctx.dir = Path(tempfile.mkdtemp(prefix="verif-c13-lock-"))
        ctx.path = ctx.dir / "store.sqlitedb"
        ctx.obj = {}
        ctx.handle = {p: "closed" for p in PIDS}
        ctx.anom = []
        return ctx

    def cleanup(self, ctx):
        for ds in ctx.obj.values():
            try:
                ds.close()
            except Exception:
                pass
        shutil.rmtree(ctx.dir, ignore_errors=True)

    def apply(self, ctx, act, args):
        from cogent3.app.sqlite_data_store import DataStoreSqlite

        p = args[0]
        with as_pid(PIDS[p]):
            if act == "Access":
                m = args[1]
                ds = DataStoreSqlite(ctx.path, mode=m)
                ctx.obj[p] = ds
                try:
                    ds.db  # the connection (and the lock) is made at the first use
                except IOError as ex:
                    ctx.last_exc = repr(ex)
                    ctx.handle[p] = "refused"
                    return "raised"
                ctx.handle[p] = m
                return "ok"
            ds = ctx.obj[p]
            if act == "Retry":
                try:
                    ds.db
                    len(ds.completed)
                except IOError as ex:
                    ctx.last_exc = repr(ex)
                    return "raised"
                ctx.handle[p] = "w"
                return "ok"
            if act == "Write":
                _, i, v = args
                try:
                    ds.write(unique_id=i, data=f"v{v}")
                except IOError as ex:
                    ctx.last_exc = repr(ex)
                    return "raised"
                if ctx.handle[p] == "refused":
                    ctx.handle[p] = "w"
                return "ok"
            if act == "Unlock":
                ds.unlock(force=bool(args[1]))
                return "ok"
            if act == "Close":
                ds.close()
                del ctx.obj[p]
                ctx.handle[p] = "closed"
                return "ok"
        raise ValueError(act)

    def project(self, ctx):
        from cogent3.app.sqlite_data_store import DataStoreSqlite

        lock = "none"
        content = {i: 0 for i in IDS}
        anomalies = list(ctx.anom)
        if ctx.path.exists():
            with as_pid(OBSERVER):
                ro = DataStoreSqlite(ctx.path, mode="r")
                try:
                    lid = ro._lock_id
                    lock = "none" if lid is None else next((p for p, q in PIDS.items() if q == lid), f"pid{lid}")
                    for m in ro.completed:
                        data = ro.read(m.unique_id)
                        content[str(m.unique_id)] = int(str(data).lstrip("v"))
                finally:
                    ro.close()
            # what each connected object itself reports
            for p, ds in ctx.obj.items():
                if ctx.handle[p] not in ("r", "w", "a"):
                    continue
                with as_pid(PIDS[p]):
                    try:
                        if ds.locked != (lock != "none"):
                            anomalies.append("locked-property-disagrees-with-file")
                        title = ds.describe.title
                        want = "Unlocked" if lock == "none" else ("current process" if lock == p else "Locked to pid")
                        if want not in title:
                            anomalies.append("describe-title-disagrees-with-lock")
                    except Exception as ex:  # noqa
                        anomalies.append(f"observation-raised:{type(ex).__name__}")
        st = {"lock": lock, "content": content, "handle": dict(ctx.handle)}
        if anomalies:
            st["anomalies"] = sorted(set(anomalies))
        return st

    def finding_key(self, status, detail):
        act, args = detail["label"]
        if status != "mismatch":
            return f"sqlite-lock:{act}:{status}"
        f = detail["from"]
        p = args[0]
        obs = detail["observed"]
        exp = detail["allowed"][0]
        diffs = sorted(k for k in ("lock", "content", "handle") if obs["state"].get(k) != exp["to"].get(k))
        if obs["ret"] != exp["ret"]:
            diffs.append(f"ret={obs['ret']}")
        diffs += obs["state"].get("anomalies", [])
        mode = args[1] if act == "Access" else f["handle"][p]
        owner = "unlocked" if f["lock"] == "none" else ("own-lock" if f["lock"] == p else "locked-by-another-process")
        return f"sqlite-lock:{act}:object={mode}:file={owner}:" + ",".join(diffs)


def run_lock(run, scratch):
    cfg = "MC_SqliteLock_quick.cfg" if run.tier == "quick" else "MC_SqliteLock_thorough.cfg"
    emit = scratch / "lock.ndjson"
    res = run_tlc("SqliteLock", cfg, scratch, workers=8, env={"EMIT_FILE": emit}, timeout=900)
    run.add_tlc(res)
    g = Graph(read_emitted(emit))
    emit.unlink()
    ad = LockAdapter()
    ctx = ad.fresh(0)
    init = ad.project(ctx)
    ad.cleanup(ctx)
    st = explore(g, init, ad, run, seed=run.seed, budget=1500 if run.tier == "quick" else 40000)
    run.note("sqlite_lock_replay", st)
    run.cov["traces_validated_against_impl"] += st["impl_transitions_checked"]
    return st
