"""C18 — aligners preserve their inputs and are optimal for their own model.

PairAlign.tla enumerates EVERY alignment path (global; local = contiguous parts, M...M) of every
sequence pair within the bounds, with the rows each path denotes and its sufficient statistics
(aligned residue pairs, state transitions, first state).  For each scoring system the harness
evaluates the pair-HMM score of every path (ln / dot product: float leaf) and demands of
global_pairwise / local_pairwise: the returned rows ARE one of the spec's paths, the reported
score is that path's score, no path scores higher, and forcing the linear-space (Hirschberg)
algorithm gives the same score.
RefMerge.tla enumerates sets of pairwise gap layouts against a reference; the real
pairwise_to_multiple output is validated against RefMerge!Valid by TLC (Trace_RefMerge).
Progressive alignment outputs are validated structurally with the same Degap / equal-length
predicates.
"""
from __future__ import annotations

import itertools
import json
import math
import os
import re
import sys
from collections import defaultdict

import numpy as np

from common import Run, main_wrapper
from tlc import VERIF, Scratch, read_emitted, run_tlc

TOL = 1e-9
IDX = {"X": 0, "Y": 1, "M": 2}


def scoring_systems(alphabet):
    from cogent3.align.align import make_dna_scoring_dict

    S1 = make_dna_scoring_dict(10, -1, -8)
    S2 = make_dna_scoring_dict(1, -1, -1)
    S3 = {(a, b): (2 if a == b else (0 if {a, b} == {"A", "C"} else -3)) for a in "ACGT" for b in "ACGT"}  # asymmetric-ish mismatch classes
    out = []
    for sname, S in (("10/-1/-8", S1), ("1/-1/-1", S2), ("2/0/-3", S3)):
        for d, e in ((10, 2), (4, 1), (1, 1), (2, 1)):
            out.append((sname, S, d, e))
    return out


def weights(S, d, e, n=4):
    from cogent3.align import indel_model

    TM = indel_model.classic_gap_scores(d, e)
    T = np.array(TM.Matrix)
    pi0 = np.array(TM.StationaryProbs)
    with np.errstate(divide="ignore"):
        return np.log(T), np.log(pi0), math.log(n)


def path_score(rec, S, lnT, lnpi0, lnn):
    sc = lnpi0[IDX[rec["first"]]]
    for s, t, c in rec["trans"]:
        if c:
            sc += c * lnT[IDX[s], IDX[t]]
    for a, b, c in rec["pairs"]:
        if c:
            sc += c * (S[a, b] + lnn)
    return sc


def pairwise_part(run, scratch, cfg, systems_per_pair):
    from cogent3 import make_seq
    from cogent3.align import pairwise
    from cogent3.align.align import global_pairwise, local_pairwise

    emit = scratch / "paths.ndjson"
    res = run_tlc("PairAlign", cfg, scratch, workers=8, env={"EMIT_FILE": emit}, timeout=2400)
    run.add_tlc(res)
    groups = defaultdict(list)
    for rec in read_emitted(emit):
        groups[("".join(rec["s1"]), "".join(rec["s2"]), rec["mode"])].append(rec)
    systems = scoring_systems("ACG")
    W = {(sn, d, e): weights(S, d, e) for sn, S, d, e in systems}
    ncalls = 0
    import random

    rnd = random.Random(run.seed)
    orig_limit = pairwise.HIRSCHBERG_LIMIT
    for (a, b, mode), recs in sorted(groups.items()):
        byrows = {("".join(r["row1"]), "".join(r["row2"])): r for r in recs}
        sys_here = systems if systems_per_pair is None else rnd.sample(systems, systems_per_pair)
        for sn, S, d, e in sys_here:
            lnT, lnpi0, lnn = W[(sn, d, e)]
            scores = {k: path_score(r, S, lnT, lnpi0, lnn) for k, r in byrows.items()}
            best = max(scores.values())
            firsts = sorted({byrows[k]["path"][0] for k, v in scores.items() if abs(v - best) <= TOL * max(1.0, abs(best))})
            opt_ends = "optimum-starts-with=" + "|".join(firsts)
            s1 = make_seq(a, name="s1", moltype="dna")
            s2 = make_seq(b, name="s2", moltype="dna")
            fn = global_pairwise if mode == "global" else local_pairwise
            results = {}
            for limit_name, limit in (("full-dp", 10**8), ("hirschberg", 0)):
                pairwise.HIRSCHBERG_LIMIT = limit
                try:
                    aln, score = fn(s1, s2, S, d, e, return_score=True)
                except Exception as ex:
                    run.fail(f"pairwise:{mode}:{limit_name}:raised", {"s1": a, "s2": b, "S": sn, "d": d, "e": e, "exception": repr(ex)}, what="aligner raised")
                    continue
                finally:
                    pairwise.HIRSCHBERG_LIMIT = orig_limit
                ncalls += 1
                rows = aln.to_dict()
                got = (rows["s1"], rows["s2"])
                results[limit_name] = (got, score)
                case = {"s1": a, "s2": b, "mode": mode, "S": sn, "d": d, "e": e, "algorithm": limit_name, "returned": got, "reported_score": score, "best_path_score": best}
                shape = f"len={len(a)}x{len(b)}"
                if got not in byrows:
                    run.fail(f"pairwise:{mode}:{limit_name}:rows-not-a-path", case, what="returned rows are not an alignment path of the inputs (degapped content / all-gap column / unequal length)")
                    continue
                if abs(scores[got] - score) > TOL * max(1.0, abs(score)):
                    case["score_of_returned_path"] = scores[got]
                    run.fail(f"pairwise:{mode}:{limit_name}:reported-score-differs:{opt_ends}", case, what="reported score is not the score of the returned path")
                if best > score + TOL * max(1.0, abs(score)):
                    case["a_better_path"] = max(scores, key=scores.get)
                    run.fail(f"pairwise:{mode}:{limit_name}:not-optimal:{opt_ends}", case, what="another path scores higher than the returned one")
            if len(results) == 2:
                # (local alignment never takes the linear-space path: lowering the threshold must change nothing)
                (g1, sc1), (g2, sc2) = results["full-dp"], results["hirschberg"]
                if abs(sc1 - sc2) > TOL * max(1.0, abs(sc1)):
                    run.fail(f"pairwise:{mode}:hirschberg-score-differs", {"s1": a, "s2": b, "S": sn, "d": d, "e": e, "full": results["full-dp"], "hirschberg": results["hirschberg"]}, what="linear-space and full DP disagree on the score")
                nbest = sum(1 for v in scores.values() if abs(v - best) <= TOL)
                if nbest == 1 and g1 != g2:
                    run.fail(f"pairwise:{mode}:hirschberg-rows-differ:{opt_ends}", {"s1": a, "s2": b, "S": sn, "d": d, "e": e, "full": results["full-dp"], "hirschberg": results["hirschberg"]}, what="unique optimum but linear-space and full DP return different rows")
    run.sample({"pair": list(groups)[len(groups) // 2], "n_paths": len(groups[list(groups)[len(groups) // 2]])})
    _PATHS.update(groups)
    return len(groups), ncalls, sum(len(v) for v in groups.values())


_PATHS = {}


def calls_part(run, scratch, cfg):
    """AlignCalls.tla: histories of alignment calls on ONE score-table object that is edited in place between calls."""
    from cogent3 import get_app, make_seq, make_unaligned_seqs
    from cogent3.align.align import global_pairwise, local_pairwise, make_dna_scoring_dict

    emit = scratch / "aligncalls.ndjson"
    res = run_tlc("AlignCalls", cfg, scratch, workers=4, env={"EMIT_FILE": emit}, timeout=900)
    run.add_tlc(res)
    contents = {
        1: make_dna_scoring_dict(10, -1, -8),
        2: make_dna_scoring_dict(1, -1, -1),
        3: {(a, b): (2 if a == b else (0 if {a, b} == {"A", "C"} else -3)) for a in "ACGT" for b in "ACGT"},
    }
    gapsets = {1: (10, 2), 2: (2, 1), 3: (0, 1), 4: (6, 0)}  # incl. a free gap opening and a free gap extension
    W = {(c, g): weights(contents[c], *gapsets[g]) for c in contents for g in gapsets}

    def table(key):
        recs = _PATHS[key]
        byrows = {("".join(r["row1"]), "".join(r["row2"])): r for r in recs}
        sc = {}
        for c in contents:
            for g in gapsets:
                lnT, lnpi0, lnn = W[(c, g)]
                sc[(c, g)] = {k: path_score(r, contents[c], lnT, lnpi0, lnn) for k, r in byrows.items()}
        return byrows, sc

    # sequence pairs whose optimum depends on the model (otherwise a stale model is invisible)
    chosen = {"global": [], "local": []}
    for key in sorted(_PATHS, key=lambda k: (-len(k[0]) - len(k[1]), k)):
        a, b, mode = key
        if len(chosen[mode]) >= 4:
            continue
        byrows, sc = table(key)
        optima = {m: frozenset(k for k, v in s.items() if abs(v - max(s.values())) <= TOL) for m, s in sc.items()}
        if len(set(optima.values())) >= 2:
            chosen[mode].append((key, byrows, sc))
    if not chosen["global"] or not chosen["local"]:
        raise RuntimeError("vacuous: no sequence pair whose optimal alignment depends on the scoring model")
    seen = set()
    ncalls = 0
    for rec in read_emitted(emit):
        hk = json.dumps([rec["hist"], rec["mode"], rec["model"], rec["gaps"]])
        if hk in seen:
            continue
        seen.add(hk)
        # the spec's Init is nondeterministic; the initial model is the content before the first edit. Reconstruct by
        # walking forward is impossible without it, so walk backward: an "edit c" step means the content BEFORE it
        # is unknown-but-different; the harness fixes it as the smallest id different from c (any choice is a
        # behaviour of the spec)
        seq = []
        c, g = rec["model"], rec["gaps"]
        for step in reversed(rec["hist"]):
            if step[0] == "edit":
                seq.append(("edit", c)); c = min(x for x in contents if x != c)
            elif step[0] == "regap":
                seq.append(("regap", g)); g = min(x for x in gapsets if x != g)
            else:
                seq.append(("align", step[1]))
        seq.reverse()
        init_c, init_g = c, g
        for key, byrows, sc in chosen[rec["mode"]]:
            a, b, mode = key
            s1 = make_seq(a, name="s1", moltype="dna")
            s2 = make_seq(b, name="s2", moltype="dna")
            S = dict(contents[init_c])  # ONE object for the whole history
            c, g = init_c, init_g
            for kind, arg in seq + [("align", rec["mode"])]:
                if kind == "edit":
                    for k2, v2 in contents[arg].items():
                        S[k2] = v2  # edited in place
                    c = arg
                    continue
                if kind == "regap":
                    g = arg
                    continue
                fn = global_pairwise if arg == "global" else local_pairwise
                if arg != mode:
                    # a call of the other mode in the history: made on the same object with the same sequences
                    try:
                        fn(s1, s2, S, *gapsets[g], return_score=True)
                    except Exception:
                        pass
                    continue
                d, e = gapsets[g]
                ncalls += 1
                hist_kinds = ">".join(k for k, _ in seq) or "nothing"
                case = {"s1": a, "s2": b, "mode": mode, "history": seq, "model_now": c, "gaps_now": [d, e]}
                try:
                    aln, score = fn(s1, s2, S, d, e, return_score=True)
                except Exception as ex:
                    run.fail(f"calls:{mode}:after={hist_kinds}:raised", dict(case, exception=repr(ex)), what="aligner raised")
                    break
                rows = aln.to_dict()
                got = (rows["s1"], rows["s2"])
                scores = sc[(c, g)]
                best = max(scores.values())
                case.update(returned=got, reported_score=score, best_path_score=best)
                if got not in byrows:
                    run.fail(f"calls:{mode}:after={hist_kinds}:rows-not-a-path", case, what="returned rows are not an alignment path of the inputs")
                    break
                if abs(scores[got] - score) > TOL * max(1.0, abs(score)):
                    case["score_of_returned_path_under_current_model"] = scores[got]
                    run.fail(f"calls:{mode}:after={hist_kinds}:reported-score-not-for-current-model", case, what="reported score is not the score of the returned path under the model as it is at the time of the call")
                    break
                if best > score + TOL * max(1.0, abs(score)):
                    run.fail(f"calls:{mode}:after={hist_kinds}:not-optimal-for-current-model", case, what="the returned alignment is not optimal for the model as it is at the time of the call")
                    break
                # the numeric TYPE of the scores is a representation of the same model: numpy.int8 / float32 / Python float
                # values equal to the integers above must give the same alignment and the same score
                typed_bad = False
                for tname, conv in (("int8", np.int8), ("float32", np.float32), ("float", float)):
                    S_t = {k2: conv(v2) for k2, v2 in S.items()}
                    try:
                        aln_t, score_t = fn(s1, s2, S_t, d, e, return_score=True)
                        rows_t = aln_t.to_dict()
                        got_t = (rows_t["s1"], rows_t["s2"])
                    except Exception as ex:
                        run.fail(f"calls:{mode}:score-type={tname}:raised", dict(case, exception=repr(ex)), what="aligner raised for a score table whose values have another numeric type")
                        typed_bad = True
                        break
                    ncalls += 1
                    if got_t != got or abs(score_t - score) > TOL * max(1.0, abs(score)):
                        run.fail(f"calls:{mode}:score-type={tname}:differs-from-python-integers", dict(case, returned_typed=got_t, score_typed=score_t), what="the same scores given with another numeric type give another alignment or score")
                        typed_bad = True
                        break
                if typed_bad:
                    break
                # the same call through the apps (smith_waterman for local, align_to_ref for global), which take the model
                # as constructor arguments: the penalties and scores GIVEN are the model, whatever their values
                zero = "zero-penalty" if 0 in (d, e) else "positive-penalties"
                # how the model reaches the app (AlignCalls.tla Vias): the score table handed over explicitly, or - when the
                # content IS the documented default of the apps - left out, the molecular type given by name or as an object
                failed = False
                # (Vias of AlignCalls.tla, evaluated for the content the object has at THIS call of the history)
                for via in (sorted(rec.get("vias", ["explicit"]) if c == rec["model"] else (["explicit", "default:name", "default:object"] if c == 1 else ["explicit"]))):
                    if via == "explicit":
                        kwm, vtag = {"score_matrix": S}, ""
                    else:
                        from cogent3 import get_moltype

                        kwm = {"moltype": "dna" if via == "default:name" else get_moltype("dna")}
                        vtag = f":{via}"
                    try:
                        coll = make_unaligned_seqs({"s1": a, "s2": b}, moltype="dna")
                        if mode == "local":
                            app = get_app("smith_waterman", insertion_penalty=d, extension_penalty=e, **kwm)
                            out = app(coll)
                            arows = out.to_dict()
                            ascore = out.info["align_params"]["sw_score"]
                        else:
                            # the reference named, or left at its default ("longest": whichever it picks, the pair's
                            # alignment must be optimal for the penalties GIVEN - the model is symmetric in the two rows)
                            refkw = {"ref_seq": "s1"} if (ncalls % 2 == 0) else {}
                            vtag += "" if refkw else ":reference-left-at-default"
                            app = get_app("align_to_ref", insertion_penalty=d, extension_penalty=e, **refkw, **kwm)
                            out = app(coll)
                            arows = out.to_dict()
                            ascore = None
                    except Exception as ex:
                        run.fail(f"calls:{mode}:app{vtag}:{zero}:raised", dict(case, exception=repr(ex)), what="alignment app raised")
                        failed = True
                        break
                    ncalls += 1
                    agot = (arows["s1"], arows["s2"])
                    case2 = dict(case, app_returned=agot, app_reported_score=ascore, model_given=via)
                    if agot not in byrows:
                        run.fail(f"calls:{mode}:app{vtag}:{zero}:rows-not-a-path", case2, what="rows returned by the alignment app are not an alignment path of the inputs")
                        failed = True
                        break
                    if ascore is not None and abs(scores[agot] - ascore) > TOL * max(1.0, abs(ascore)):
                        case2["score_of_returned_path_under_given_model"] = scores[agot]
                        run.fail(f"calls:{mode}:app{vtag}:{zero}:reported-score-not-for-given-model", case2, what="the app's reported score is not the score of its path under the scores and penalties it was given")
                        failed = True
                        break
                    if best > scores[agot] + TOL * max(1.0, abs(best)):
                        run.fail(f"calls:{mode}:app{vtag}:{zero}:not-optimal-for-given-model", case2, what="the app's alignment is not optimal for the scores and penalties it was given (or documents as its default)")
                        failed = True
                        break
                if failed:
                    break
    return len(seen), ncalls


def rows_score(r1, r2, S, lnT, lnpi0, lnn):
    """pair-HMM score of an alignment given as two gapped rows (same sufficient statistics as PairAlign.tla's Report)."""
    sc, prev = 0.0, None
    for x, y in zip(r1, r2):
        st = "M" if x != "-" and y != "-" else ("X" if y == "-" else "Y")
        sc += lnpi0[IDX[st]] if prev is None else lnT[IDX[prev], IDX[st]]
        if st == "M":
            sc += S[x, y] + lnn
        prev = st
    return sc


def long_pairs(run, seed):
    """Sequence pairs far beyond the bounded path space: the SAME obligations (rows degap to the inputs, reported score =
    score of the returned path, linear-space = full DP, a path written down by construction does not beat the result) on
    sequences of 1000-1600 residues, where totals are large (float tie-breaking) and the linear-space recursion is deep.
    Scoring with near-ties: a transition scores almost like a match."""
    import random

    from cogent3 import make_seq
    from cogent3.align import pairwise
    from cogent3.align.align import global_pairwise, make_dna_scoring_dict

    rnd = random.Random(seed)
    S = make_dna_scoring_dict(10, 9.9, -8)
    d, e = 10, 2
    lnT, lnpi0, lnn = weights(S, d, e)
    orig = pairwise.HIRSCHBERG_LIMIT
    n = 0
    for trial in range(3):
        L = "".join(rnd.choice("ACGT") for _ in range(rnd.randrange(600, 800)))
        # the single-residue insert sits on / just before / just after the middle row of the first sequence
        R = "".join(rnd.choice("ACGT") for _ in range(len(L) + 1 + (trial - 1)))
        a, b = L + "A" + R, L + "GA" + R     # the insert sits at the middle row of the first sequence
        hand = (L + "-A" + R, L + "GA" + R)  # the alignment by construction
        s1, s2 = make_seq(a, name="s1", moltype="dna"), make_seq(b, name="s2", moltype="dna")
        results = {}
        for name, limit in (("full-dp", 10**12), ("hirschberg", 0)):
            pairwise.HIRSCHBERG_LIMIT = limit
            try:
                aln, score = global_pairwise(s1, s2, S, d, e, return_score=True)
            except Exception as ex:
                run.fail(f"pairwise:global:long:{name}:raised", {"len": [len(a), len(b)], "exception": repr(ex)}, what="aligner raised on a long pair")
                continue
            finally:
                pairwise.HIRSCHBERG_LIMIT = orig
            n += 1
            rows = aln.to_dict()
            r1, r2 = rows["s1"], rows["s2"]
            case = {"len": [len(a), len(b)], "algorithm": name, "reported_score": score, "insert_at": len(L)}
            if len(r1) != len(r2) or r1.replace("-", "") != a or r2.replace("-", "") != b:
                run.fail(f"pairwise:global:long:{name}:rows-not-a-path", case, what="returned rows do not degap to the inputs / unequal length")
                continue
            got = rows_score(r1, r2, S, lnT, lnpi0, lnn)
            best_known = rows_score(hand[0], hand[1], S, lnT, lnpi0, lnn)
            case.update(score_of_returned_path=got, score_of_constructed_path=best_known)
            if abs(got - score) > 1e-9 * max(1.0, abs(score)):
                run.fail(f"pairwise:global:long:{name}:reported-score-differs", case, what="reported score is not the score of the returned path")
            if best_known > score + 1e-9 * max(1.0, abs(score)):
                run.fail(f"pairwise:global:long:{name}:not-optimal", case, what="a path written down by construction scores higher than the returned one")
            results[name] = score
        if len(results) == 2 and abs(results["full-dp"] - results["hirschberg"]) > 1e-9 * max(1.0, abs(results["full-dp"])):
            run.fail("pairwise:global:long:hirschberg-score-differs", {"len": [len(a), len(b)], "scores": results}, what="linear-space and full DP disagree on the score of a long pair")
    return n


def layout_rows(layout, ref, seqchars):
    """Concrete (ref row, seq row, seq) for a layout."""
    r, s = [], []
    ri = si = 0
    for st in layout:
        if st == "M":
            r.append(ref[ri]); s.append(seqchars[si]); ri += 1; si += 1
        elif st == "X":
            r.append(ref[ri]); s.append("-"); ri += 1
        else:
            r.append("-"); s.append(seqchars[si]); si += 1
    return "".join(r), "".join(s)


def refmerge_part(run, scratch, cfg):
    from cogent3 import make_aligned_seqs, make_seq
    from cogent3.app.align import pairwise_to_multiple

    emit = scratch / "refmerge.ndjson"
    res = run_tlc("RefMerge", cfg, scratch, workers=4, env={"EMIT_FILE": emit}, timeout=1200)
    run.add_tlc(res)
    cases = []
    keys = []
    refstr = "ACGT"
    pools = ["TTTTTT", "GGGGGG", "CCCCCC"]
    seen = set()
    for rec in read_emitted(emit):
        lay = rec["layouts"]
        k = json.dumps(lay)
        if k in seen:
            continue
        seen.add(k)
        reflen = sum(1 for x in lay[0] if x in "MX")
        ref = refstr[:reflen]
        pairs = []
        pw = []
        for i, layout in enumerate(lay):
            rrow, srow = layout_rows(layout, ref, pools[i])
            name = f"o{i + 1}"
            pairs.append({"refrow": list(rrow), "seqrow": list(srow)})
            pw.append((name, make_aligned_seqs({"ref": rrow, name: srow}, moltype="dna", array_align=False)))
        shape = "+".join("".join(sorted(set(l))) for l in lay)
        try:
            msa = pairwise_to_multiple(pw, make_seq(ref, name="ref", moltype="dna"), "dna")
            d = msa.to_dict()
            out = {"refrow": list(d["ref"]), "rows": [list(d[f"o{i + 1}"]) for i in range(len(lay))]}
        except Exception as ex:
            run.fail(f"refmerge:raised:{type(ex).__name__}", {"layouts": lay, "exception": repr(ex)}, what="pairwise_to_multiple raised")
            continue
        cases.append({"ref": list(ref), "pairs": pairs, "msa": out})
        keys.append((lay, shape))
    tf = scratch / "refmerge-cases.json"
    tf.write_text(json.dumps(cases))
    res2 = run_tlc("Trace_RefMerge", "Trace_RefMerge.cfg", scratch, workers=1, env={"TRACE_FILE": tf}, timeout=1200)
    run.add_tlc(res2)
    m = re.search(r'<<\s*"TRACE-VERDICT",\s*(\d+),\s*(\{.*?\})\s*>>', res2.out, re.S)
    if not m:
        raise RuntimeError("no TRACE-VERDICT from Trace_RefMerge:\n" + res2.out[-2000:])
    bad = [int(x) for x in re.findall(r"\d+", m.group(2))]
    for b in bad:
        lay, shape = keys[b - 1]
        # structural key: do the two layouts place insertions (Y) at the same reference position?
        def ins_positions(l):
            pos, r = [], 0
            for st in l:
                if st == "Y":
                    pos.append(r)
                else:
                    r += 1
            return pos

        ip = [ins_positions(l) for l in lay]
        adjacent = any("XY" in "".join(l) or "YX" in "".join(l) for l in lay)

        def del_positions(l):
            pos, r = set(), 0
            for st in l:
                if st == "X":
                    pos.add(r)
                if st != "Y":
                    r += 1
            return pos

        # an insertion of one sequence (ref gap at position p) that falls inside or at the edge of a run of
        # reference positions another sequence lacks
        # ... and WHERE in that run: strictly inside it, at its start, or at its end (each is a different lookup in
        # _GapOffset; a coarser key let a defect at one of them hide a new defect at another)
        rel = set()
        for i2 in range(len(lay)):
            for j2 in range(len(lay)):
                if i2 == j2:
                    continue
                dp = del_positions(lay[j2])
                for p in ip[i2]:
                    if p in dp and (p - 1) in dp:
                        rel.add("inside")
                    elif p in dp:
                        rel.add("start")
                    elif (p - 1) in dp:
                        rel.add("end")
        # "inside" is the recorded defect; a failing case without an inside-insertion is keyed by what it does have
        cross = "inside" if "inside" in rel else ("+".join(sorted(rel)) if rel else "False")
        run.fail(f"refmerge:pairwise-alignment-not-kept:indel-adjacent-within-a-pair={adjacent}:insertion-in-another-sequences-deletion={cross}", {"layouts": lay, "case": cases[b - 1]}, what="multiple alignment does not keep a sequence's pairwise alignment with the reference")
    if cases:
        run.sample({"refmerge_case": cases[len(cases) // 2]})
    return len(cases)


def progressive_part(run, seed):
    """Structural validation of progressive / tree alignment outputs."""
    import random

    from cogent3 import get_app, make_unaligned_seqs

    rnd = random.Random(seed)
    n = 0
    for trial in range(3):
        base = "".join(rnd.choice("ACGT") for _ in range(24))
        seqs = {}
        for name in "abcd":
            s = list(base)
            for _ in range(3):
                p = rnd.randrange(len(s))
                r = rnd.random()
                if r < 0.4:
                    s[p] = rnd.choice("ACGT")
                elif r < 0.7:
                    del s[p]
                else:
                    s.insert(p, rnd.choice("ACGT"))
            seqs[name] = "".join(s)
        coll = make_unaligned_seqs(seqs, moltype="dna")
        for appname, kw in (("progressive_align", dict(model="HKY85")), ("align_to_ref", {})):
            app = get_app(appname, **kw)
            aln = app(coll)
            n += 1
            if not aln:
                run.fail(f"progressive:{appname}:not-completed", {"seqs": seqs, "message": str(aln)}, what="aligner app returned NotCompleted")
                continue
            d = aln.to_dict()
            lens = {len(v) for v in d.values()}
            if len(lens) != 1:
                run.fail(f"progressive:{appname}:unequal-rows", {"seqs": seqs, "aligned": d}, what="rows of unequal length")
            for name, s in seqs.items():
                if d[name].replace("-", "") != s:
                    run.fail(f"progressive:{appname}:content-changed", {"seqs": seqs, "aligned": d, "name": name}, what="degapped row differs from the input sequence")
            L = lens.pop() if len(lens) == 1 else 0
            if any(all(d[nm][c] == "-" for nm in d) for c in range(L)):
                run.fail(f"progressive:{appname}:all-gap-column", {"seqs": seqs, "aligned": d}, what="alignment contains an all-gap column")
    return n


def check(run: Run):
    quick = run.tier == "quick"
    with Scratch("C18") as scratch:
        npairs, ncalls, npaths = pairwise_part(run, scratch, "MC_PairAlign_quick.cfg" if quick else "MC_PairAlign_thorough.cfg", 3 if quick else 4)
        nlong = long_pairs(run, run.seed)
        nhist, nhcalls = calls_part(run, scratch, "MC_AlignCalls_quick.cfg" if quick else "MC_AlignCalls_thorough.cfg")
        nref = refmerge_part(run, scratch, "MC_RefMerge_quick.cfg" if quick else "MC_RefMerge_thorough.cfg")
        nprog = progressive_part(run, run.seed)
    run.cov["traces_validated_against_impl"] = ncalls + nref + nprog + nhcalls + nlong
    run.cov["evaluations"] = ncalls + nref + nprog + nhcalls
    run.cov["distinct_nontrivial"] = npairs + nref
    run.cov["rule"] = (
        "pairwise: every (sequence pair, global|local) over the bounded alphabet/lengths x seeded scoring systems (3 matrices x 4 gap "
        "penalties) x {full DP, forced Hirschberg}; optimality is judged against ALL paths TLC enumerated for that pair; "
        "call histories (AlignCalls.tla): every history of <= 3/4 align / edit-in-place / regap steps on ONE score-table object, on sequence pairs whose optimum depends on the model; "
        "refmerge: every set of pairwise layouts within bounds; progressive: structural validation on seeded 4-sequence sets"
    )
    run.note("pairwise", {"pair_mode_groups": npairs, "aligner_calls": ncalls, "paths_enumerated": npaths})
    run.note("refmerge_cases", nref)
    run.note("long_pair_calls", nlong)
    run.note("align_call_histories", {"histories": nhist, "aligner_calls": nhcalls})
    run.assumptions += [
        "path scores (ln of transition / start probabilities, dot products, max) are evaluated in float in the harness from TLC's sufficient statistics",
        "the transition matrix and start probabilities are taken from cogent3.align.indel_model.classic_gap_scores (the aligner's own model)",
        "optimality of progressive alignment is not defined and not checked; codon/protein HMM aligners only structurally",
    ]


if __name__ == "__main__":
    sys.exit(main_wrapper(check, "C18"))
