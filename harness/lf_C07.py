"""C07 layers 1b/2: ParamScope.tla transitions replayed on real likelihood functions.

For every (state, label) of the ParamScope model reached by the real code, a real
likelihood function is driven along the recorded path, the call is made, and
  * per-edge kappa values, the block partition and constancy are projected and must equal
    the spec successor,
  * outside a postponed block: lnL equals that of a function NEWLY BUILT FROM THE SPEC
    STATE, nfp equals NFree + #edges, and exporting the rules (get_param_rules) and
    applying them to a new function reproduces lnL and nfp.
CalcRound drives a real Calculator (make_calculator / testoptparvector incl. the revert
that triggers the undo shortcut / update_from_calculator).
"""
from __future__ import annotations

import os

from graph import Adapter, Graph, explore, plan_walks, run_walks, skey
from tlc import read_emitted, run_tlc

SCALE = 2.0
LEN_A = {0: 0.0, 1: 0.1}   # branch length of edge a: on its lower bound / positive
RTOL = 1e-9
EDGES = ["a", "b", "c"]
_cache = {}


def fixtures():
    if not _cache:
        from cogent3 import get_model, make_aligned_seqs, make_tree

        _cache["tree"] = make_tree("(a:0.1,b:0.2,c:0.3)")
        _cache["aln"] = {
            1: make_aligned_seqs({"a": "ACGTACGTTGCAACGTRA", "b": "ACGTACATTGCAAC-TGA", "c": "ACCTACGTTGAAATGTGA"}, moltype="dna"),
            2: make_aligned_seqs({"a": "TTGTACGTTGCAACGGGA", "b": "ACGTACATTACAACNTGA", "c": "ACCTATGTTGAAATCTGA"}, moltype="dna"),
        }
        _cache["aln"][0] = make_aligned_seqs({"a": "MKVLEFWYHQRSTNPDGA", "b": "MKVLEFWYHQRSTNPDGA", "c": "MKVIEFWYHQRSTNPDGA"}, moltype="protein")
        _cache["mp"] = {
            1: {"A": 0.25, "C": 0.25, "G": 0.25, "T": 0.25},
            2: {"A": 0.1, "C": 0.2, "G": 0.3, "T": 0.4},
        }
        _cache["model"] = get_model(os.environ.get("VERIF_C07_MODEL", "HKY85"))
        # the same model with rate heterogeneity: site classes with free rates
        _cache["model_bins"] = get_model(os.environ.get("VERIF_C07_MODEL", "HKY85"), ordered_param="rate", distribution="free")
    return _cache


# kinds of likelihood function the same ParamScope histories are replayed on (Adapter.variants):
#   0 plain; 1 two independent site classes (unequal weights); 2 two site classes along a site-HMM
LF_KINDS = {0: "plain", 1: "rate-classes", 2: "site-hmm"}
EXTRA_FREE = {0: 0, 1: 1, 2: 1}   # free parameters besides kappa blocks and lengths (the free rate partition)


def blank_lf(variant=0):
    fx = fixtures()
    if variant == 0:
        return fx["model"].make_likelihood_function(fx["tree"])
    return fx["model_bins"].make_likelihood_function(fx["tree"], bins=2, sites_independent=(variant == 1))


def new_lf(aln, mp, variant=0):
    fx = fixtures()
    lf = blank_lf(variant)
    lf.set_alignment(fx["aln"][aln])
    lf.set_motif_probs(fx["mp"][mp])
    if variant:
        lf.set_param_rule("bprobs", value=[0.3, 0.7], is_constant=True)
    if variant == 2:
        lf.set_param_rule("bin_switch", value=0.4, is_constant=True)
    return lf


def close(a, b):
    return abs(a - b) <= RTOL * max(1.0, abs(a), abs(b))


class Ctx:
    pass


class LfAdapter(Adapter):
    variants = (0, 1, 2)

    def fresh(self, variant):
        ctx = Ctx()
        ctx.variant = variant
        ctx.lf = new_lf(1, 1, variant)
        ctx.lf.set_param_rule("kappa", value=SCALE * 1)
        ctx.aln, ctx.mp, ctx.susp, ctx.cm = 1, 1, False, None
        ctx.lenA = 1
        ctx.lf.set_param_rule("length", edge="a", value=LEN_A[1])
        # bounds that contain the tree's lengths of b (0.2) and c (0.3): they change no value; RefusedRule uses them
        ctx.lf.set_param_rule("length", edge="b", lower=0.15, upper=0.25)
        ctx.lf.set_param_rule("length", edge="c", lower=0.25)
        return ctx

    def apply(self, ctx, act, args):
        lf = ctx.lf
        fx = fixtures()
        if act == "SetRule":
            S, indep, c, v = args
            kw = {}
            if v:
                kw["value" if c else "init"] = SCALE * v
            if ctx.variant and indep:
                # with site classes, is_independent=True would also separate the classes (kappa has a bin dimension):
                # the edge-wise partition the spec describes is expressed as one shared-across-classes rule per edge
                for e1 in S:
                    lf.set_param_rule("kappa", edge=e1, is_independent=False, is_constant=c, **kw)
            else:
                lf.set_param_rule("kappa", edges=list(S), is_independent=indep, is_constant=c, **kw)
        elif act == "SetMprobs":
            if ctx.variant == 0 and args[0] == 2:
                # arguments are VALUES: the probabilities are handed over as a numpy array the caller keeps and then reuses
                # as a work buffer (overwritten after the call) - what happens to the caller's array is no part of the state
                import numpy

                order = [str(m) for m in lf.model.get_alphabet()]
                buf = numpy.array([fx["mp"][args[0]][m] for m in order], dtype=float)
                lf.set_motif_probs(buf)
                try:
                    buf[:] = buf[::-1].copy()
                except ValueError:
                    pass  # an array the function froze cannot be reused: also fine
            else:
                lf.set_motif_probs(fx["mp"][args[0]])
            ctx.mp = args[0]
        elif act == "SetAln":
            lf.set_alignment(fx["aln"][args[0]])
            ctx.aln = args[0]
        elif act == "Begin":
            ctx.cm = lf.updates_postponed()
            ctx.cm.__enter__()
            ctx.susp = True
        elif act == "End":
            ctx.cm.__exit__(None, None, None)
            ctx.cm, ctx.susp = None, False
        elif act == "SetLen":
            lf.set_param_rule("length", edge="a", value=LEN_A[args[0]])  # by value, still a free parameter
            ctx.lenA = args[0]
        elif act == "RefusedRule":
            # two rules over the scopes {b, c}, each refused on ONE of them ("Bounds: upper < lower") while the other scope
            # would be clipped: whichever scope the code visits first, one of the two calls meets the refusal second
            for kw in ({"upper": 0.18}, {"lower": 0.35}):
                try:
                    lf.set_param_rule("length", edges=["b", "c"], is_independent=True, **kw)
                    ctx.calc_anom = "rule-with-impossible-bounds-was-accepted"
                except ValueError as ex:
                    ctx.last_exc = repr(ex)
        elif act == "SetBadAln":
            lf.set_alignment(fx["aln"][0])  # postponed: nothing is evaluated yet
            ctx.aln = 0
        elif act == "FailedEnd":
            try:
                ctx.cm.__exit__(None, None, None)
                ctx.anom_failed_end = "closing update did not raise for an alignment outside the model's alphabet"
            except Exception as ex:
                ctx.last_exc = repr(ex)
            ctx.cm, ctx.susp = None, False
        elif act == "AbortBlock":
            S, v = args
            lf.set_param_rule("kappa", edges=list(S), is_independent=False, is_constant=False, init=SCALE * v)
            err = RuntimeError("raised inside updates_postponed block")
            try:
                ctx.cm.__exit__(RuntimeError, err, None)
            except RuntimeError:
                pass
            ctx.cm, ctx.susp = None, False
        elif act == "CalcNudge":
            lc = lf.make_calculator()
            x0 = list(lc.get_value_array())
            names = [op.name for op in lc.opt_pars]
            try:
                x = [float(op.transform_to_optimiser(op.transform_from_optimiser(v) * (1 + 4e-6))) if nm == "kappa" else v for v, nm, op in zip(x0, names, lc.opt_pars)]
                nudged = lc.testoptparvector(x)
                lf.update_from_calculator(lc)
                if not close(nudged, lf.lnL):
                    ctx.calc_anom = "function-does-not-report-the-calculators-value-after-a-tiny-step"
                lc.testoptparvector(x0)
            finally:
                lf.update_from_calculator(lc)
        elif act == "CalcRound":
            v1, v2 = args
            lc = lf.make_calculator()
            last = None
            try:
                for v in (v1, v2, v1):
                    x = list(lc.get_value_array())
                    for i, op in enumerate(lc.opt_pars):
                        if op.name == "kappa":
                            x[i] = float(op.transform_to_optimiser(SCALE * v))
                    last = lc.testoptparvector(x)
            finally:
                lf.update_from_calculator(lc)
            # what the calculator returned for the final vector is the value of the function at those settings
            if last is not None and not ctx.susp and ctx.aln != 0 and not close(last, lf.lnL):
                ctx.calc_anom = "calculator-value-differs-from-function-at-the-same-settings"
        else:
            raise ValueError(act)
        return None

    def project(self, ctx):
        lf = ctx.lf
        defn = lf.defn_for["kappa"]
        by_edge = {}
        for scope_t, setting in defn.assignments.items():
            by_edge[scope_t[0]] = setting
        blk, const, val = {}, {}, {}
        anomalies = []
        for e in EDGES:
            s = by_edge[e]
            blk[e] = sorted(f for f in EDGES if by_edge[f] is s)
            const[e] = bool(s.is_constant)
            v = float(s.get_default_value()) / SCALE
            val[e] = int(round(v)) if abs(v - round(v)) < 1e-9 else v
        state = {"blk": blk, "const": const, "val": val, "mp": ctx.mp, "aln": ctx.aln, "susp": ctx.susp, "lenA": ctx.lenA}
        if getattr(ctx, "calc_anom", None):
            anomalies.append(ctx.calc_anom)
            ctx.calc_anom = None
        if abs(lf.defn_for["length"].assignments[("a",)].get_default_value() - LEN_A[ctx.lenA]) > 1e-12 if ("a",) in lf.defn_for["length"].assignments else False:
            anomalies.append("length-setting-differs")
        if not ctx.susp and ctx.aln != 0:
            # what the user sees: per-edge values, nfp, lnL
            for e in EDGES:
                got = lf.get_param_value("kappa", edge=e) / SCALE
                if abs(got - val[e]) > 1e-9:
                    anomalies.append("get_param_value-disagrees-with-setting")
            ctx.observed = {"lnL": lf.lnL, "nfp": lf.nfp}
        if anomalies:
            state["anomalies"] = sorted(set(anomalies))
        return state

    def obs_matches(self, spec_obs, ctx, real_ret):
        return True

    def finding_key(self, status, detail):
        act = detail["label"][0]
        if status != "mismatch":
            kind = LF_KINDS.get(detail.get("variant", 0), "plain")
            return f"lf:{act}:{status}" + ("" if kind == "plain" else f":lf-kind={kind}")
        obs = detail["observed"]["state"]
        exp = detail["allowed"][0]["to"]
        diffs = sorted(k for k in set(exp) | set(obs) if obs.get(k) != exp.get(k))
        diffs = [d for d in diffs if d != "anomalies"] + list(obs.get("anomalies", []))
        kind = LF_KINDS.get(detail.get("variant", 0), "plain")
        return f"lf:{act}:susp={detail['from']['susp']}:" + ",".join(diffs) + ("" if kind == "plain" else f":lf-kind={kind}")


class LfAdapterChecked(LfAdapter):
    """Adds the relational checks (fresh function / rule export) to the projection."""

    def project(self, ctx):
        state = super().project(ctx)
        if ctx.susp or ctx.aln == 0:
            return state
        lf = ctx.lf
        anomalies = list(state.get("anomalies", []))
        # a function newly built from the state the history should have produced
        ref = new_lf(state["aln"], state["mp"], ctx.variant)
        ref.set_param_rule("length", edge="a", value=LEN_A[state["lenA"]])
        done = set()
        for e in EDGES:
            b = tuple(state["blk"][e])
            if b in done:
                continue
            done.add(b)
            ref.set_param_rule("kappa", edges=list(b), is_independent=False, is_constant=state["const"][e], value=SCALE * state["val"][e])
        if not close(lf.lnL, ref.lnL):
            anomalies.append("lnL-differs-from-fresh-function")
        nfree = len({tuple(state["blk"][e]) for e in EDGES if not state["const"][e]})
        if lf.nfp != nfree + len(EDGES) + EXTRA_FREE[ctx.variant] or ref.nfp != lf.nfp:
            anomalies.append("nfp-wrong")
        # export rules -> new function
        try:
            rules = lf.get_param_rules()
            imp = blank_lf(ctx.variant)
            imp.set_alignment(fixtures()["aln"][state["aln"]])
            imp.apply_param_rules(rules)
            if not close(imp.lnL, lf.lnL):
                anomalies.append("exported-rules-give-different-lnL")
            if imp.nfp != lf.nfp:
                anomalies.append("exported-rules-give-different-nfp")
        except Exception as ex:
            ctx.last_exc = repr(ex)
            anomalies.append("export-import-raised")
        if anomalies:
            state["anomalies"] = sorted(set(anomalies))
        return state


def run_layers(run, scratch):
    cfg = "MC_ParamScope_quick.cfg" if run.tier == "quick" else "MC_ParamScope_thorough.cfg"
    emit = scratch / "paramscope.ndjson"
    res = run_tlc("ParamScope", cfg, scratch, workers=16, env={"EMIT_FILE": emit}, timeout=1500)
    run.add_tlc(res)
    g = Graph(read_emitted(emit))
    emit.unlink()
    ad = LfAdapterChecked()
    ctx = ad.fresh(0)
    init = ad.project(ctx)
    budget = int(os.environ.get("VERIF_C07_LF_BUDGET", "900" if run.tier == "quick" else "60000"))
    st = explore(g, init, ad, run, seed=run.seed, budget=budget)
    run.note("layer2_likelihood_function_replay", st)
    run.cov["traces_validated_against_impl"] += st["impl_transitions_checked"]
    # deep scenarios: walks planned on the spec graph to cover action-name trigrams
    nw = int(os.environ.get("VERIF_C07_WALKS", "150" if run.tier == "quick" else "1500"))
    walks = plan_walks(g, init, nw, 9, seed=run.seed)
    ws = run_walks(g, init, ad, run, walks)
    run.note("layer2_planned_walks", ws)
    run.cov["traces_validated_against_impl"] += ws["steps_checked"]
    run.sample({"layer": 2, "initial_state": init})
