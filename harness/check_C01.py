"""C01 - sequence views obey the slice / reverse-complement algebra (SeqView.tla, PySlice.tla).

TLC explores, for every root length 0..MaxL, the closed set of views reachable by
slices (start, stop in None u -L-m..L+m, strides None,+-1,+-2(,+-3)), integer
indexing, rc(), copy(sliced) and DNA<->RNA conversion, checks on the model that
the transcribed start/stop/step arithmetic refines Python slicing of the index
sequence (invariants Refines, RefinesSdv, CoordsRefine, ...), and emits every
transition.  quick: MaxL 3 (MC_SeqView_quick.cfg); thorough: MaxL 4 exhaustively
(MC_SeqView_thorough.cfg) plus seeded TLC simulation walks over roots of length
5-10 (MC_SeqView_deep.cfg).

spec -> code, on old-style Sequence, new-style Sequence and collection-backed
(SeqDataView) new-style Sequence, each over two seeded random IUPAC root strings:
  B  every emitted Slice/Index/Rc transition is applied to the real *view record*
     (seq._seq[...]) of the real sequence built by a recorded chain of public calls;
     raw string, length, direction must equal the spec's successor (VIOLATION),
     start/stop/step/offset/seq_len should equal the transcribed model (MODEL-DRIFT,
     informational: a behaviour-preserving refactor is not an alarm);
  C  every distinct (state, successor, action, stride sign) edge, every copy /
     conversion and a seeded sample of all other transitions is applied through the
     public Sequence API; str / len / iteration / moltype / parent_coordinates /
     annotation_offset of the result must be what the spec allows, out-of-range
     integer indices must raise IndexError, the receiver must not change;
  K  construction: every root is also made from each representation of the raw data
     its constructor takes (bytes, tuple / list of characters, index array, an existing
     view record or sequence) with the same name and annotation offset; the made
     object must be the root view (str / len / iter / parent_coordinates /
     annotation_offset), all calls on the root and a seeded sample of the frame's
     other edges are replayed from it, and an object handed over must read the same;
  M  in every reached state every public read-only method of the view is compared
     with the same method of a new sequence built from the view's string.

./check C01 --replay replays/C01/<file>.json re-runs a recorded failing chain.
"""
from __future__ import annotations

import json
import multiprocessing as mp
import os
import random
import sys
import time
import zlib
from collections import defaultdict

import impl_C01 as I
from common import REPLAYS, Run, main_wrapper
from tlc import Scratch, run_tlc

VARIANTS = (0, 1)
G = {}  # worker globals (inherited by fork)


# ------------------------------------------------------------------ record parsing
def unescape(line):
    line = line.strip()
    if line.startswith('"'):
        if "\\\\" in line:
            return json.loads(line)
        return line[1:-1].replace('\\"', '"')
    return line


def split(txt):
    """(fromkey, act, argstxt, tokey, resttxt) by position; None if the layout differs"""
    if not txt.startswith('{"from":['):
        return None
    i = txt.find(',"act":"', 8)
    j = txt.find('","args":', i)
    k = txt.find(',"to":[', j)
    m = txt.find(',"ret":"', k)
    if min(i, j, k, m) < 0:
        return None
    return txt[8:i], txt[i + 8 : j], txt[j + 9 : k], txt[k + 6 : m], txt[m + 1 : -1]


def parse(txt):
    sp = split(txt)
    if sp is None:
        r = json.loads(txt)
        if r.get("act") == "Meta":
            return None
        dumps = lambda v: json.dumps(v, separators=(",", ":"))
        return dumps(r["from"]), r["act"], r["args"], dumps(r["to"]), r["ret"], r["obs"]
    fk, act, argstxt, tk, rest = sp
    tail = json.loads("{" + rest + "}")
    return fk, act, json.loads(argstxt), tk, tail["ret"], tail["obs"]


def chunks(path, n):
    size = os.path.getsize(path)
    step = max(1, size // n)
    bounds = [min(size, i * step) for i in range(n)] + [size]
    return [(path, bounds[i], bounds[i + 1]) for i in range(n) if bounds[i] < bounds[i + 1]]


def lines_of(chunk):
    path, lo, hi = chunk
    with open(path, "rb") as fh:
        if lo:
            fh.seek(lo - 1)
            fh.readline()  # finish the line that straddles the boundary (owned by the previous chunk)
        while fh.tell() < hi:
            line = fh.readline()
            if not line:
                break
            yield line.decode("utf8")


def sign_of(act, args):
    """what, besides the two states, the public Sequence call switches on"""
    if act == "Slice":
        k = args[2]
        return "-" if k < 0 else "+"
    if act == "Copy":
        return str(args[0])
    return ""


# ------------------------------------------------------------------ phase A: scan
def scan(chunk):
    edges = {}
    conv = []
    meta = None
    n = 0
    for line in lines_of(chunk):
        txt = unescape(line)
        if not txt:
            continue
        if txt.startswith('{"act":"Meta"') or '"act":"Meta"' in txt[:40]:
            meta = json.loads(txt)
            continue
        n += 1
        sp = split(txt)
        if sp is None:
            p = parse(txt)
            fk, act, args, tk = p[0], p[1], p[2], p[3]
        else:
            fk, act, argstxt, tk, _ = sp
            args = json.loads(argstxt) if act in ("Slice", "Copy") else None
        if act in ("Conv", "Make", "Write"):
            conv.append(txt)
            continue
        e = (fk, tk, act, sign_of(act, args))
        if e not in edges:
            edges[e] = txt
    return edges, conv, meta, n


# ------------------------------------------------------------------ object building
def is_init(state):
    L, off, mol, sid, idx, comp, f = state
    return mol == "dna" and sid == "s" and not comp and idx == list(range(L)) and f == [0, L, 1, off, L, "s"]


def build(kind, variant, key):
    """(real sequence, root string) for abstract state `key`, by its recorded chain
    of public calls; None when the real classes cannot get there"""
    cache = G["cache"][(kind, variant)]
    if key in cache:
        return cache[key]
    state = json.loads(key)
    res = None
    if key in G["inits"]:
        root = I.root_string(G["seed"], state[0], state[1], variant)
        try:
            o = I.make(kind, root, "dna", "s", state[1])
        except Exception:
            o = None
        res = (o, root) if o is not None else None
    elif key in G["parent"]:
        pkey, txt = G["parent"][key]
        fk, act, args, tk, ret, obs = parse(txt)
        # collection-backed views: copy() hands back the receiver's own view record (and re-bases its offset
        # in place), so nothing is built through it - the call itself is judged on private objects
        p = None if (kind == "sdv" and act == "Copy") else build(kind, variant, pkey)
        if p is not None:
            try:
                r = I.apply_seq(p[0], act, args)
                root = new_root(json.loads(pkey), state, p[1], act, args)
                if kind == "sdv" and type(r._seq).__name__ != "SeqDataView":
                    pass  # a conversion leaves the collection: from here on it is a plain new-style sequence (kind "new")
                elif act == "Conv" and I.view_fields(r._seq)[5] != state[3]:
                    pass  # the spec allows several seqids for a converted sequence; the real call took another one
                elif str(r) == I.render(root, state[4], state[5], state[2]):
                    res = (r, root)
            except Exception:
                res = None

    cache[key] = res
    return res


def new_root(frm, to, root, act, args):
    if act != "Conv" or frm[2] == to[2]:
        return root
    if to[0] == frm[0] and to[1] == frm[1] and to[4] == frm[4] and to[5] == frm[5] and to[6] == frm[6]:
        return I.exchange(root, to[2])  # stays a view of the converted root
    return I.exchange(I.render(root, frm[4], frm[5], frm[2]), to[2])  # root of a new frame


def chain_of(key):
    out = []
    while key in G["parent"]:
        pkey, txt = G["parent"][key]
        p = parse(txt)
        out.append([p[1], [None if a == I.TABLES["none"] else a for a in p[2]]])
        key = pkey
    return {"root_state": json.loads(key), "calls": out[::-1]}


class Report:
    """failures collected in a worker: key -> [count, first detail, what]"""

    def __init__(self):
        self.fail = {}
        self.drift = {}
        self.stats = defaultdict(int)
        self.samples = []

    def add(self, key, detail_fn, what):
        if key in self.fail:
            self.fail[key][0] += 1
        else:
            self.fail[key] = [1, detail_fn(), what]

    def add_drift(self, key, msg):
        if key in self.drift:
            self.drift[key][0] += 1
        else:
            self.drift[key] = [1, msg]

    def dump(self):
        return self.fail, self.drift, dict(self.stats), self.samples


def pyargs(args):
    return [None if a == I.TABLES["none"] else a for a in args]


def snapshot(o):
    return (str(o), o.parent_coordinates())


# ------------------------------------------------------------------ checks of one transition
def check_seq_level(rep, kind, variant, fk, act, args, alts, ret):
    """public API level.  alts = [(tokey, obs)] successors the spec allows"""
    private = kind == "sdv" and act == "Copy"
    if private:  # see build(): judged on an object nothing else shares
        saved = G["cache"][(kind, variant)]
        G["cache"][(kind, variant)] = {}
        try:
            b = build(kind, variant, fk)
        finally:
            G["cache"][(kind, variant)] = saved
        G["snap"][(kind, variant)].pop(fk, None)
    else:
        b = build(kind, variant, fk)
    if b is None:
        rep.stats["unreachable_or_unsupported"] += 1
        return
    o, root = b
    frm = json.loads(fk)
    snaps = G["snap"][(kind, variant)]
    if fk not in snaps:
        snaps[fk] = snapshot(o)
    vc = I.copy_class(frm) if act == "Copy" else (I.conv_class(frm) if act == "Conv" else I.view_class(frm))
    cls = f"{vc}:{I.label_class(frm, act, args)}"
    lvl = G.get("level", "seq")  # "seq", or "from-<rep>" while a root made from another representation is replayed
    rep.stats["seq_level"] += 1

    def detail(extra):
        return lambda: {
            "kind": kind, "level": "Sequence", "root": root, "chain": chain_of(fk), "from": frm, "act": act,
            "args": pyargs(args), "allowed": [json.loads(t) for t, _ in alts], **extra,
        }

    try:
        r = I.apply_seq(o, act, args)
        exc = None
    except Exception as ex:
        r, exc = None, ex
    # the receiver is immutable: a call that changes it is the root cause, the result is not judged
    now = snapshot(o)
    if now != snaps[fk]:
        rep.add(
            f"{kind}:{lvl}:{act}:{cls}:mutates-receiver",
            detail({"receiver_before": list(snaps[fk]), "receiver_after": list(now), "exception": repr(exc)}),
            f"{act}{pyargs(args)} changed the sequence it was called on",
        )
        if not private:
            G["cache"][(kind, variant)].pop(fk, None)
        snaps.pop(fk, None)
        return
    if private:
        snaps.pop(fk, None)
    if ret == "raised":
        if not isinstance(exc, IndexError):
            rep.add(f"{kind}:{lvl}:{act}:{cls}:no-IndexError", detail({"observed": repr(exc or r)}), f"{act}{pyargs(args)} out of range")
        return
    if exc is not None:
        rep.add(f"{kind}:{lvl}:{act}:{cls}:raised-{type(exc).__name__}", detail({"exception": repr(exc)}), f"{act}{pyargs(args)} raised {exc!r}")
        return
    best = None
    for tk, obs in alts:
        to = json.loads(tk)
        diffs, drift = [], []
        info = I.compare_seq(r, to, new_root(frm, to, root, act, args), obs, diffs, drift, check_fields=(kind != "sdv" or bool(to[4])))
        score = (len(diffs), len(drift))
        if best is None or score < best[0]:
            best = (score, diffs, drift, info, to)
    _, diffs, drift, info, to = best
    if act == "Conv" and type(r).__name__ != G["classname"][("old" if kind == "old" else "new", to[2])]:
        # which class a converted sequence has does not depend on the view it came from
        rep.add(
            f"{kind}:seq:Conv:any:{I.label_class(frm, act, args)}:class",
            detail({"observed_class": type(r).__name__, "moltype": r.moltype.label}),
            f"to_{args[0]}() returned a {type(r).__name__} whose moltype is {r.moltype.label}",
        )
    if kind == "sdv" and act == "Copy":
        drift = []  # copy() of a collection-backed view is the view itself: no re-based record to compare
    if diffs:
        rep.add(
            f"{kind}:{lvl}:{act}:{cls}:" + ",".join(diffs),
            detail({"expected_state": to, **info, "observed_fields": I.view_fields(r._seq)}),
            f"{act}{pyargs(args)} result differs in {diffs}",
        )
    elif drift:
        rep.add_drift(f"{kind}:{lvl}:{act}:{cls}:{drift[0][0]}", f"{kind} {act}{pyargs(args)} from {frm}: real {drift[0][1]} model {drift[0][2]}")


def check_view_level(rep, kind, variant, fk, act, args, tk, ret):
    b = build(kind, variant, fk)
    if b is None:
        rep.stats["unreachable_or_unsupported"] += 1
        return
    o, root = b
    rep.stats["view_level"] += 1
    try:
        w = I.apply_view(o._seq, act, args)
        exc = None
    except Exception as ex:
        w, exc = None, ex
    frm = None

    def detail(extra):
        return lambda: {
            "kind": kind, "level": "view", "root": root, "chain": chain_of(fk), "from": json.loads(fk), "act": act,
            "args": pyargs(args), "expected_state": json.loads(tk), **extra,
        }

    if ret == "raised":
        if not isinstance(exc, IndexError):
            frm = json.loads(fk)
            rep.add(f"{kind}:view:{act}:{I.view_class(frm)}:{I.label_class(frm, act, args)}:no-IndexError", detail({"observed": repr(exc or w)}), "index out of range")
        return
    if exc is not None:
        frm = json.loads(fk)
        rep.add(f"{kind}:view:{act}:{I.view_class(frm)}:{I.label_class(frm, act, args)}:raised-{type(exc).__name__}", detail({"exception": repr(exc)}), f"raised {exc!r}")
        return
    to = G["states"].get(tk)
    if to is None:
        to = G["states"][tk] = json.loads(tk)
    diffs, drift = [], []
    info = I.compare_view(w, to, root, diffs, drift, check_fields=(kind != "sdv" or bool(to[4])))
    if diffs:
        frm = json.loads(fk)
        rep.add(
            f"{kind}:view:{act}:{I.view_class(frm)}:{I.label_class(frm, act, args)}:" + ",".join(diffs),
            detail({**info, "observed_fields": I.view_fields(w)}),
            f"view {act}{pyargs(args)} differs in {diffs}",
        )
    elif drift:
        frm = json.loads(fk)
        rep.add_drift(f"{kind}:view:{act}:{I.view_class(frm)}:{I.label_class(frm, act, args)}", f"{kind} view {act}{pyargs(args)} from {frm}: real {drift[0][1]} model {drift[0][2]}")


# ------------------------------------------------------------------ phase B: all transitions
def replay_chunk(chunk):
    rep = Report()
    rate = G["sample_rate"]
    salt = G["seed"]
    for line in lines_of(chunk):
        txt = unescape(line)
        if not txt or '"act":"Meta"' in txt[:40]:
            continue
        fk, act, args, tk, ret, obs = parse(txt)
        if act in ("Conv", "Copy", "Make", "Write"):
            continue  # few; all of them are checked at Sequence level in phase C
        rep.stats["records"] += 1
        sampled = rate > 0 and (zlib.crc32(txt.encode()) ^ salt) % 1000003 < rate * 1000003
        for kind in I.KINDS:
            for v in VARIANTS:
                check_view_level(rep, kind, v, fk, act, args, tk, ret)
                if sampled:
                    check_seq_level(rep, kind, v, fk, act, args, [(tk, obs)], ret)
        if sampled and len(rep.samples) < 2 and '"to":[' in txt and len(json.loads(fk)[4]) > 1 and json.loads(tk)[4]:
            rep.samples.append({"from": json.loads(fk), "act": act, "args": pyargs(args), "to": json.loads(tk), "ret": ret, "obs": obs})
    return rep.dump()


# ------------------------------------------------------------------ phase C: distinct edges, conversions, methods
def replay_edges(job):
    rep = Report()
    for item in job:
        what = item[0]
        if what == "edge":
            fk, act, args, tk, ret, obs = parse(item[1])
            for kind in I.KINDS:
                for v in VARIANTS:
                    check_seq_level(rep, kind, v, fk, act, args, [(tk, obs)], ret)
            rep.stats["distinct_edges"] += 1
            if frm_nontrivial(fk):
                rep.stats["distinct_nontrivial"] += 1
        elif what == "conv":
            fk, args, alts = item[1], item[2], item[3]
            for kind in I.KINDS:
                for v in VARIANTS:
                    check_seq_level(rep, kind, v, fk, "Conv", args, alts, "ok")
            rep.stats["distinct_edges"] += 1
            if frm_nontrivial(fk):
                rep.stats["distinct_nontrivial"] += 1
        elif what == "make":
            for kind in I.KINDS:
                check_make(rep, kind, 0, item[1], item[2], item[3], item[4], item[5])
        elif what == "state":
            for kind in I.KINDS:
                for v in G["method_variants"]:
                    check_methods(rep, kind, v, item[1])
    return rep.dump()


def reading(x):
    return (str(x), "".join(x), len(x), x.parent_coordinates(), x.annotation_offset)


def check_make(rep, kind, variant, fk, how, obs, txts, write_outcomes=()):
    """the root made from raw data given as `how` is the root view, and the frame explored from it behaves the same"""
    state = json.loads(fk)
    root = I.root_string(G["seed"], state[0], state[1], variant)
    ctx = {"kind": kind, "representation": how, "root": root, "offset": state[1], "expected_state": state}
    try:
        made = I.make_from(kind, how, root, state[1])
    except Exception as ex:
        rep.add(f"{kind}:seq:Make:rep={how}:raised-{type(ex).__name__}", lambda: {**ctx, "exception": repr(ex)}, f"constructing from {how} raised {ex!r}")
        return
    if made is None:
        rep.stats["representation_not_accepted"] += 1
        return
    o, source, data = made
    rep.stats["made"] += 1
    rep.stats["seq_level"] += 1
    diffs, drift = [], []
    info = I.compare_seq(o, state, root, obs, diffs, drift, check_fields=(kind != "sdv"))
    if diffs:
        rep.add(f"{kind}:seq:Make:rep={how}:" + ",".join(diffs), lambda: {**ctx, **info, "observed_fields": I.view_fields(o._seq)},
                f"a sequence made from {how} with annotation_offset={state[1]} differs in {diffs}")
        return
    if source is not None:
        fresh = I.make_from(kind, how, root, 0)[1]  # what such an object reads when nothing was constructed from it
        if I.source_reading(source) != I.source_reading(fresh):
            rep.add(f"{kind}:seq:Make:rep={how}:mutates-source",
                    lambda: {**ctx, "source_before": list(I.source_reading(fresh)), "source_after": list(I.source_reading(source))},
                    f"constructing from an existing {how} with annotation_offset={state[1]} changed that {how}")
    if write_outcomes and len(root):
        # the caller reuses the raw data it handed over: a stuttering step for everything made earlier
        earlier = [("the sequence", o)]
        for txt in txts[:40]:
            f2, act, args, tk, ret, ob2 = parse(txt)
            if f2 == fk and act in ("Slice", "Rc", "Index") and ret == "ok" and len(earlier) < 10:
                try:
                    earlier.append((f"{act}{pyargs(args)}", I.apply_seq(o, act, args)))
                except Exception:
                    pass
        before = [reading(x) for _, x in earlier]
        outcome = I.caller_overwrites(data)
        rep.stats["caller_writes"] += 1
        rep.stats["seq_level"] += len(earlier)
        after = [reading(x) for _, x in earlier]
        if outcome not in write_outcomes:
            rep.add(f"{kind}:seq:Write:rep={how}:outcome-{outcome}", lambda: {**ctx, "allowed": list(write_outcomes)}, "the caller's write ended in an outcome the spec does not list")
        changed = [name for (name, _), b, a in zip(earlier, before, after) if a != b]
        if changed:
            i = [n for n, _ in earlier].index(changed[0])
            rep.add(f"{kind}:seq:Write:rep={how}:earlier-views-changed",
                    lambda: {**ctx, "write": outcome, "changed": changed, "first": changed[0], "before": list(before[i]), "after": list(after[i])},
                    f"after the caller overwrote the {how} it had handed over, {len(changed)} object(s) made earlier read differently")
            return
    saved_c, saved_s = G["cache"][(kind, variant)], G["snap"][(kind, variant)]
    G["cache"][(kind, variant)], G["snap"][(kind, variant)] = {fk: (o, root)}, {}
    G["level"] = f"from-{how}"
    try:
        for txt in txts:
            f2, act, args, tk, ret, ob2 = parse(txt)
            if kind == "sdv" and act == "Copy":
                continue
            check_seq_level(rep, kind, variant, f2, act, args, [(tk, ob2)], ret)
    finally:
        G["cache"][(kind, variant)], G["snap"][(kind, variant)] = saved_c, saved_s
        G["level"] = "seq"


def frm_nontrivial(fk):
    return bool(json.loads(fk)[4])


def check_methods(rep, kind, variant, key):
    b = build(kind, variant, key)
    if b is None:
        return
    o, root = b
    state = json.loads(key)
    mol = state[2]
    s = str(o)
    fkind = "new" if kind == "sdv" else kind
    try:
        fresh = I.make(fkind, s, mol, "s", 0)
        other_s = s[::-1] if len(set(s)) > 1 else (s[1:] + "A" if s else "A")
        other_v = I.make(fkind, other_s, mol, "x", 0)
        other_f = I.make(fkind, other_s, mol, "x", 0)
    except Exception as ex:
        rep.add(f"{kind}:method:fresh-construction:{I.view_class(state)}", lambda: {"kind": kind, "root": root, "chain": chain_of(key), "str": s, "exception": repr(ex)}, "cannot build a sequence from the view's string")
        return
    rep.stats["states_method_checked"] += 1
    cv = I.method_calls(o, other_v, other_s)
    for label, mname, args in cv:
        fargs = args if isinstance(args, dict) else tuple(other_f if a is other_v else a for a in args)
        a = I.call_norm(o, mname, args)
        bb = I.call_norm(fresh, mname, fargs)
        rep.stats["method_calls"] += 1
        if a != bb:
            rep.add(
                f"{kind}:method:{label.rstrip('#')}:{I.conv_class(state)}",
                lambda: {
                    "kind": kind, "root": root, "chain": chain_of(key), "state": state, "view_str": s, "method": mname,
                    "args": repr(args), "on_view": a, "on_fresh": bb,
                },
                f"{mname}{args!r} on the view != on make_seq(str(view))",
            )
    # methods must not change the view either
    if str(o) != s:
        rep.add(f"{kind}:method:mutates-receiver:{I.view_class(state)}", lambda: {"kind": kind, "root": root, "chain": chain_of(key)}, "a read-only method changed the view")
        G["cache"][(kind, variant)].pop(key, None)


def warmup():
    """import / JIT-compile everything once in the parent so that forked workers inherit it"""
    for kind in I.KINDS:
        o = I.make(kind, "ACGGTR", "dna", "s", 0)
        v = o[1:5].rc()
        other = I.make("new" if kind == "sdv" else kind, "TTGACC", "dna", "x", 0)
        for label, mname, args in I.method_calls(v, other, "TTGACC"):
            I.call_norm(v, mname, args)
        str(v.to_rna()), v.parent_coordinates(), v.copy(sliced=False)
    G["classname"] = {(k, m): type(I.make(k, "", m, "s", 0)).__name__ for k in ("old", "new") for m in ("dna", "rna")}


# ------------------------------------------------------------------ main
def merge(run, results, totals, driftacc):
    for fail, drift, stats, samples in results:
        for key, (n, detail, what) in fail.items():
            run.fail(key, detail, what=what)
            for _ in range(min(n - 1, 200000)):
                run.fail(key, {}, what=what)
        for key, (n, msg) in drift.items():
            if key not in driftacc:
                driftacc[key] = 0
                run.model_drift(msg)
                run.drift -= 1
            driftacc[key] += n
            run.drift += n
        for k, v in stats.items():
            totals[k] += v
        for s in samples:
            run.sample(s)


def stage(run, scratch, name, cfg, totals, driftacc, tm, sample_rate, **tlc_kw):
    """one TLC run + the three replay phases over what it emitted"""
    nproc = min(16, os.cpu_count() or 1)
    emit = scratch / f"emit-{name}.ndjson"
    res = run_tlc("SeqView", cfg, scratch, workers=nproc, env={"EMIT_FILE": emit}, timeout=3000, **tlc_kw)
    run.add_tlc(res)
    tm[f"{name}.tlc"] = round(res.wall, 1)
    t0 = time.time()
    ctx = mp.get_context("fork")
    parts = chunks(emit, nproc * 8)
    # ---- A: scan
    edges, conv, meta, nrec = {}, [], None, 0
    with ctx.Pool(nproc) as pool:
        for e, c, m, n in pool.imap_unordered(scan, parts):
            for k, v in e.items():
                edges.setdefault(k, v)
            conv.extend(c)
            meta = meta or m
            nrec += n
    if not edges:
        raise RuntimeError("TLC emitted no transitions")
    if meta is not None:
        I.set_tables(meta)
    if not I.TABLES:
        raise RuntimeError("no Meta record (symbol tables) emitted yet")
    if "classname" not in G:
        warmup()
    states = {}
    succ = defaultdict(list)
    for (fk, tk, act, sg), txt in edges.items():
        states.setdefault(fk, None)
        if fk != tk:
            succ[fk].append((tk, txt))
    convalts = defaultdict(list)
    makes = []
    writes = defaultdict(set)  # (root, representation) -> outcomes the spec allows for the caller's write
    for txt in conv:
        fk, act, args, tk, ret, obs = parse(txt)
        if act == "Make":
            makes.append((fk, args[0], obs))
            continue
        if act == "Write":
            writes[(fk, args[0])].update(args[1])
            continue
        convalts[(fk, json.dumps(args))].append((tk, obs))
        states.setdefault(fk, None)
        if fk != tk:
            succ[fk].append((tk, txt))
    inits = sorted(k for k in states if is_init(json.loads(k)))
    parent = {}
    seen = set(inits)
    frontier = list(inits)
    while frontier:
        nxt = []
        for fk in frontier:
            for tk, txt in sorted(succ.get(fk, ())):
                if tk not in seen and tk in states:  # only states the model explores further
                    seen.add(tk)
                    parent[tk] = (fk, txt)
                    nxt.append(tk)
        frontier = nxt
    G.update(
        seed=run.seed, inits=set(inits), parent=parent, states={},
        cache={(k, v): {} for k in I.KINDS for v in VARIANTS},
        snap={(k, v): {} for k in I.KINDS for v in VARIANTS},
        stats=defaultdict(int), sample_rate=sample_rate,
        # quick: view-vs-fresh method comparison on the degenerate/gapped root only (SeqViewRead carries the oracle-based reads)
        method_variants=(1,) if run.tier == "quick" else VARIANTS,
    )
    totals["spec_states_explored"] += len(states)
    totals["spec_states_with_chain"] += len(seen)
    totals["emitted_transitions"] += nrec
    tm[f"{name}.emitted"] = nrec
    tm[f"{name}.states_explored"] = len(states)
    if tlc_kw.get("simulate"):  # TLC prints no state-graph statistics in simulation mode: count what it emitted
        run.cov["states"] += len(states)
        run.cov["transitions"] += nrec
    tm[f"{name}.scan_plan"] = round(time.time() - t0, 1)
    t0 = time.time()
    # ---- C: distinct edges + conversions + methods (grouped by source state for locality)
    by_state = defaultdict(list)
    for (fk, tk, act, sg), txt in edges.items():
        by_state[fk].append(("edge", txt))
    for (fk, a), alts in convalts.items():
        by_state[fk].append(("conv", fk, json.loads(a), alts))
    for k in seen:
        by_state[k].append(("state", k))
    # construction from every representation: the root, all calls on it, and a seeded sample of its frame's other edges
    rnd = random.Random(f"C01-make-{run.seed}")
    frame_edges = defaultdict(list)
    for (fk, tk, act, sg), txt in edges.items():
        frame_edges[fk[: fk.index(",[")]].append((fk, txt))  # "[L,off,mol,sid" prefix of the state key = its frame
    nsample = 60 if run.tier == "quick" else 400
    for fk, rep, obs in sorted(makes, key=lambda m: (m[0], m[1])):
        if rep == "str":
            continue  # the roots the whole replay starts from
        fe = frame_edges[fk[: fk.index(",[")]]
        own = [t for f, t in fe if f == fk]
        rest = sorted(t for f, t in fe if f != fk and f in seen)
        rnd.shuffle(rest)
        by_state[fk].append(("make", fk, rep, obs, own + rest[:nsample], sorted(writes.get((fk, rep), ()))))
    order = sorted(by_state, key=lambda k: (json.loads(k)[:4], k))
    jobs, cur = [], []
    target = max(200, sum(len(v) for v in by_state.values()) // (nproc * 12))
    for k in order:
        cur.extend(by_state[k])
        if len(cur) >= target:
            jobs.append(cur)
            cur = []
    if cur:
        jobs.append(cur)
    with ctx.Pool(nproc) as pool:
        merge(run, pool.imap_unordered(replay_edges, jobs), totals, driftacc)
    tm[f"{name}.edges_methods"] = round(time.time() - t0, 1)
    t0 = time.time()
    # ---- B: every transition at view level (+ seeded sample at Sequence level)
    with ctx.Pool(nproc) as pool:
        merge(run, pool.imap_unordered(replay_chunk, parts), totals, driftacc)
    tm[f"{name}.all_transitions"] = round(time.time() - t0, 1)
    os.unlink(emit)


def replay_file(path):
    """./check C01 --replay replays/C01/<n>.json : redo the recorded chain on the real classes and print what they answer"""
    d = json.load(open(path))
    kind, root = d["kind"], d["root"]
    rs = d["chain"]["root_state"]
    I.TABLES.setdefault("none", None)
    o = I.make(kind, root, "dna", "s", rs[1])
    print(f"{kind} root {root!r} offset {rs[1]}: {o!r} {o.parent_coordinates()}")
    calls = list(d["chain"]["calls"])
    if "act" in d:
        calls.append([d["act"], d["args"]])
    for act, args in calls:
        try:
            o = I.apply_seq(o, act, args)
            print(f"  {act}{args} -> {str(o)!r} len={len(o)} coords={o.parent_coordinates()} view={I.view_fields(o._seq)}")
        except Exception as ex:
            print(f"  {act}{args} raised {ex!r}")
            break
    for k in ("expected_state", "expected_str", "observed_str", "observed_coords", "method", "args", "on_view", "on_fresh"):
        if k in d:
            print(f"  recorded {k}: {d[k]!r}"[:400])


def check(run: Run):
    if getattr(run, "replay", None):
        replay_file(run.replay)
        raise SystemExit(0)  # a replay is not a run: leave the evidence file alone
    tier = run.tier
    for old in (REPLAYS / "C01").glob(f"{tier}-*.json"):
        old.unlink()  # replay files of earlier runs of this tier
    totals = defaultdict(int)
    driftacc = {}
    tm = {}
    with Scratch("C01") as scratch:
        rate = float(os.environ.get("VERIF_C01_SAMPLE", "0.02" if tier == "quick" else "0.01"))
        stages = os.environ.get("VERIF_C01_STAGES", "exhaustive,read,coll,deep").split(",")  # debugging aid
        import concurrent.futures

        import coll_C01
        import read_C01

        # the two small single-worker TLC runs proceed while the big model is explored and replayed
        pool = concurrent.futures.ThreadPoolExecutor(2)
        fut_read = pool.submit(read_C01.tlc_read, scratch, tier) if "read" in stages else None
        fut_coll = pool.submit(coll_C01.tlc_coll, scratch, tier) if "coll" in stages else None
        if "exhaustive" in stages:
            stage(run, scratch, "exhaustive", f"MC_SeqView_{tier}.cfg", totals, driftacc, tm, rate)
        if "classname" not in G:
            warmup()
        if fut_read is not None:
            read_C01.stage_read(run, scratch, tier, totals, tm, pre=fut_read.result())
        if fut_coll is not None:
            coll_C01.stage_coll(run, scratch, tier, totals, tm, pre=fut_coll.result())
        pool.shutdown()
        if tier == "thorough" and "deep" in stages:
            # longer roots (5-10 residues, offsets 0 and 7): seeded random walks of the same model through views that
            # still display >= 2 residues; TLC evaluates (and emits) the full fan-out of every view it visits
            stage(run, scratch, "deep", "MC_SeqView_deep.cfg", totals, driftacc, tm, rate,
                  simulate="num=8", depth=6, seed=run.seed + 1)
    run.cov["traces_validated_against_impl"] = totals["view_level"] + totals["seq_level"] + totals["read_answers"] + totals["coll_answers"]
    run.cov["evaluations"] = run.cov["traces_validated_against_impl"] + 2 * totals["method_calls"]
    run.cov["distinct_nontrivial"] = totals["distinct_nontrivial"] + totals["read_views"] + totals["coll_states"]
    run.cov["exhaustive"] = True
    run.cov["rule"] = (
        "TLC enumerates every view state reachable from roots of length 0..MaxL (closed under slices with start/stop in "
        "None u -L-m..L+m and strides None,+-1,+-2(,+-3), indexing, rc, copy, DNA<->RNA; bounded by |step|<=MaxStep and MaxGen "
        "conversions; quick: MaxL 3, m 1; thorough: MaxL 4, m 2 plus 128 simulated walks of depth 6 over roots of length 5-10). Every emitted "
        "Slice/Index/Rc transition is applied to the real view record of old/new/collection-backed sequences x 2 seeded root "
        "strings (view_level); every distinct (state, successor, action, stride-sign) edge, every Copy/Conv transition and a "
        "seeded sample of the rest go through the public Sequence API (seq_level). distinct_nontrivial = distinct such edges "
        "whose source view is non-empty.  SeqViewRead: every view (slices + rc, two call chains each) of concrete IUPAC roots "
        "(quick 1 root of 7 residues, thorough 4 roots, offsets 0 and 5) answers ~45 reading methods, translation and "
        "comparisons against a second sequence object as the plain-string model says (read_answers).  SeqViewColl: every "
        "reachable collection state (take_seqs / rename_seqs / rc / degap over members that are views of one parent) read back "
        "through the collection API (coll_answers)."
    )
    run.note("replay", {k: v for k, v in totals.items() if not k.startswith(("spec_", "emitted"))})
    run.note("spec_states_explored", totals["spec_states_explored"])
    run.note("spec_states_with_chain", totals["spec_states_with_chain"])
    run.note("emitted_transitions", totals["emitted_transitions"])
    run.note("stages", tm)
    run.note("model_drift_classes", driftacc)
    run.assumptions += [
        "expected strings are rendered from the spec's symbolic (idx, comp) with the complement / T<->U tables defined in SeqView.tla",
        "moltypes dna and rna only (protein/text sequences do not complement on negative strides and are not driven)",
        "exhaustive for root lengths <= MaxL (quick 3, thorough 4); lengths 5-10 only along seeded simulated walks (thorough); longer sequences are not covered",
        "Sequence.__getitem__ is exercised for one argument triple per distinct (state, successor, stride sign) plus a seeded sample; all argument triples are exercised on the view record it delegates to",
        "method results are compared after projection (sequences -> (moltype, string, name); class names in repr/html and version/offset keys dropped); random, plotting, annotation and serialisation methods are excluded",
        "SeqViewRead follows the method docstrings: '?' is both degenerate and a gap; count_gaps may or may not count '?' (old and new classes document it differently); "
        "first_gap / gap_maps exist on old-style, __array__ / __bytes__ / to_phylip on new-style sequences only; get_translation outcomes are GeneticCode.tla's (C12), "
        "and old-style include_stop=True with trim_stop=True is left to C12's known finding",
        "construction (action Make): old-style roots are made through the sequence class constructor (cogent3.make_seq only documents str/bytes and returns an existing Sequence unmodified), new-style through MolType.make_seq, collection-backed through make_unaligned_seqs; representations a constructor does not take are counted as representation_not_accepted",
        "collection-backed sequences exist only for offset 0 and non-empty roots; states behind their copy() are not built (copy returns the receiver's own record)",
        "replay counters named unreachable_or_unsupported count (kind, root variant) pairs for which a state cannot be instantiated (collection-backed + offset, states behind a failing call)",
    ]


if __name__ == "__main__":
    sys.exit(main_wrapper(check, "C01"))
