"""Run TLC on a spec in /verif/specs and collect statistics / emitted transitions.

All scratch state (metadir, emitted ndjson, trace files) lives under
/var/tmp/verif-* and is removed by the caller through `Scratch`.
Exit-status convention of the checks: 0 ok, 1 violation, 2 machinery failure.
"""
from __future__ import annotations

import json
import os
import re
import shutil
import subprocess
import tempfile
import time
from pathlib import Path

VERIF = Path(__file__).resolve().parent.parent
SPECS = VERIF / "specs"
JAR = "/opt/veriftools/tla/tla2tools.jar:/opt/veriftools/tla/CommunityModules-deps.jar"


class MachineryError(RuntimeError):
    """TLC crashed, overflowed, timed out, or the spec itself is violated."""


class Scratch:
    """A scratch directory outside /repo and /verif, removed on exit."""

    def __init__(self, tag: str):
        base = Path(os.environ.get("VERIF_SCRATCH", "/var/tmp"))
        base.mkdir(parents=True, exist_ok=True)
        self.path = Path(tempfile.mkdtemp(prefix=f"verif-{tag}-", dir=base))

    def __enter__(self):
        return self.path

    def __exit__(self, *exc):
        shutil.rmtree(self.path, ignore_errors=True)
        return False


_STATS = re.compile(
    r"(\d+) states generated, (\d+) distinct states found, (\d+) states left on queue"
)
_DEPTH = re.compile(r"The depth of the complete state graph search is (\d+)")


class TlcResult:
    def __init__(self, out: str, rc: int, wall: float):
        self.out = out
        self.rc = rc
        self.wall = wall
        m = None
        for m in _STATS.finditer(out):
            pass
        self.generated = int(m.group(1)) if m else 0
        self.distinct = int(m.group(2)) if m else 0
        d = _DEPTH.search(out)
        self.depth = int(d.group(1)) if d else 0
        self.violated = (
            "is violated" in out
            or "Error: Deadlock" in out
            or "Error:" in out and "violat" in out
        )
        self.ok = rc == 0 and "Model checking completed. No error has been found" in out

    def coverage_zero_actions(self):
        """Names of actions that -coverage reports as never taken."""
        zero = []
        for m in re.finditer(r"<(\w+) line [^>]*>: (\d+):(\d+)", self.out):
            if int(m.group(3)) == 0 and int(m.group(2)) == 0:
                zero.append(m.group(1))
        return sorted(set(zero))


def run_tlc(
    spec: str,
    cfg: str,
    scratch: Path,
    *,
    workers: int | str = "auto",
    env: dict | None = None,
    timeout: int = 1800,
    simulate: str | None = None,
    depth: int | None = None,
    seed: int | None = None,
    coverage: bool = False,
    deadlock: bool = False,
    dfs_queue: bool = False,
    heap: str = "4g",
    stack: str = "256m",
    extra: list[str] | None = None,
    must_pass: bool = True,
) -> TlcResult:
    """Run TLC on specs/<spec>.tla with specs/<cfg>; returns TlcResult.

    must_pass: raise MachineryError unless TLC finished with no error (the
    design-level invariants hold on the model).  Checks that *expect* a
    counterexample pass must_pass=False and look at .violated/.out.
    """
    meta = scratch / f"meta-{spec}-{time.time_ns()}"
    cmd = ["java", "-XX:+UseParallelGC", f"-Xmx{heap}", f"-Xss{stack}"]
    if dfs_queue:
        cmd.append("-Dtlc2.tool.queue.IStateQueue=StateDeque")
    cmd += ["-cp", JAR, "tlc2.TLC", "-noGenerateSpecTE", "-metadir", str(meta)]
    cmd += ["-workers", str(workers)]
    if not deadlock:
        cmd.append("-deadlock")  # -deadlock *disables* deadlock checking
    if coverage:
        cmd += ["-coverage", "1"]
    if simulate:
        cmd += ["-simulate", simulate]
    if depth is not None:
        cmd += ["-depth", str(depth)]
    if seed is not None:
        cmd += ["-seed", str(seed)]
    if extra:
        cmd += extra
    cmd += ["-config", str(SPECS / cfg), str(SPECS / f"{spec}.tla")]
    e = dict(os.environ)
    e.pop("JAVA_TOOL_OPTIONS", None)
    if env:
        e.update({k: str(v) for k, v in env.items()})
    t0 = time.time()
    try:
        p = subprocess.run(
            cmd, cwd=str(SPECS), env=e, capture_output=True, text=True, timeout=timeout
        )
    except subprocess.TimeoutExpired as ex:
        subprocess.run(["pkill", "-f", str(meta)], check=False)
        raise MachineryError(f"TLC timeout after {timeout}s on {spec}/{cfg}") from ex
    finally:
        shutil.rmtree(meta, ignore_errors=True)
    res = TlcResult(p.stdout + p.stderr, p.returncode, time.time() - t0)
    if "Overflow when computing" in res.out:
        raise MachineryError(f"TLC integer overflow in {spec}/{cfg}:\n{res.out[-2000:]}")
    if must_pass and not (res.ok or (simulate and res.rc == 0)):
        raise MachineryError(
            f"TLC did not complete cleanly on {spec}/{cfg} (rc={res.rc}):\n{res.out[-4000:]}"
        )
    return res


def read_emitted(path: Path):
    """Yield dicts from a file written by CSVWrite("%1$s", <<ToJson(rec)>>, f).

    ToJson output is written raw, one JSON object per line.
    """
    if not Path(path).exists():
        return
    with open(path, "r") as fh:
        for line in fh:
            line = line.strip()
            if not line:
                continue
            v = json.loads(line)
            if isinstance(v, str):  # doubly encoded
                v = json.loads(v)
            yield v


def tla_value(v) -> str:
    """Render a Python value as a TLA+ expression (for generated cfg/modules)."""
    if isinstance(v, bool):
        return "TRUE" if v else "FALSE"
    if isinstance(v, int):
        return str(v)
    if isinstance(v, str):
        return '"' + v.replace("\\", "\\\\").replace('"', '\\"') + '"'
    if isinstance(v, (list, tuple)):
        return "<<" + ", ".join(tla_value(x) for x in v) + ">>"
    if isinstance(v, (set, frozenset)):
        return "{" + ", ".join(tla_value(x) for x in sorted(v, key=repr)) + "}"
    if isinstance(v, dict):
        if not v:
            return "<<>>"
        return "[" + ", ".join(f"{k} |-> {tla_value(x)}" for k, x in v.items()) + "]"
    if v is None:
        return '"None"'
    raise TypeError(type(v))
