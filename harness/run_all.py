#!/venv/bin/python
"""Run every registered check against /repo (evidence refresh): run_all.py [quick|thorough] [-j N] [IDs...]"""
import json, subprocess, sys, time
from concurrent.futures import ThreadPoolExecutor
from pathlib import Path

VERIF = Path(__file__).resolve().parent.parent
args = [a for a in sys.argv[1:]]
tier = "quick"
jobs = 3
ids = []
while args:
    a = args.pop(0)
    if a in ("quick", "thorough"):
        tier = a
    elif a == "-j":
        jobs = int(args.pop(0))
    else:
        ids.append(a)
man = json.loads((VERIF / "MANIFEST.json").read_text())
ids = ids or [c["property_id"] for c in man["checks"]]


def one(pid):
    t = time.time()
    p = subprocess.run(["./check", pid, "--tier", tier], cwd=VERIF, capture_output=True, text=True)
    out = p.stdout + p.stderr
    viol = [l for l in out.splitlines() if l.startswith("VIOLATION")]
    summ = [l for l in out.splitlines() if l.startswith(f"[{pid}/")]
    return pid, p.returncode, round(time.time() - t, 1), len(viol), (summ[-1] if summ else out[-300:])


bad = 0
with ThreadPoolExecutor(jobs) as ex:
    for pid, rc, secs, nv, summ in ex.map(one, ids):
        print(f"{pid} rc={rc} {secs}s violations={nv} {summ}", flush=True)
        bad += rc != 0
sys.exit(1 if bad else 0)
