"""C12 — driving every real entry point with one spec-emitted case.

Nothing here computes an expected value: expectations come from the TLC-emitted
record (specs/GeneticCode.tla).  This module only instantiates real cogent3
objects, calls the public API, projects results to plain strings and compares.

Each check appends to `Out`:
    out.n            number of real-API observations compared with the spec
    out.fails        [(structural key, detail dict, what)]
    out.unsupported  refusals that the spec lists as an allowed outcome
"""
from __future__ import annotations

REJECT = "!"          # the spec's Reject outcome is <<"!">>
NAME = "s1"


class Out:
    def __init__(self):
        self.n = 0
        self.fails = []
        self.unsupported = 0
        self.per_entry = {}

    def count(self, entry, k=1):
        self.n += k
        self.per_entry[entry] = self.per_entry.get(entry, 0) + k

    def fail(self, key, rec, entry, expected, observed, what=""):
        self.fails.append(
            (
                key,
                {
                    "entry_point": entry,
                    "case": {k: rec[k] for k in ("kind", "code", "mt", "act", "args")},
                    "seq": "".join(rec["seq"]) if len(rec["seq"]) <= 4000 else f"<specs/GeneticCode.tla LongSeq({len(rec['seq'])})>",
                    "seq2": "".join(rec["seq2"]),
                    "set": rec["set"],
                    "expected": expected,
                    "observed": observed,
                },
                what,
            )
        )


def J(chars):
    return "".join(chars)


def seq_txt(rec):
    L = len(rec["seq"])
    return J(rec["seq"]) if L <= 60 else f"LongSeq({L})"


def long_class(rec):
    n = len(rec["seq"]) // 3
    return ":codons>=65536" if n >= 65536 else ":codons>=256" if n >= 256 else ""


def call(f):
    """-> ("ok", value) | ("raised", repr)"""
    try:
        return "ok", f()
    except Exception as ex:  # noqa: BLE001 - any refusal is an observation
        return "raised", f"{type(ex).__name__}: {str(ex)[:120]}"


def to_rna(s):
    return s.replace("T", "U")


# --------------------------------------------------------------------- objects
class Api:
    """Lazy handles on the real modules (imported after fork)."""

    _inst = None

    def __init__(self):
        import cogent3
        from cogent3.app import translate as app_translate
        from cogent3.core import alignment as old_aln
        from cogent3.core import genetic_code as old_gc
        from cogent3.core import moltype as old_mt
        from cogent3.core import new_alignment as new_aln
        from cogent3.core import new_genetic_code as new_gc
        from cogent3.core import new_moltype as new_mt

        self.cogent3 = cogent3
        self.app = app_translate
        self.old_gc = old_gc
        self.new_gc = new_gc
        self.old_mt = {"dna": old_mt.get_moltype("dna"), "rna": old_mt.get_moltype("rna"), "protein": old_mt.get_moltype("protein")}
        self.new_mt = {"dna": new_mt.get_moltype("dna"), "rna": new_mt.get_moltype("rna"), "protein": new_mt.get_moltype("protein")}
        self.old_colls = {
            "old-SequenceCollection": old_aln.SequenceCollection,
            "old-Alignment": old_aln.Alignment,
            "old-ArrayAlignment": old_aln.ArrayAlignment,
        }
        self.new_aln = new_aln
        self._apps = {}

    @classmethod
    def get(cls):
        if cls._inst is None:
            cls._inst = cls()
        return cls._inst

    def ogc(self, code):
        return self.old_gc.get_code(code)

    def ngc(self, code):
        return self.new_gc.get_code(code)

    # Real objects are built once per input sequence and shared by the option
    # combinations applied to it (the operations under test do not mutate them).
    _cache_key = None
    _cache = {}

    def _cached(self, key, tag, mk):
        if key != self._cache_key:
            self._cache_key = key
            self._cache = {}
        if tag not in self._cache:
            self._cache[tag] = mk()
        return self._cache[tag]

    def old_seq(self, s, mt="dna"):
        return self._cached(s, ("old_seq", mt), lambda: self.cogent3.make_seq(to_rna(s) if mt == "rna" else s, name=NAME, moltype=mt))

    def new_seq(self, s, mt="dna"):
        return self._cached(s, ("new_seq", mt), lambda: self.new_mt[mt].make_seq(seq=to_rna(s) if mt == "rna" else s, name=NAME))

    def old_coll(self, entry, seqs: dict):
        key = "|".join(seqs.values())
        return self._cached(key, ("old_coll", entry, tuple(seqs)), lambda: self.old_colls[entry](data=dict(seqs), moltype="dna"))

    def new_coll(self, seqs: dict):
        key = "|".join(seqs.values())
        return self._cached(key, ("new_coll", tuple(seqs)), lambda: self.new_aln.make_unaligned_seqs(dict(seqs), moltype="dna"))

    def warm_up(self):
        """import everything and trigger the JIT compilation before worker processes are forked"""
        self.ngc(1).translate("ATGAAATAA", 1, rc=True)
        str(self.new_seq("ATGAAA").get_translation(gc=1))
        str(self.old_seq("ATGAAA").get_translation(gc=1))
        self.new_coll({NAME: "ATGAAA"}).get_translation(gc=1)
        self.old_coll("old-ArrayAlignment", {NAME: "ATGAAA"}).get_translation(gc=1)
        self._cache_key = None
        self._cache = {}

    def translate_seqs(self, code, trim, flag_repr="bool"):
        key = (code, bool(trim), flag_repr)
        if key not in self._apps:
            self._apps[key] = self.app.translate_seqs(moltype="dna", gc=code, trim_terminal_stop=flag(trim, flag_repr))
        return self._apps[key]


ALIGNED = ("old-Alignment", "old-ArrayAlignment")


def family(entry):
    """Entry-point family used in root-cause finding keys."""
    if entry.startswith("app."):
        return "app.translate_seqs"
    if entry.startswith("old-seq"):
        return "old-seq"
    if entry.startswith("new-seq"):
        return "new-seq"
    return "old-collection" if entry.startswith("old-") else "new-collection"


def is_aligned(entry):
    return any(a[4:] in entry for a in ALIGNED)


def empty_codon_error(st, got):
    return st == "raised" and "has wrong length" in str(got)


def member(entry, d, name):
    """Projection of one member of a translated / trimmed collection.

    Alignment classes keep the alignment length after trimming a stop codon by
    padding with gaps (documented in trim_stop_codon's Notes): the padding is
    representation, not part of the translation of a canonical sequence.
    """
    v = str(d[name])
    return v.rstrip("-") if entry in ALIGNED else v


# ------------------------------------------------------------------ Codon / code
def check_codon(rec, out: Out):
    api = Api.get()
    code, c = rec["code"], J(rec["seq"])
    exp = rec["ret"]
    aa, stop, anti = exp["aa"], exp["stop"], J(exp["anticodon"])
    o, n = api.ogc(code), api.ngc(code)

    def cmp(entry, obsname, want, f):
        st, got = call(f)
        out.count(entry)
        if st != "ok" or got != want:
            out.fail(f"Codon:{entry}:{obsname}", rec, entry, want, got, f"{obsname} of codon {c} in code {code}")

    for form, cc in (("dna", c), ("rna", to_rna(c))):
        sfx = "" if form == "dna" else "[rna]"
        cmp("old-gc", f"getitem{sfx}", aa, lambda: o[cc])
        cmp("old-gc", f"is_stop{sfx}", stop, lambda: bool(o.is_stop(cc)))
        cmp("old-gc", f"translate{sfx}", aa, lambda: o.translate(cc))
        cmp("new-gc", f"getitem{sfx}", aa, lambda: n[cc])
        cmp("new-gc", f"is_stop{sfx}", stop, lambda: bool(n.is_stop(cc)))
    cmp("new-gc", "translate", aa, lambda: n.translate(c))
    cmp("new-gc", "translate-rc-of-anticodon", aa, lambda: n.translate(anti, rc=True))
    cmp("old-gc", "translate-anticodon-rc", aa, lambda: o.translate(api.old_mt["dna"].rc(anti)))
    cmp("old-gc", "in-stop-list", stop, lambda: c in o["*"])
    cmp("new-gc", "in-stop_codons", stop, lambda: c in n.stop_codons)
    cmp("old-gc", "in-sense_codons", not stop, lambda: c in o.sense_codons)
    cmp("new-gc", "in-sense_codons", not stop, lambda: c in n.sense_codons)
    cmp("old-gc", "codons-dict", aa, lambda: o.codons[c])
    cmp("old-gc", "anticodons-dict", True, lambda: anti in o.anticodons[aa])
    cmp("old-gc", "synonyms-dict", True, lambda: c in o.synonyms[aa])


def check_synonyms(rec, out: Out):
    api = Api.get()
    code = rec["code"]
    exp = rec["ret"]
    o, n = api.ogc(code), api.ngc(code)
    for aa, codons in exp["syn"].items():
        want = sorted(J(c) for c in codons)
        for entry, gc in (("old-gc", o), ("new-gc", n)):
            st, got = call(lambda: sorted(gc[aa]))
            out.count(entry)
            if st != "ok" or got != want:
                out.fail(f"Synonyms:{entry}:codons-of-aa", rec, entry, {aa: want}, got, f"gc[{aa!r}] in code {code}")
    sense = sorted(J(c) for c in exp["sense"])
    allc = sorted(sense + [J(c) for c in exp["syn"]["*"]])
    table = J(exp["table"])
    checks = [
        ("old-gc", "sense_codons", sense, lambda: sorted(o.sense_codons)),
        ("new-gc", "sense_codons", sense, lambda: sorted(n.sense_codons)),
        ("old-gc", "code_sequence", table, lambda: str(o)),
        ("old-gc", "get_alphabet", sense, lambda: sorted(o.get_alphabet())),
        ("new-gc", "get_alphabet", sense, lambda: sorted(n.get_alphabet())),
        ("old-gc", "get_alphabet(include_stop)", allc, lambda: sorted(o.get_alphabet(include_stop=True))),
        ("new-gc", "get_alphabet(include_stop)", allc, lambda: sorted(n.get_alphabet(include_stop=True))),
        ("old-gc", "get_code(str id)", table, lambda: str(api.old_gc.get_code(str(code)))),
        ("old-gc", "get_code(name)", table, lambda: str(api.old_gc.get_code(o.name))),
        ("new-gc", "get_code(str id / name)", True, lambda: api.new_gc.get_code(str(code)) is n and api.new_gc.get_code(n.name) is n),
        ("old-gc", "get_code(new_type)", True, lambda: api.old_gc.get_code(code, new_type=True) is n),
    ]
    for entry, obsname, want, f in checks:
        st, got = call(f)
        out.count(entry)
        if st != "ok" or got != want:
            out.fail(f"Synonyms:{entry}:{obsname}", rec, entry, want, got, f"{obsname} of code {code}")


# ----------------------------------------------------------------------- Frames
def _frame_cmp(rec, out, entry, strand, k, want, allow_reject, st, got, others=None, variant=""):
    """Compare one frame; `others` = the spec's other frames of the same strand (classification only)."""
    out.count(entry)
    L = len(rec["seq"])
    cls = f"{strand}:start={k}:Lmod3={L % 3}"
    long_cls = ":codons>=65536" if L // 3 >= 65536 else ":codons>=256" if L // 3 >= 256 else ""
    if st == "raised":
        if allow_reject:
            out.unsupported += 1
            return
        kind = "empty-seq:raised" if L == 0 else "raised"
        out.fail(f"Frames:{entry}{variant}:{cls}:{kind}", rec, entry, want, got, f"frame {strand}{k} refused")
        return
    if got == want:
        return
    diff = "wrong-protein"
    if len(got) != len(want):
        diff = "wrong-length"
    elif others and got in others:
        diff = "other-frame-of-same-strand"
    elif variant == "[rna-string]" and len(got) == len(want) and "X" in got and all(g == w or g == "X" for g, w in zip(got, want)):
        out.fail(f"Frames:{entry}{variant}:codons-with-U-become-X", rec, entry, want, got, f"frame {strand}{k} of {to_rna(J(rec['seq']))}")
        return
    if diff in ("wrong-protein", "wrong-length"):
        diff += long_cls  # length class of the input (k-mer index arrays change dtype with length)
    seq_txt = J(rec["seq"]) if L <= 60 else f"LongSeq({L})"
    out.fail(f"Frames:{entry}{variant}:{cls}:{diff}", rec, entry, want, got, f"frame {strand}{k} of {seq_txt} code {rec['code']}")


def check_frames_gc(rec, out: Out, rna=False):
    """L1: genetic-code objects on plain strings."""
    api = Api.get()
    code, s = rec["code"], J(rec["seq"])
    six = rec["ret"]["six"]
    plus = [J(p) for p in six["plus"]]
    minus = [J(p) for p in six["minus"]]
    want_rc = J(rec["ret"]["rc"])
    may = rec["ret"]["mayreject"]
    o, n = api.ogc(code), api.ngc(code)

    # the real reverse complement (itself an observation)
    rcs = {}
    for entry, mt in (("old-moltype", api.old_mt["dna"]), ("new-moltype", api.new_mt["dna"])):
        st, got = call(lambda: mt.rc(s))
        out.count(entry)
        if st != "ok" or got != want_rc:
            out.fail(f"Frames:{entry}:rc", rec, entry, want_rc, got, f"rc of {s}")
        rcs[entry] = got if st == "ok" else None
    real_rc = rcs["old-moltype"] if rcs["old-moltype"] is not None else want_rc

    for k in range(3):
        st, got = call(lambda: o.translate(s, k))
        _frame_cmp(rec, out, "old-gc.translate", "plus", k, plus[k], may[k], st, got)
        st, got = call(lambda: o.translate(real_rc, k))
        _frame_cmp(rec, out, "old-gc.translate", "minus", k, minus[k], may[k], st, got)
        st, got = call(lambda: n.translate(s, k))
        _frame_cmp(rec, out, "new-gc.translate", "plus", k, plus[k], may[k], st, got)
        st, got = call(lambda: n.translate(real_rc, k))
        _frame_cmp(rec, out, "new-gc.translate(rc-string)", "minus", k, minus[k], may[k], st, got)
        st, got = call(lambda: n.translate(s, k, rc=True))
        _frame_cmp(rec, out, "new-gc.translate(rc=True)", "minus", k, minus[k], may[k], st, got, others=minus)
    st, got = call(lambda: list(n.sixframes(s)))
    if st == "raised":
        out.count("new-gc.sixframes")
        if any(may):
            out.unsupported += 1
        else:
            out.fail("Frames:new-gc.sixframes:raised", rec, "new-gc.sixframes", six, got)
    else:
        seen = set()
        for strand, k, pep in got:
            seen.add((strand, k))
            if strand == "+":
                _frame_cmp(rec, out, "new-gc.sixframes", "plus", k, plus[k], may[k], "ok", pep)
            else:
                _frame_cmp(rec, out, "new-gc.sixframes", "minus", k, minus[k], may[k], "ok", pep, others=minus)
        if seen != {(a, b) for a in "+-" for b in range(3)}:
            out.fail("Frames:new-gc.sixframes:frame-labels", rec, "new-gc.sixframes", "6 frames", sorted(seen))
        # as an unlabelled collection the six translations must be the spec's six
        out.count("new-gc.sixframes")
        if sorted(p for _, _, p in got) != sorted(plus + minus):
            out.fail("Frames:new-gc.sixframes:multiset-of-six", rec, "new-gc.sixframes", sorted(plus + minus), sorted(p for _, _, p in got))
    if rna:
        r = to_rna(s)
        for k in range(3):
            st, got = call(lambda: o.translate(r, k))
            _frame_cmp(rec, out, "old-gc.translate", "plus", k, plus[k], may[k], st, got, variant="[rna-string]")
            st, got = call(lambda: n.translate(r, k))
            _frame_cmp(rec, out, "new-gc.translate", "plus", k, plus[k], may[k], st, got, variant="[rna-string]")


def check_frames_seq(rec, out: Out):
    """L2: Sequence objects, old sixframes, translate_frames."""
    api = Api.get()
    code, s = rec["code"], J(rec["seq"])
    six = rec["ret"]["six"]
    plus = [J(p) for p in six["plus"]]
    minus = [J(p) for p in six["minus"]]
    want_rc = J(rec["ret"]["rc"])
    may = rec["ret"]["mayreject"]
    o = api.ogc(code)
    want6 = plus + minus

    def six_list(entry, f, want):
        st, got = call(f)
        out.count(entry)
        if st == "raised":
            if any(may):
                out.unsupported += 1
            else:
                kind = "empty-seq:raised" if not s else "raised"
                out.fail(f"Frames:{entry}:{kind}", rec, entry, want, got)
            return
        got = [str(g) for g in got]
        if got != want:
            bad = [("plus", i) if i < 3 else ("minus", i - 3) for i in range(min(len(got), len(want))) if got[i] != want[i]]
            where = f"{bad[0][0]}:start={bad[0][1]}" if bad else "length"
            diff = "same-multiset" if sorted(got) == sorted(want) else "wrong-protein"
            out.fail(f"Frames:{entry}:{where}:Lmod3={len(s) % 3}:{diff}", rec, entry, want, got)

    for mt in ("dna", "rna"):
        st, seq = call(lambda: api.old_seq(s, mt))
        if st != "ok":
            out.fail(f"Frames:old-seq-{mt}:construct", rec, f"old-seq-{mt}", s, seq)
            continue
        six_list(f"old-gc.sixframes({mt}-seq)", lambda: o.sixframes(seq), want6)
    six_list("app.translate_frames(allow_rc)", lambda: api.app.translate_frames(s, moltype="dna", gc=code, allow_rc=True), want6)
    six_list("app.translate_frames", lambda: api.app.translate_frames(s, moltype="dna", gc=code), plus)

    # genetic-code and moltype functions handed sequence OBJECTS instead of strings
    st, oseq = call(lambda: api.old_seq(s, "dna"))
    if st == "ok":
        st, got = call(lambda: str(api.old_mt["dna"].rc(oseq)))
        out.count("old-moltype")
        if st != "ok" or got != want_rc:
            out.fail("Frames:old-moltype:rc[old-seq]", rec, "old-moltype", want_rc, got, f"DNA.rc(sequence object {s})")
        for k in range(3):
            st, got = call(lambda: o.translate(oseq, k))
            _frame_cmp(rec, out, "old-gc.translate[old-seq]", "plus", k, plus[k], may[k], st, got)
            st, got = call(lambda: o.translate(api.old_mt["dna"].rc(oseq), k))
            _frame_cmp(rec, out, "old-gc.translate[moltype.rc(old-seq)]", "minus", k, minus[k], may[k], st, got)
    st, nseq = call(lambda: api.new_seq(s, "dna"))
    if st == "ok" and s:
        import numpy

        n = api.ngc(code)
        for k in range(3):
            st, got = call(lambda: n.translate(numpy.array(nseq), k))
            _frame_cmp(rec, out, "new-gc.translate[ndarray of new-seq]", "plus", k, plus[k], may[k], st, got)
            st, got = call(lambda: n.translate(numpy.array(nseq.rc()), k))
            _frame_cmp(rec, out, "new-gc.translate[ndarray of new-seq.rc()]", "minus", k, minus[k], may[k], st, got)

    # sequence objects: seq.rc(), and frames by slicing the (reverse-complemented) view
    kw = dict(gc=code, include_stop=True, trim_stop=False, incomplete_ok=True)
    for entry, mk, mt in (
        ("old-seq-dna", api.old_seq, "dna"),
        ("new-seq-dna", api.new_seq, "dna"),
        ("new-seq-rna", api.new_seq, "rna"),
    ):
        if mt == "rna" and rec["kind"] != "seqB":
            continue  # RNA objects: stop-rich family only (budget)
        st, seq = call(lambda: mk(s, mt))
        if st != "ok":
            out.fail(f"Frames:{entry}:construct", rec, entry, s, seq)
            continue
        w_rc = to_rna(want_rc) if mt == "rna" else want_rc
        st, got = call(lambda: str(seq.rc()))
        out.count(entry)
        if st != "ok" or got != w_rc:
            out.fail(f"Frames:{entry}:rc", rec, entry, w_rc, got)
        st, got = call(lambda: str(seq.rc().rc()))
        out.count(entry)
        if st != "ok" or got != (to_rna(s) if mt == "rna" else s):
            out.fail(f"Frames:{entry}:rc-rc", rec, entry, s, got)
        w_rev = J(rec["ret"]["rev"])
        w_rev = to_rna(w_rev) if mt == "rna" else w_rev
        for obsname, f in (
            ("rc().complement()", lambda: str(seq.rc().complement())),
            ("[::-1].complement()", lambda: str(seq[::-1].complement())),
            ("complement().rc()", lambda: str(seq.complement().rc())),
        ):
            st, got = call(f)
            out.count(entry)
            if st != "ok" or got != w_rev:
                out.fail(f"Frames:{entry}:{obsname}", rec, entry, w_rev, got, f"{obsname} of {s}")
        for k in range(3):
            if k > len(s):
                continue
            st, got = call(lambda: str(seq[k:].get_translation(**kw)))
            _frame_cmp(rec, out, f"{entry}.slice.get_translation", "plus", k, plus[k], False, st, got)
            st, got = call(lambda: str(seq.rc()[k:].get_translation(**kw)))
            _frame_cmp(rec, out, f"{entry}.rc.slice.get_translation", "minus", k, minus[k], False, st, got)


def check_frames_long(rec, out: Out):
    """long family: whole-sequence translation through sequence objects and collections (both strands)"""
    api = Api.get()
    code, s = rec["code"], J(rec["seq"])
    six = rec["ret"]["six"]
    plus0, minus0 = J(six["plus"][0]), J(six["minus"][0])
    kw = dict(gc=code, include_stop=True, trim_stop=False, incomplete_ok=True)
    entries = [
        ("new-seq-dna", lambda: api.new_seq(s, "dna")),
        ("new-seq-rna", lambda: api.new_seq(s, "rna")),
    ]
    if len(s) <= 4000:
        entries.append(("old-seq-dna", lambda: api.old_seq(s, "dna")))
    for entry, mk in entries:
        st, seq = call(mk)
        if st != "ok":
            out.fail(f"Frames:{entry}:construct", rec, entry, len(s), seq)
            continue
        st, got = call(lambda: str(seq.get_translation(**kw)))
        _frame_cmp(rec, out, f"{entry}.get_translation", "plus", 0, plus0, False, st, got)
        st, got = call(lambda: str(seq.rc().get_translation(**kw)))
        _frame_cmp(rec, out, f"{entry}.rc.get_translation", "minus", 0, minus0, False, st, got)
    colls = [("new-SequenceCollection", lambda: api.new_coll({NAME: s}))]
    if len(s) <= 4000:
        colls += [(e, (lambda e=e: api.old_coll(e, {NAME: s}))) for e in api.old_colls]
    for entry, mk in colls:
        st, coll = call(mk)
        if st != "ok":
            out.fail(f"Frames:{entry}:construct", rec, entry, len(s), coll)
            continue
        st, got = call(lambda: str(coll.get_translation(**kw).to_dict()[NAME]))
        _frame_cmp(rec, out, f"{entry}.get_translation", "plus", 0, plus0, False, st, got)
        st, got = call(lambda: str(coll.rc().get_translation(**kw).to_dict()[NAME]))
        _frame_cmp(rec, out, f"{entry}.rc.get_translation", "minus", 0, minus0, False, st, got)


# -------------------------------------------------------------- stop handling
def _opt_key(args):
    inc, trim, iok = args[:3]
    r = args[3] if len(args) > 3 else "bool"
    return f"include_stop={int(inc)},trim_stop={int(trim)},incomplete_ok={int(iok)}" + ("" if r == "bool" else f",flags-as={r}")


def flag(value, repr_):
    """a truth value in the representation the spec names (FlagReprs)"""
    if repr_ == "bool":
        return bool(value)
    import numpy

    return {"np_bool": numpy.bool_, "int": int, "np_int8": numpy.int8, "np_float32": numpy.float32}[repr_](value)


def _classify(observed, allowed):
    vals = [a for a in allowed if a != REJECT]
    if observed == REJECT:
        return "raised"
    if not vals:
        return "not-refused"
    v = vals[0]
    if observed == v + "*":
        return "terminal-stop-kept"
    if observed + "*" == v:
        return "terminal-stop-trimmed"
    if observed.replace("*", "") == v.replace("*", "") and observed.count("*") < v.count("*"):
        return "stop-dropped"
    return "wrong-protein"


def _gt_key(rec, entry, allowed, diag, st, got, observed):
    """Structural key of a get_translation disagreement (root causes first)."""
    diff = _classify(observed, allowed)
    opts = _opt_key(rec["args"])
    inc, trim, _ = rec["args"][:3]
    old_style = entry.startswith("old-") or entry.startswith("app.")
    if empty_codon_error(st, got) and "" in (list(allowed) + [diag["trimmed"]]):
        # nothing (left) to translate: the terminal-stop test is applied to an empty codon
        return f"GetTranslation:{family(entry)}:nothing-to-translate:raised-InvalidCodonError"
    if entry == "old-seq-rna" and diff == "raised" and "unresolvable codon" in str(got):
        return "GetTranslation:old-seq-rna:every-codon-unresolvable"
    if old_style and inc and trim and diff == "terminal-stop-kept":
        return "GetTranslation:old-style:include_stop-overrides-trim_stop:terminal-stop-kept"
    if old_style and is_aligned(entry) and not trim and observed == diag["trimmed"]:
        return f"GetTranslation:{family(entry)}:aligned:trim_stop-false-ignored"
    if old_style and not entry.startswith("old-seq") and trim and observed == diag["trimmed_twice"]:
        return f"GetTranslation:{family(entry)}:terminal-stop-trimmed-twice"
    return None


def _gt_compare(rec, out, entry, allowed, diag, st, got, info):
    out.count(entry)
    observed = REJECT if st == "raised" else got
    if observed in allowed:
        if observed == REJECT and len(allowed) > 1:
            out.unsupported += 1
        return
    key = _gt_key(rec, entry, allowed, diag, st, got, observed)
    opts = _opt_key(rec["args"])
    if key is None:
        key = f"GetTranslation:{entry}:{opts}:Lmod3={len(rec['seq']) % 3}:{info}:{_classify(observed, allowed)}{long_class(rec)}"
    out.fail(key, rec, entry, allowed, got if st == "raised" else observed, f"get_translation({opts}) of {seq_txt(rec)} code {rec['code']}")


def check_get_translation(rec, out: Out):
    api = Api.get()
    code, s = rec["code"], J(rec["seq"])
    inc, trim, iok = rec["args"][:3]
    fr = rec["args"][3]
    allowed = [J(a) for a in rec["ret"]["allowed"]]
    diag = {k: J(v) for k, v in rec["ret"]["diag"].items()}
    info = "stop" if any("*" in a for a in allowed) or REJECT in allowed else "nostop"
    kw = dict(gc=code, incomplete_ok=flag(iok, fr), include_stop=flag(inc, fr), trim_stop=flag(trim, fr))
    for entry, mk, mt in (
        ("old-seq-dna", api.old_seq, "dna"),
        ("old-seq-rna", api.old_seq, "rna"),
        ("new-seq-dna", api.new_seq, "dna"),
        ("new-seq-rna", api.new_seq, "rna"),
    ):
        st, seq = call(lambda: mk(s, mt))
        if st != "ok":
            out.fail(f"GetTranslation:{entry}:construct", rec, entry, s, seq)
            continue
        st, got = call(lambda: str(seq.get_translation(**kw)))
        _gt_compare(rec, out, entry, allowed, diag, st, got, info)
    for entry in api.old_colls:
        st, coll = call(lambda: api.old_coll(entry, {NAME: s}))
        if st != "ok":
            out.fail(f"GetTranslation:{entry}:construct", rec, entry, s, coll)
            continue
        st, got = call(lambda: member(entry, coll.get_translation(**kw).to_dict(), NAME))
        _gt_compare(rec, out, entry, allowed, diag, st, got, info)
        if not inc and not iok:
            app = api.translate_seqs(code, trim, fr)
            st, got = call(lambda: app(coll))
            if st == "ok":
                if type(got).__name__ == "NotCompleted":
                    st, got = "raised", str(got.message).strip().splitlines()[-1][:160]
                else:
                    got = member(entry, got.to_dict(), NAME)
            _gt_compare(rec, out, f"app.translate_seqs({entry[4:]})", allowed, diag, st, got, info)
    st, coll = call(lambda: api.new_coll({NAME: s}))
    if st != "ok":
        out.fail("GetTranslation:new-SequenceCollection:construct", rec, "new-SequenceCollection", s, coll)
    else:
        st, got = call(lambda: str(coll.get_translation(**kw).to_dict()[NAME]))
        _gt_compare(rec, out, "new-SequenceCollection", allowed, diag, st, got, info)


def _stop_compare(rec, out, entry, op, want, st, got):
    out.count(entry)
    observed = "REJECT" if st == "raised" else got
    if observed == want:
        return
    L = len(rec["seq"])
    strict = int(rec["args"][0])
    fr_sfx = "" if rec["args"][1] == "bool" else f":flags-as={rec['args'][1]}"
    if L == 0 and empty_codon_error(st, got):
        key = f"StopOps:{family(entry)}:{op}:empty-seq:raised-InvalidCodonError"
    else:
        if st == "raised":
            diff = "raised"
        elif want == "REJECT":
            diff = "not-refused"
        else:
            diff = "wrong"
        key = f"StopOps:{entry}:{op}:strict={strict}{fr_sfx}:Lmod3={L % 3}:{diff}"
    out.fail(key, rec, entry, want, got, f"{op}(strict={bool(strict)}) of {seq_txt(rec)} code {rec['code']}")


def check_stop_ops(rec, out: Out):
    api = Api.get()
    code, s = rec["code"], J(rec["seq"])
    strict = flag(rec["args"][0], rec["args"][1])
    want_has = rec["ret"]["has"]
    want_trim = J(rec["ret"]["trim"])
    want_trim = "REJECT" if want_trim == REJECT else want_trim
    tf = lambda b: "TRUE" if b else "FALSE"  # noqa: E731
    for entry, mk, mt in (
        ("old-seq-dna", api.old_seq, "dna"),
        ("old-seq-rna", api.old_seq, "rna"),
        ("new-seq-dna", api.new_seq, "dna"),
        ("new-seq-rna", api.new_seq, "rna"),
    ):
        st, seq = call(lambda: mk(s, mt))
        if st != "ok":
            out.fail(f"StopOps:{entry}:construct", rec, entry, s, seq)
            continue
        st, got = call(lambda: tf(seq.has_terminal_stop(gc=code, strict=strict)))
        _stop_compare(rec, out, entry, "has_terminal_stop", want_has, st, got)
        st, got = call(lambda: str(seq.trim_stop_codon(gc=code, strict=strict)))
        w = to_rna(want_trim) if mt == "rna" and want_trim != "REJECT" else want_trim
        _stop_compare(rec, out, entry, "trim_stop_codon", w, st, got)
    colls = [(e, (lambda e=e: api.old_coll(e, {NAME: s}))) for e in api.old_colls]
    colls.append(("new-SequenceCollection", lambda: api.new_coll({NAME: s})))
    for entry, mk in colls:
        st, coll = call(mk)
        if st != "ok":
            out.fail(f"StopOps:{entry}:construct", rec, entry, s, coll)
            continue
        st, got = call(lambda: tf(coll.has_terminal_stop(gc=code, strict=strict)))
        _stop_compare(rec, out, entry, "has_terminal_stop", want_has, st, got)
        st, got = call(lambda: member(entry, coll.trim_stop_codons(gc=code, strict=strict).to_dict(), NAME))
        _stop_compare(rec, out, entry, "trim_stop_codons", want_trim, st, got)


# --------------------------------------------- reading-frame selection (apps)
def check_select(rec, out: Out):
    """app.translate: select_translatable (then translate_seqs) and best_frame with their non-default arguments"""
    api = Api.get()
    code, s = rec["code"], J(rec["seq"])
    allow_rc, frame, trim = rec["args"]
    allowed = [(o[0][0], J(o[1]), J(o[2])) for o in rec["ret"]["allowed"]]
    best = rec["ret"]["best"]
    L = len(s)
    where = f"best={best[0] if len(best) == 1 else ('none' if not best else 'several')}:Lmod3={L % 3}"
    opts = f"allow_rc={int(allow_rc)}:frame={frame or 'None'}:trim={int(trim)}"
    st, coll = call(lambda: api.old_coll("old-SequenceCollection", {NAME: s}))
    if st != "ok":
        out.fail("Select:construct", rec, "old-SequenceCollection", s, coll)
        return
    entry = "app.select_translatable"
    st, app = call(lambda: api.app.select_translatable(moltype="dna", gc=code, allow_rc=allow_rc, trim_terminal_stop=trim, frame=frame or None))
    st, got = call(lambda: app(coll)) if st == "ok" else (st, app)
    out.count(entry)
    res = None
    if st == "ok" and type(got).__name__ == "NotCompleted":
        st, got = "raised", str(got.message).strip().splitlines()[-1][:160]
    if st == "raised":
        if allowed:
            out.fail(f"Select:{entry}:{opts}:{where}:refused", rec, entry, [a[1] for a in allowed], got, f"select_translatable({opts}) of {s} code {code}")
    else:
        d = got.to_dict()
        res = d.get(NAME)
        hit = [a for a in allowed if a[1] == res]
        if not hit:
            if not allowed:
                diff = "not-refused"
            elif res is not None and any(len(res) == len(a[1]) for a in allowed):
                diff = "out-of-frame"
            else:
                diff = "wrong-extent"
            out.fail(f"Select:{entry}:{opts}:{where}:{diff}", rec, entry, [a[1] for a in allowed], res, f"select_translatable({opts}) of {s} code {code}")
        else:
            # the selected sequences translate, in frame, to the protein the table gives
            entry2 = "app.select_translatable+translate_seqs"
            st, pep = call(lambda: api.translate_seqs(code, True)(got))
            out.count(entry2)
            if st == "ok" and type(pep).__name__ == "NotCompleted":
                st, pep = "raised", str(pep.message).strip().splitlines()[-1][:160]
            obs = pep.to_dict().get(NAME) if st == "ok" else pep
            if obs != hit[0][2]:
                out.fail(f"Select:{entry2}:{opts}:{where}:{'refused' if st == 'raised' else 'wrong-protein'}", rec, entry2, hit[0][2], obs)
    if frame == 0 and trim:
        entry = "app.best_frame"
        st, got = call(lambda: api.app.best_frame(api.old_seq(s, "dna"), gc=code, allow_rc=allow_rc))
        out.count(entry)
        want = sorted(a[0] for a in allowed)
        if st == "raised":
            if want:
                out.fail(f"Select:{entry}:allow_rc={int(allow_rc)}:{where}:refused", rec, entry, want, got)
        elif got not in want:
            out.fail(f"Select:{entry}:allow_rc={int(allow_rc)}:{where}:{'not-refused' if not want else 'wrong-frame'}", rec, entry, want, got)


# ------------------------------------------------------ collections of 2 seqs
def _pair_colls(api, s1, s2):
    data = {"s1": s1, "s2": s2}
    colls = [(e, (lambda e=e: api.old_coll(e, data))) for e in api.old_colls]
    colls.append(("new-SequenceCollection", lambda: api.new_coll(data)))
    return colls


def check_pair_get_translation(rec, out: Out):
    api = Api.get()
    code = rec["code"]
    s1, s2 = J(rec["seq"]), J(rec["seq2"])
    inc, trim, iok = rec["args"]
    allowed = [[J(a) for a in m] for m in rec["ret"]["allowed"]]
    diags = [{k: J(v) for k, v in d.items()} for d in rec["ret"]["diag"]]
    may_reject = any(REJECT in m for m in allowed)
    kw = dict(gc=code, incomplete_ok=iok, include_stop=inc, trim_stop=trim)
    opts = _opt_key(rec["args"])
    names = ("s1", "s2")

    def compare(entry, st, got):
        out.count(entry)
        if st == "raised":
            if may_reject:
                return
            keys = {_gt_key(rec, entry, allowed[i], diags[i], st, got, REJECT) for i in range(2)} - {None}
            key = sorted(keys)[0] if keys else f"PairGetTranslation:{entry}:{opts}:raised"
            out.fail(key, rec, entry, allowed, got, f"collection get_translation({opts}) of {s1},{s2} code {code}")
            return
        bad = [i for i in range(2) if got[names[i]] not in allowed[i]]
        if not bad:
            return
        keys = {_gt_key(rec, entry, allowed[i], diags[i], st, got, got[names[i]]) for i in bad}
        if None in keys or len(keys) != 1:
            diff = ",".join(sorted({_classify(got[names[i]], allowed[i]) for i in bad}))
            key = f"PairGetTranslation:{entry}:{opts}:{diff}"
        else:
            key = keys.pop()
        out.fail(key, rec, entry, allowed, got, f"collection get_translation({opts}) of {s1},{s2} code {code}")

    for entry, mk in _pair_colls(api, s1, s2):
        st, coll = call(mk)
        if st != "ok":
            out.fail(f"PairGetTranslation:{entry}:construct", rec, entry, [s1, s2], coll)
            continue
        st, got = call(lambda: {n: member(entry, coll.get_translation(**kw).to_dict(), n) for n in names})
        compare(entry, st, got)
        if entry.startswith("old-") and not inc and not iok:
            app = api.translate_seqs(code, trim)
            st, got = call(lambda: app(coll))
            if st == "ok":
                if type(got).__name__ == "NotCompleted":
                    st, got = "raised", str(got.message).strip().splitlines()[-1][:160]
                else:
                    d = got.to_dict()
                    got = {n: member(entry, d, n) for n in names}
            compare(f"app.translate_seqs({entry[4:]})", st, got)


def check_pair_stop_ops(rec, out: Out):
    api = Api.get()
    code = rec["code"]
    s1, s2 = J(rec["seq"]), J(rec["seq2"])
    want_has = bool(rec["ret"]["has"])
    want_trim = {"s1": J(rec["ret"]["trim"][0]), "s2": J(rec["ret"]["trim"][1])}
    for entry, mk in _pair_colls(api, s1, s2):
        st, coll = call(mk)
        if st != "ok":
            out.fail(f"PairStopOps:{entry}:construct", rec, entry, [s1, s2], coll)
            continue
        st, got = call(lambda: bool(coll.has_terminal_stop(gc=code)))
        out.count(entry)
        if st != "ok" or got != want_has:
            out.fail(f"PairStopOps:{entry}:has_terminal_stop", rec, entry, want_has, got)
        st, got = call(lambda: {n: member(entry, coll.trim_stop_codons(gc=code).to_dict(), n) for n in ("s1", "s2")})
        out.count(entry)
        if st != "ok" or got != want_trim:
            out.fail(f"PairStopOps:{entry}:trim_stop_codons", rec, entry, want_trim, got)
        # aligned classes must keep the alignment length
        if entry in ALIGNED and st == "ok":
            st2, lens = call(lambda: {len(v) for v in coll.trim_stop_codons(gc=code).to_dict().values()})
            out.count(entry)
            if st2 != "ok" or lens != {len(s1)}:
                out.fail(f"PairStopOps:{entry}:trim_stop_codons:length", rec, entry, len(s1), lens)


# ----------------------------------------------------------------------- IUPAC
def check_sym(rec, out: Out):
    api = Api.get()
    mt, x = rec["mt"], rec["seq"][0]
    exp = rec["ret"]
    for entry, m in (("old-moltype", api.old_mt[mt]), ("new-moltype", api.new_mt[mt])):
        def cmp(obsname, want, f, entry=entry):
            st, got = call(f)
            out.count(entry)
            if st != "ok" or got != want:
                cls = "canonical" if len(exp["resolve"]) == 1 and x not in "-?" else ("gap-or-missing" if x in "-?" else "degenerate")
                out.fail(f"Sym:{entry}:{mt}:{obsname}:{cls}", rec, entry, want, got, f"{obsname}({x!r}) for {mt}")

        cmp("complement", exp["comp"], lambda: m.complement(x))
        cmp("rc", exp["comp"], lambda: m.rc(x))
        cmp("is_degenerate", exp["degenerate"], lambda: bool(m.is_degenerate(x)))
        cmp("is_ambiguity", exp["degenerate"], lambda: bool(m.is_ambiguity(x)))
        if x not in "-?":
            # '-' and '?' resolve according to the allow_gap option; only base symbols are in scope
            cmp("resolve_ambiguity", sorted(exp["resolve"]), lambda: sorted(m.resolve_ambiguity(x)))
            cmp("degenerate_from_seq(resolve)", x, lambda: m.degenerate_from_seq("".join(m.resolve_ambiguity(x))))
            if entry == "old-moltype":
                cmp("what_ambiguity(resolve)", x, lambda: m.what_ambiguity(m.resolve_ambiguity(x)))


def check_encode(rec, out: Out):
    api = Api.get()
    mt, S = rec["mt"], sorted(rec["set"])
    want = rec["ret"]
    fwd, bwd = "".join(S), "".join(reversed(S))
    for entry, m in (("old-moltype", api.old_mt[mt]), ("new-moltype", api.new_mt[mt])):
        fns = [("degenerate_from_seq", m.degenerate_from_seq)]
        if hasattr(m, "what_ambiguity"):
            fns.append(("what_ambiguity", m.what_ambiguity))
        for name, fn in fns:
            for arg in (fwd, bwd, fwd + fwd):
                st, got = call(lambda: fn(arg))
                out.count(entry)
                if st != "ok" or got != want:
                    out.fail(f"Encode:{entry}:{mt}:{name}:size={len(S)}", rec, entry, want, got, f"{name}({arg!r})")
            # and back
            st, got = call(lambda: sorted(m.resolve_ambiguity(fn(fwd))))
            out.count(entry)
            if st != "ok" or got != S:
                out.fail(f"Encode:{entry}:{mt}:resolve-of-{name}:size={len(S)}", rec, entry, S, got)


def check_rc_str(rec, out: Out):
    api = Api.get()
    mt, s = rec["mt"], J(rec["seq"])
    comp, rc = J(rec["ret"]["comp"]), J(rec["ret"]["rc"])
    cls = "with-gap-or-missing" if ("-" in s or "?" in s) else "iupac"

    def cmp(entry, obsname, want, f):
        st, got = call(f)
        out.count(entry)
        if st != "ok" or got != want:
            out.fail(f"RcStr:{entry}:{mt}:{obsname}:{cls}", rec, entry, want, got, f"{obsname}({s!r}) for {mt}")

    rc_comp, comp_rc, rc_rc = J(rec["ret"]["rc_comp"]), J(rec["ret"]["comp_rc"]), J(rec["ret"]["rc_rc"])

    def two_step(entry, x):
        """x is a real sequence object holding s: the composed forms, on views that are already reversed"""
        cmp(entry, "rc().complement()", rc_comp, lambda: str(x.rc().complement()))
        cmp(entry, "[::-1].complement()", rc_comp, lambda: str(x[::-1].complement()))
        cmp(entry, "complement().rc()", comp_rc, lambda: str(x.complement().rc()))
        cmp(entry, "rc().rc()", rc_rc, lambda: str(x.rc().rc()))
        cmp(entry, "rc().rc().complement()", comp, lambda: str(x.rc().rc().complement()))
        cmp(entry, "rc().complement().complement()", rc, lambda: str(x.rc().complement().complement()))

    for entry, m in (("old-moltype", api.old_mt[mt]), ("new-moltype", api.new_mt[mt])):
        cmp(entry, "complement", comp, lambda: m.complement(s))
        cmp(entry, "rc", rc, lambda: m.rc(s))
        cmp(entry, "rc-rc", rc_rc, lambda: m.rc(m.rc(s)))
        cmp(entry, "complement-of-rc", rc_comp, lambda: m.complement(m.rc(s)))
        cmp(entry, "rc-of-complement", comp_rc, lambda: m.rc(m.complement(s)))
    # ---- the argument in every representation the moltype functions accept
    byrepr = rec["ret"]["byrepr"]
    om, nm_ = api.old_mt[mt], api.new_mt[mt]
    objects = bool(s) and len(s) <= 2  # sequence objects: strings of length 1 and 2

    def text(v):
        if isinstance(v, (list, tuple)):
            return "".join(v)
        if isinstance(v, bytes):
            return v.decode("utf8")
        if type(v).__name__ == "ndarray":
            return "".join(nm_.degen_gapped_alphabet.from_indices(v))
        return str(v)

    makers = {
        ("old-moltype", "str"): lambda: s,
        ("old-moltype", "list"): lambda: list(s),
        ("old-moltype", "tuple"): lambda: tuple(s),
        ("new-moltype", "str"): lambda: s,
        ("new-moltype", "bytes"): lambda: s.encode("utf8"),
        ("new-moltype", "ndarray"): lambda: nm_.degen_gapped_alphabet.to_indices(s),
    }
    if objects:
        makers[("old-moltype", "old-seq")] = lambda: api.cogent3.make_seq(s, name=NAME, moltype=mt)
        makers[("old-moltype", "old-array-seq")] = lambda: om.make_array_seq(s, name=NAME)
    for (entry, repr_), mk in makers.items():
        m = om if entry == "old-moltype" else nm_
        st, arg = call(mk)
        if st != "ok":
            out.fail(f"RcStr:{entry}:{mt}:construct[{repr_}]:{cls}", rec, entry, s, arg)
            continue
        want = byrepr[repr_]
        for obsname, w, f in (("complement", J(want["comp"]), lambda: m.complement(arg)), ("rc", J(want["rc"]), lambda: m.rc(arg))):
            st, got = call(lambda: text(f()))
            out.count(entry)
            if st != "ok" or got != w:
                out.fail(f"RcStr:{entry}:{mt}:{obsname}[{repr_}]:{cls}", rec, entry, w, got, f"{obsname}({repr_} {s!r}) for {mt}")
        if repr_ in ("list", "tuple", "old-seq", "old-array-seq", "bytes"):
            # the documented "same type as the input"
            st, got = call(lambda: type(m.rc(arg)) is type(arg))
            out.count(entry)
            if st != "ok" or got is not True:
                out.fail(f"RcStr:{entry}:{mt}:rc-result-type[{repr_}]:{cls}", rec, entry, type(arg).__name__, got)
    if not objects:
        return
    st, seq = call(lambda: api.cogent3.make_seq(s, name=NAME, moltype=mt))
    if st != "ok":
        out.fail(f"RcStr:old-seq:{mt}:construct:{cls}", rec, "old-seq", s, seq)
    else:
        cmp("old-seq", "complement", comp, lambda: str(seq.complement()))
        cmp("old-seq", "rc", rc, lambda: str(seq.rc()))
        two_step("old-seq", seq)
    st, seq = call(lambda: api.new_mt[mt].make_seq(seq=s, name=NAME))
    if st != "ok":
        out.fail(f"RcStr:new-seq:{mt}:construct:{cls}", rec, "new-seq", s, seq)
    else:
        cmp("new-seq", "complement", comp, lambda: str(seq.complement()))
        cmp("new-seq", "rc", rc, lambda: str(seq.rc()))
        two_step("new-seq", seq)
    if len(s) == 2:
        # members of (reverse-complemented) collections
        for entry, klass in api.old_colls.items():
            st, coll = call(lambda: klass(data={NAME: s}, moltype=mt))
            if st != "ok":
                continue
            getter = "get_gapped_seq" if entry in ALIGNED else "get_seq"
            cmp(entry, "rc", rc, lambda: coll.rc().to_dict()[NAME])
            cmp(entry, "rc().rc()", rc_rc, lambda: coll.rc().rc().to_dict()[NAME])
            cmp(entry, "member.complement()", comp, lambda: str(getattr(coll, getter)(NAME).complement()))
            cmp(entry, "rc().member.complement()", rc_comp, lambda: str(getattr(coll.rc(), getter)(NAME).complement()))
            cmp(entry, "rc().member.rc()", rc_rc, lambda: str(getattr(coll.rc(), getter)(NAME).rc()))
        st, coll = call(lambda: api.new_aln.make_unaligned_seqs({NAME: s}, moltype=mt))
        if st == "ok":
            entry = "new-SequenceCollection"
            cmp(entry, "rc", rc, lambda: coll.rc().to_dict()[NAME])
            cmp(entry, "rc().rc()", rc_rc, lambda: coll.rc().rc().to_dict()[NAME])
            cmp(entry, "member.complement()", comp, lambda: str(coll.seqs[NAME].complement()))
            cmp(entry, "rc().member.complement()", rc_comp, lambda: str(coll.rc().seqs[NAME].complement()))
            cmp(entry, "rc().get_seq.complement()", rc_comp, lambda: str(coll.rc().get_seq(NAME).complement()))
            cmp(entry, "rc().member.rc()", rc_rc, lambda: str(coll.rc().seqs[NAME].rc()))


def check_prot_sym(rec, out: Out):
    api = Api.get()
    x = rec["seq"][0]
    want = sorted(rec["ret"])
    for entry, m in (("old-moltype", api.old_mt["protein"]), ("new-moltype", api.new_mt["protein"])):
        checks = [
            ("resolve_ambiguity", want, lambda: sorted(m.resolve_ambiguity(x))),
            ("degenerate_from_seq", x, lambda: m.degenerate_from_seq("".join(want))),
        ]
        if hasattr(m, "what_ambiguity"):
            checks.append(("what_ambiguity", x, lambda: m.what_ambiguity(want)))
        for obsname, w, f in checks:
            st, got = call(f)
            out.count(entry)
            if st != "ok" or got != w:
                out.fail(f"ProtSym:{entry}:{obsname}", rec, entry, w, got, f"{obsname} for {x}")


DISPATCH = {
    "Codon": check_codon,
    "Synonyms": check_synonyms,
    "GetTranslation": check_get_translation,
    "StopOps": check_stop_ops,
    "Select": check_select,
    "PairGetTranslation": check_pair_get_translation,
    "PairStopOps": check_pair_stop_ops,
    "Sym": check_sym,
    "Encode": check_encode,
    "RcStr": check_rc_str,
    "ProtSym": check_prot_sym,
}
