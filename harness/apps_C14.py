"""Test apps for C14 (importable by loky worker processes: /verif/harness is on PYTHONPATH).

A composed app `c14_load + c14_g1 + c14_g2 + <writer>` is driven by a *plan*:
    plan[name] = [outcome of step 1 (loader), outcome of step 2 (g1), outcome of step 3 (g2)]
with outcome in  ok | raise | none | wrong | nc  (ComposedApp.tla, Outcomes).  Each
step's `main` looks up the record it is working on by the *name of its data source*
and enacts the outcome the plan (chosen by TLC) prescribes; nothing here decides what
the store should contain afterwards - that is the spec's `written`.

Control of the schedule (parallel runs), all inside the loader's `main`:
  ctl/started/<name>   written when a worker picked the task up
  ctl/gate/<name>      the task blocks until the harness' scheduler creates this file
  delays[name]         un-gated runs: the task sleeps that long instead
  ctl/stamp/<name>     "start_ns complete_ns" (time.monotonic_ns, system wide on Linux)
"""
import os
import time
from pathlib import Path
from typing import Union

from cogent3 import make_unaligned_seqs
from cogent3.app.composable import LOADER, NotCompleted, define_app
from cogent3.app.data_store import get_data_source, get_unique_id
from cogent3.app.typing import IdentifierType, SerialisableType, UnalignedSeqsType

GATE_TIMEOUT = float(os.environ.get("VERIF_C14_GATE_TIMEOUT", "400"))


class C14Error(Exception):
    """what a failing step raises"""


class GateTimeout(BaseException):
    """harness machinery failure (never captured into a NotCompleted: not an Exception)"""


T = Union[SerialisableType, UnalignedSeqsType]


def _name_of(val) -> str:
    return get_unique_id(get_data_source(val))


def _enact(app_name, step, plan, val, source, ok, trail):
    """what `main` of step `step` does with `val` (data source `source`)"""
    name = get_unique_id(source)
    out = plan[name][step - 1]
    if out == "ok":
        return ok()
    if out == "raise":
        raise C14Error(f"boom {name} step {step}")
    if out == "none":
        return None
    if out == "wrong":
        # a value of a type the next step does not accept; it still names its source
        return {"source": source, "c14_wrong_from": step, "c14_trail": list(trail)}
    if out == "nc":
        return NotCompleted("FAIL", app_name, f"c14-fail {name} step {step}", source=source)
    raise GateTimeout(f"unknown outcome {out!r}")


@define_app(app_type=LOADER)
class c14_load:
    """step 1: reads one fasta record into a SequenceCollection"""

    def __init__(self, plan, ctl="", gated=False, delays=None):
        self.plan = plan
        self.ctl = ctl
        self.gated = gated
        self.delays = delays or {}

    def _schedule(self, name):
        if not self.ctl:
            return
        ctl = Path(self.ctl)
        t0 = time.monotonic_ns()
        (ctl / "started" / name).write_text(str(os.getpid()))
        if self.gated:
            gate = ctl / "gate" / name
            deadline = time.monotonic() + GATE_TIMEOUT
            while not gate.exists():
                if time.monotonic() > deadline:
                    raise GateTimeout(f"gate for {name} never opened")
                time.sleep(0.004)
        elif name in self.delays:
            time.sleep(self.delays[name])
        t1 = time.monotonic_ns()
        tmp = ctl / "stamp" / f".{name}.{os.getpid()}"
        tmp.write_text(f"{t0} {t1}")
        os.replace(tmp, ctl / "stamp" / name)

    def main(self, path: IdentifierType) -> T:
        source = get_data_source(path)
        name = get_unique_id(source)
        self._schedule(name)

        def ok():
            text = path.read() if hasattr(path, "read") else Path(path).read_text()
            lines = [l.strip() for l in text.splitlines() if l.strip()]
            data = {lines[i][1:]: lines[i + 1] for i in range(0, len(lines), 2)}
            return make_unaligned_seqs(data, moltype="dna", info={"source": str(path)})

        return _enact("c14_load", 1, self.plan, path, source, ok, [])


def _trail(seqs):
    return [1] + sorted(int(n[1:]) for n in seqs.names if n.startswith("g"))


def _extend(seqs, step):
    data = seqs.to_dict()
    data[f"g{step}"] = "ACGT"[: step]
    return make_unaligned_seqs(data, moltype="dna", info={"source": seqs.info.source})


@define_app
class c14_g1:
    """step 2"""

    def __init__(self, plan: dict):
        self.plan = plan

    def main(self, seqs: UnalignedSeqsType) -> T:
        return _enact("c14_g1", 2, self.plan, seqs, get_data_source(seqs), lambda: _extend(seqs, 2), _trail(seqs))


@define_app
class c14_g2:
    """step 3"""

    def __init__(self, plan: dict):
        self.plan = plan

    def main(self, seqs: UnalignedSeqsType) -> T:
        return _enact("c14_g2", 3, self.plan, seqs, get_data_source(seqs), lambda: _extend(seqs, 3), _trail(seqs))


STEP_OF_ORIGIN = {"c14_load": 1, "c14_g1": 2, "c14_g2": 3, "write_seqs": 4, "write_json": 4, "write_db": 4}
