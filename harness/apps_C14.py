"""Test apps for C14 (importable by loky worker processes: /verif/harness is on PYTHONPATH).

A composed app `<loader> + <step 2> + <step 3> + <writer>` is driven by a *plan*:
    plan[name] = [outcome of step 1 (loader), outcome of step 2, outcome of step 3]
with outcome in  ok | raise | none | wrong | nc  (ComposedApp.tla, Outcomes).  Each step's
`main` finds out which record it is working on and enacts the outcome the plan (chosen by
TLC) prescribes; nothing here decides what the store should contain afterwards - that is
the spec's `written`.

Two families instantiate the outcome classes with different VALUE CLASSES (vclass[name]):

  c14_load + c14_g1 + c14_g2      steps typed on SequenceCollection; the values that flow are
                                  cogent3 objects with info.source; vclass is the class of
                                  the wrongly typed value a `wrong` step returns:
                                    dict_source     {"source": ...}              names its source
                                    dict_info       {"info": {"source": ...}}    names its source
                                    dict_info_none  {"info": None, ...} as Sequence.to_rich_dict()
                                                    / a json record has it       does not
                                    dict_plain      no info, no source           does not
  c14_vload + c14_v1 + c14_v2     steps accept dict | str | bytes | SequenceCollection; vclass is
                                  the class of the value that flows from step to step, i.e. of
                                  the value handed to the step that fails:
                                    seqs, dict_info, str path                    name their source
                                    dict_info_none, dict_plain, bytes            do not
  c14_load + c14_fn + c14_g2      as the first, but step 2 is a FUNCTION style app constructed with a
                                  list and a dict argument that its body changes in place; its output
                                  carries what the call found in them (sequence "arg")
                                  STEP TYPING (value family): step 3 is c14_v2 (concretely typed) or one of
                                  c14_v2s_* / c14_v2i_* hinted SerialisableType / IdentifierType,
                                  i.e. accepting anything, whose main would (attr) / would not
                                  (safe) raise when handed a NotCompleted

Control of the schedule (parallel runs), all inside the loader's `main`:
  ctl/started/<name>   written when a worker picked the task up
  ctl/gate/<name>      the task blocks until the harness' scheduler creates this file
  delays[name]         un-gated runs: the task sleeps that long instead
  ctl/stamp/<name>     "start_ns complete_ns" (time.monotonic_ns, system wide on Linux)
"""
import os
import time
from pathlib import Path
from typing import Union

from cogent3 import make_unaligned_seqs
from cogent3.app.composable import LOADER, NotCompleted, define_app
from cogent3.app.data_store import get_data_source, get_unique_id
from cogent3.app.typing import IdentifierType, SerialisableType, UnalignedSeqsType

GATE_TIMEOUT = float(os.environ.get("VERIF_C14_GATE_TIMEOUT", "400"))

NAMED_WRONG = ("dict_source", "dict_info")
UNNAMED_WRONG = ("dict_info_none", "dict_plain")
NAMED_VALUES = ("seqs", "dict_info", "str")
UNNAMED_VALUES = ("dict_info_none", "dict_plain", "bytes")


class C14Error(Exception):
    """what a failing step raises"""


class GateTimeout(BaseException):
    """harness machinery failure (never captured into a NotCompleted: not an Exception)"""


T = Union[SerialisableType, UnalignedSeqsType]


def _wrong_value(vclass, name, source, step, trail):
    """a value of a type the next step does not accept"""
    d = {"c14_name": name, "c14_wrong_from": step, "c14_trail": list(trail)}
    if vclass == "dict_source":
        d["source"] = source
    elif vclass == "dict_info":
        d["info"] = {"source": source}
    elif vclass == "dict_info_none":
        d.update({"name": name, "seq": "ACGT", "moltype": "dna", "info": None})
    elif vclass != "dict_plain":
        raise GateTimeout(f"unknown wrong-value class {vclass!r}")
    return d


def _enact(app_name, step, plan, name, val, nc_source, ok, wrong):
    """what `main` of step `step` does with `val`, a value of the record called `name`"""
    out = plan[name][step - 1]
    if out == "ok":
        return ok()
    if out == "raise":
        raise C14Error(f"boom {name} step {step}")
    if out == "none":
        return None
    if out == "wrong":
        return wrong()
    if out == "nc":
        return NotCompleted("FAIL", app_name, f"c14-fail {name} step {step}", source=nc_source)
    raise GateTimeout(f"unknown outcome {out!r}")


def _schedule(app, name):
    if not app.ctl:
        return
    ctl = Path(app.ctl)
    t0 = time.monotonic_ns()
    (ctl / "started" / name).write_text(str(os.getpid()))
    if app.gated:
        gate = ctl / "gate" / name
        deadline = time.monotonic() + GATE_TIMEOUT
        while not gate.exists():
            if time.monotonic() > deadline:
                raise GateTimeout(f"gate for {name} never opened")
            time.sleep(0.004)
    elif name in app.delays:
        time.sleep(app.delays[name])
    t1 = time.monotonic_ns()
    tmp = ctl / "stamp" / f".{name}.{os.getpid()}"
    tmp.write_text(f"{t0} {t1}")
    os.replace(tmp, ctl / "stamp" / name)


def _read_record(path):
    text = path.read() if hasattr(path, "read") else Path(path).read_text()
    lines = [l.strip() for l in text.splitlines() if l.strip()]
    return {lines[i][1:]: lines[i + 1] for i in range(0, len(lines), 2)}


# ------------------------------------------------------------------ sequence family
@define_app(app_type=LOADER)
class c14_load:
    """step 1: reads one fasta record into a SequenceCollection"""

    def __init__(self, plan, ctl="", gated=False, delays=None, vclass=None):
        self.plan = plan
        self.ctl = ctl
        self.gated = gated
        self.delays = delays or {}
        self.vclass = vclass or {}

    def main(self, path: IdentifierType) -> T:
        source = get_data_source(path)
        name = get_unique_id(source)
        _schedule(self, name)

        def ok():
            return make_unaligned_seqs(_read_record(path), moltype="dna", info={"source": str(path)})

        def wrong():
            return _wrong_value(self.vclass.get(name, "dict_source"), name, source, 1, [])

        return _enact("c14_load", 1, self.plan, name, path, source, ok, wrong)


def _trail(seqs):
    return [1] + sorted(int(n[1:]) for n in seqs.names if n.startswith("g") and n[1:].isdigit())


def _extend(seqs, step):
    data = seqs.to_dict()
    data[f"g{step}"] = "ACGT"[: step]
    return make_unaligned_seqs(data, moltype="dna", info={"source": seqs.info.source})


def _seq_step(app, app_name, step, seqs):
    source = get_data_source(seqs)
    name = get_unique_id(source)
    return _enact(
        app_name, step, app.plan, name, seqs, source,
        lambda: _extend(seqs, step),
        lambda: _wrong_value(app.vclass.get(name, "dict_source"), name, source, step, _trail(seqs)),
    )


@define_app
class c14_g1:
    """step 2"""

    def __init__(self, plan, vclass=None):
        self.plan = plan
        self.vclass = vclass or {}

    def main(self, seqs: UnalignedSeqsType) -> T:
        return _seq_step(self, "c14_g1", 2, seqs)


@define_app
class c14_g2:
    """step 3"""

    def __init__(self, plan, vclass=None):
        self.plan = plan
        self.vclass = vclass or {}

    def main(self, seqs: UnalignedSeqsType) -> T:
        return _seq_step(self, "c14_g2", 3, seqs)


# ------------------------------------------- function style step with mutable arguments
ARG0_TICKETS = [1, 2]
ARG0_CFG = {"calls": 0}


def encode_arg(head, left, calls):
    """what a call found in its mutable arguments, as a (valid DNA) sequence of the output"""
    return "A" * head + "C" * left + "G" * calls + "T"


@define_app
def c14_fn(seqs: UnalignedSeqsType, plan, vclass, tickets: list, cfg: dict = None) -> T:
    """step 2 as a FUNCTION style app constructed with a list (positional) and a dict (keyword)
    which it changes in place while it works: it takes the first ticket and counts the call.
    define_app hands every call the arguments as constructed, so no record can see what an
    earlier record did to them (ComposedApp.tla, ArgPristine)"""
    found = encode_arg(tickets[0] if tickets else 0, len(tickets), cfg["calls"])
    tickets.pop(0)  # IndexError once the tickets are used up
    cfg["calls"] += 1
    source = get_data_source(seqs)
    name = get_unique_id(source)

    def ok():
        data = seqs.to_dict()
        data["g2"] = "AC"
        data["arg"] = found
        return make_unaligned_seqs(data, moltype="dna", info={"source": seqs.info.source})

    return _enact(
        "c14_fn", 2, plan, name, seqs, source, ok,
        lambda: _wrong_value(vclass.get(name, "dict_source"), name, source, 2, _trail(seqs)),
    )


# --------------------------------------------------------------------- value family
V = Union[dict, str, bytes, UnalignedSeqsType]
VT = Union[SerialisableType, dict, str, bytes, UnalignedSeqsType]


def value_make(vclass, name, payload, source, trail):
    """the value of class `vclass` that stands for record `name` after the steps in `trail`"""
    if vclass == "seqs":
        data = {"id": payload}
        data.update({f"g{k}": "ACGT"[:k] for k in trail if k > 1})
        return make_unaligned_seqs(data, moltype="dna", info={"source": source})
    if vclass == "str":
        return f"c14v/T{'-'.join(str(k) for k in trail)}/{name}.fasta"
    if vclass == "bytes":
        return f"{name}|{payload}|{','.join(str(k) for k in trail)}".encode("utf8")
    d = {"c14_name": name, "c14_payload": payload, "c14_trail": list(trail)}
    if vclass == "dict_info":
        d["info"] = {"source": source}
    elif vclass == "dict_info_none":
        # the shape of Sequence.to_rich_dict() / of a json record whose "info" is null
        d.update({"name": name, "seq": payload, "moltype": "dna", "info": None})
    elif vclass != "dict_plain":
        raise GateTimeout(f"unknown value class {vclass!r}")
    return d


def value_parts(val):
    """-> (name, payload, trail) of a value made by value_make (no use of cogent3's source lookup)"""
    if isinstance(val, dict):
        return val["c14_name"], val["c14_payload"], list(val["c14_trail"])
    if isinstance(val, bytes):
        name, payload, trail = val.decode("utf8").split("|")
        return name, payload, [int(k) for k in trail.split(",") if k]
    if isinstance(val, str):
        p = Path(val)
        return p.stem, None, [int(k) for k in p.parent.name[1:].split("-") if k]
    d = val.to_dict()
    return Path(val.info.source).stem, d["id"], _trail(val)


@define_app(app_type=LOADER)
class c14_vload:
    """step 1: reads one fasta record into a value of the class chosen for that record"""

    def __init__(self, plan, vclass, payloads, ctl="", gated=False, delays=None):
        self.plan = plan
        self.vclass = vclass
        self.payloads = payloads
        self.ctl = ctl
        self.gated = gated
        self.delays = delays or {}

    def main(self, path: IdentifierType) -> VT:
        source = get_data_source(path)
        name = get_unique_id(source)
        _schedule(self, name)

        def ok():
            payload = _read_record(path)["id"]
            return value_make(self.vclass[name], name, payload, str(path), [1])

        return _enact("c14_vload", 1, self.plan, name, path, path, ok, None)


def _value_step(app, app_name, step, val):
    name, payload, trail = value_parts(val)

    def ok():
        source = val.info.source if hasattr(val, "info") else (val.get("info") or {}).get("source") if isinstance(val, dict) else None
        return value_make(app.vclass[name], name, payload or app.payloads[name], source, trail + [step])

    # a NotCompleted made by the step itself is given the value it was working on as its source
    return _enact(app_name, step, app.plan, name, val, val, ok, None)


@define_app
class c14_v1:
    """step 2"""

    def __init__(self, plan, vclass, payloads):
        self.plan = plan
        self.vclass = vclass
        self.payloads = payloads

    def main(self, val: V) -> VT:
        return _value_step(self, "c14_v1", 2, val)


@define_app
class c14_v2:
    """step 3"""

    def __init__(self, plan, vclass, payloads):
        self.plan = plan
        self.vclass = vclass
        self.payloads = payloads

    def main(self, val: V) -> VT:
        return _value_step(self, "c14_v2", 3, val)


def _make_step3(name, hint, safe):
    """step 3 with an input hint that accepts ANYTHING (SerialisableType / IdentifierType): cogent3
    does no type check for such a step, so only the pass-through rule keeps an upstream
    NotCompleted out of its main().  `safe` = False: main would raise AttributeError on a
    NotCompleted (value_parts calls .to_dict()); `safe` = True: main would not raise on it (it
    describes whatever it gets)"""

    class _Step3:
        def __init__(self, plan, vclass, payloads):
            self.plan = plan
            self.vclass = vclass
            self.payloads = payloads

        def main(self, val):
            if safe and not isinstance(val, (dict, str, bytes)) and not hasattr(val, "to_dict"):
                return {"c14_unrecognised": type(val).__name__, "text": str(val)}
            return _value_step(self, name, 3, val)

    _Step3.main.__annotations__ = {"val": hint, "return": VT}
    _Step3.__name__ = _Step3.__qualname__ = name
    _Step3.__module__ = __name__
    _Step3.__doc__ = "step 3, accepts anything"
    return define_app(_Step3)


c14_v2s_attr = _make_step3("c14_v2s_attr", SerialisableType, False)
c14_v2s_safe = _make_step3("c14_v2s_safe", SerialisableType, True)
c14_v2i_attr = _make_step3("c14_v2i_attr", IdentifierType, False)
c14_v2i_safe = _make_step3("c14_v2i_safe", IdentifierType, True)
STEP3 = {"typed": c14_v2, "ser_attr": c14_v2s_attr, "ser_safe": c14_v2s_safe, "id_attr": c14_v2i_attr, "id_safe": c14_v2i_safe}

STEP_OF_ORIGIN = {
    "c14_load": 1, "c14_g1": 2, "c14_g2": 3, "c14_fn": 2,
    "c14_vload": 1, "c14_v1": 2, "c14_v2": 3,
    "c14_v2s_attr": 3, "c14_v2s_safe": 3, "c14_v2i_attr": 3, "c14_v2i_safe": 3,
    "write_seqs": 4, "write_json": 4, "write_db": 4,
}


# ------------------------------------------------- apps of ComposedAppLinks.tla (links_C14.py)
from cogent3.app.typing import TabularType  # noqa: E402


class LkError(Exception):
    pass


def _lk_add(seqs, mark):
    data = seqs.to_dict()
    data[f"n{len(data)}{mark}"] = "ACGT"
    return make_unaligned_seqs(data, moltype="dna", info={"source": seqs.info.source})


def lk_value(path):
    """the value a loader makes of `path`, before any step has marked it"""
    return make_unaligned_seqs({"id": "ACGT"}, moltype="dna", info={"source": str(path)})


@define_app(app_type=LOADER)
class lk_load:
    """L"""

    def main(self, path: IdentifierType) -> T:
        Path(path).read_text()
        return _lk_add(lk_value(path), "L")


@define_app
class lk_a:
    """A"""

    def main(self, seqs: UnalignedSeqsType) -> T:
        return _lk_add(seqs, "A")


@define_app
class lk_p:
    """P: returns sequences and nothing else; fails on a record called bad"""

    def main(self, seqs: UnalignedSeqsType) -> UnalignedSeqsType:
        if "bad" in Path(seqs.info.source).name:
            raise LkError("bad record")
        return _lk_add(seqs, "P")


@define_app(skip_not_completed=False)
class lk_r:
    """R: opts in to receive NotCompleted and makes a value of it again"""

    def main(self, val: SerialisableType) -> T:
        if isinstance(val, NotCompleted):
            data = {"id": "ACGT", f"n1recovered{val.origin}": "ACGT"}
            return _lk_add(make_unaligned_seqs(data, moltype="dna", info={"source": val.source}), "R")
        return _lk_add(val, "R")


@define_app
class lk_x:
    """X: wants a table"""

    def main(self, table: TabularType) -> TabularType:
        return table
