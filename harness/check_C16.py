"""C16 — nested-model initialisation and optimisation never lose likelihood.

NestedInit.tla: cogent3's projection of parameters by matrix coordinates (smallest covering
cell set; pi-weighting when a stationary model is embedded in a general one) is stated over
the exact model definitions of MarkovQ.tla and TLC proves Q(rich, projected) = Q(nested)
for every nested pair; each pair is replayed on real likelihood functions
(alt.initialise_from_nested(null)): projected parameter values, per-edge rate matrices and
lnL must equal the nested function's BEFORE any optimisation.
NestedScope.tla: nesting by parameter scope (all partitions of 3 edges x refinements).
Optimiser.tla / Trace_Optimiser.tla: optimisation runs recorded from real calculators
(every evaluation, in-bounds flag, start and final lnL) are validated against the obligations
NeverLoses and WithinBounds; hypothesis tests must give LR >= 0.
"""
from __future__ import annotations

import json
import random
import re
import sys
from fractions import Fraction

import numpy as np

from common import Run, main_wrapper
from tlc import Scratch, read_emitted, run_tlc

RTOL = 1e-10


def frac(r):
    return Fraction(r[0], r[1])


def word(w):
    return "".join(w)


_fx = {}


def fixtures():
    if not _fx:
        from cogent3 import make_aligned_seqs, make_tree

        _fx["tree"] = make_tree("(a:0.1,b:0.25,c:0.4)")
        _fx["dna"] = make_aligned_seqs(
            {"a": "ACGTACGTTGCAACGTRAATGCCATTAGGA", "b": "ACGTACATTGCAAC-TGAATGCTATTAGCA", "c": "ACCTACGTTGAAATGTGAATACCATCAGGA"}, moltype="dna"
        )
        _fx["tree3"] = make_tree(tip_names=["Human", "Mouse", "Wombat"])
        _fx["dna185"] = make_aligned_seqs(
            {
                "Human": "AGTCACTTTTGAATGTGAACAAAAGGAAAATCAAGGAAAGAATGAGTCTAATATCAAGCCTGTACAGACAGTTAATATCACTGCAGGCTTTCCTGTGGTTGGTCAGAAAGATAAGCCAGTTGATAATGCCAAATGTAAAGGAGGCTCTAGGTTTTGTCTATCATCTCAGTTCAGAGGCAACGAAA",
                "Mouse": "GGTGACAGCTAAAGGTAAACAAAAAGAACGTCAGGGACAGGAAGAATTTGAAATCAGTCACGTACAAGCAGTTGCGGCCACAGTGGGCTTACCTGTGCCCTGTCAAGAAGGTAAGCTAGCTGCTGATACAATGTGTGATAGAGGTTGTAGGCTTTGTCCATCATCTCATTACAGAAGCGGGGAGA",
                "Wombat": "CACCACAGATTGTGGGGGCCAGGAAAAAAAGCAGGGAAACAGAGAATCAAACAAGCCTGTGTGGCCAAAGTCTGCAGTCATGAGCTTAGCTGCGGCTTGTCAGACAGAGGAGAGGCCAGGTGTTTATGCCAAATGTACAGAAGTGTCCAGGCTTTGTCACATAGCTCCATTACATGTCATTGACT",
            },
            moltype="dna",
        )
        _fx["codon"] = make_aligned_seqs(
            {"a": "ATGGCTAAACCCGGGTTTGAC", "b": "ATGGCAAAACCAGGGTTCGAC", "c": "ATGGCTAGACCCGGATTTGAT"}, moltype="dna"
        )
    return _fx


def close(a, b, rtol=RTOL):
    if a == b:  # also covers -inf == -inf (all branch lengths zero, differing sequences)
        return True
    return abs(a - b) <= rtol * max(1.0, abs(a), abs(b))


def nested_pair(run, rec):
    from cogent3 import get_model

    fx = fixtures()
    key0 = f"nested:{rec['null']}->{rec['alt']}"
    is_codon = rec["alt"] in ("MG94GTR", "MG94HKY", "CNFGTR", "CNFHKY", "GY94", "Y98")
    aln = fx["codon"] if is_codon else fx["dna"]
    pi = {word(w): float(frac(v)) for w, v in rec["pi"]}
    nm = {"a": "a", "b": "b", "c": "c"}
    tree_ = fx["tree"]
    if rec.get("naming") == "anagrams":
        # edge names are labels: tips whose names consist of the same characters (another order, another number of them)
        from cogent3 import make_tree as _mk

        nm = {"a": "12", "b": "21", "c": "112"}
        key0 += ":anagram-edge-names"
        tree_ = _mk("(" + ",".join(f"'{nm[e.name]}':{e.length}" for e in fx["tree"].get_edge_vector(include_root=False)) + ")")
        aln = aln.rename_seqs(lambda n: nm[n])
    null = get_model(rec["null"]).make_likelihood_function(tree_)
    null.set_alignment(aln)
    if rec["null"] not in ("JC69", "K80"):
        null.set_motif_probs(pi)
    status = rec.get("nullstatus", "free")
    if status == "constant":
        key0 += ":null-terms-constant"
    for pn, v in rec["nullparams"]:
        if status == "constant":
            null.set_param_rule(pn, value=float(frac(v)), is_constant=True)
        else:
            null.set_param_rule(pn, init=float(frac(v)))
    null_lengths = {nm["a"]: 0.0, nm["b"]: 0.33, nm["c"]: 0.07}  # not the tree's own lengths; one sits on the lower bound
    for e, v in null_lengths.items():
        null.set_param_rule("length", edge=e, init=v)
    alt = get_model(rec["alt"]).make_likelihood_function(tree_)
    alt.set_alignment(aln)
    if rec.get("prior") == "refused-batch":
        # a batch of rules the function refuses (it names an edge the tree does not have): a stuttering step
        key0 += ":after-refused-batch"
        try:
            alt.apply_param_rules([{"par_name": "length", "edge": "no-such-edge", "init": 0.5}])
            run.fail(key0 + ":batch-accepted", {"pair": key0}, what="a rule for an edge the tree does not have was accepted")
        except Exception:
            pass
    try:
        alt.initialise_from_nested(null)
    except Exception as ex:
        run.fail(key0 + ":raised", {"pair": key0, "exception": repr(ex)}, what="initialise_from_nested raised")
        return 0
    n = 0
    for pn, v in rec["altparams"]:
        got = alt.get_param_value(pn)
        n += 1
        if not close(got, float(frac(v)), 1e-9):
            chosen = dict((a, b) for a, b in rec["chosen"]).get(pn)
            run.fail(key0 + f":param-value:from={'ref_cell' if chosen == 'ref_cell' else 'param'}", {"pair": key0, "param": pn, "got": got, "want": float(frac(v)), "mapped_from": chosen}, what="projected parameter value differs from the coordinate projection")
    for e, v in null_lengths.items():
        if not close(alt.get_param_value("length", edge=e), v, 1e-9):
            run.fail(key0 + f":length:{'zero' if v == 0 else 'positive'}", {"pair": key0, "edge": e, "got": alt.get_param_value("length", edge=e), "want": v}, what="branch length not carried over by initialise_from_nested")
    for edge in (nm["a"], nm["b"], nm["c"]):
        qa = alt.get_rate_matrix_for_edge(edge, calibrated=True).array
        qn = null.get_rate_matrix_for_edge(edge, calibrated=True).array
        n += qa.size
        if np.abs(qa - qn).max() > 1e-10:
            run.fail(key0 + ":rate-matrix", {"pair": key0, "edge": edge, "max_abs_diff": float(np.abs(qa - qn).max())}, what="rich model's rate matrix differs from the nested model's after initialisation")
            break
    if not close(alt.lnL, null.lnL):
        run.fail(key0 + ":lnL", {"pair": key0, "lnL_null": null.lnL, "lnL_alt": alt.lnL}, what="lnL not reproduced by initialise_from_nested")
    return n


def nested_scope(run, rec):
    from cogent3 import get_model

    fx = fixtures()
    null = get_model("HKY85").make_likelihood_function(fx["tree"])
    null.set_alignment(fx["dna"])
    for block, v in rec["null"]:
        null.set_param_rule("kappa", edges=list(block), is_independent=False, init=1.5 * v)
    for e, lv in rec["lengths"].items():
        null.set_param_rule("length", edge=e, init=0.17 * lv)
    alt = get_model("HKY85").make_likelihood_function(fx["tree"])
    alt.set_alignment(fx["dna"])
    for block in rec["alt"]:
        alt.set_param_rule("kappa", edges=list(block), is_independent=False, init=1.0)
    shape = f"null={sorted(len(b) for b, _ in rec['null'])}:alt={sorted(len(b) for b in rec['alt'])}"
    try:
        alt.initialise_from_nested(null)
    except Exception as ex:
        run.fail(f"nested-scope:{shape}:raised", {"null": rec["null"], "alt": rec["alt"], "exception": repr(ex)}, what="initialise_from_nested raised for scope nesting")
        return 0
    bad = [e for e, v in rec["expected"].items() if not close(alt.get_param_value("kappa", edge=e), 1.5 * v, 1e-9)]
    if bad:
        run.fail(f"nested-scope:{shape}:values", {"null": rec["null"], "alt": rec["alt"], "edges": bad, "got": {e: alt.get_param_value("kappa", edge=e) for e in rec["expected"]}}, what="per-edge values not inherited from the null's blocks")
    badl = [e for e, lv in rec["lengths"].items() if not close(alt.get_param_value("length", edge=e), 0.17 * lv, 1e-9)]
    if badl:
        zero = any(rec["lengths"][e] == 0 for e in badl)
        run.fail(f"nested-scope:{shape}:lengths:{'zero-length' if zero else 'positive-length'}", {"null": rec["null"], "alt": rec["alt"], "edges": badl, "want": {e: 0.17 * lv for e, lv in rec["lengths"].items()}, "got": {e: alt.get_param_value("length", edge=e) for e in rec["lengths"]}}, what="branch lengths of the nested function were not carried over")
    if not close(alt.lnL, null.lnL):
        run.fail(f"nested-scope:{shape}:lnL", {"null": rec["null"], "alt": rec["alt"], "lnL_null": null.lnL, "lnL_alt": alt.lnL}, what="lnL not reproduced for scope nesting")
    if alt.nfp <= null.nfp:
        run.fail(f"nested-scope:{shape}:nfp", {"nfp_null": null.nfp, "nfp_alt": alt.nfp}, what="refined scope does not have more free parameters")
    return 1


# ------------------------------------------------------------ optimiser traces
class OptRecorder:
    def __init__(self):
        self.traces = []
        self.cur = None
        self.meta = []

    def install(self):
        from cogent3.maths.optimisers import ParameterOutOfBoundsError
        from cogent3.recalculation.calculation import Calculator
        from cogent3.recalculation.scope import ParameterController

        rec = self
        orig_test = Calculator.testoptparvector
        orig_opt = ParameterController.optimise

        def testoptparvector(self, values):
            inb = True
            try:
                lo, hi = self.get_bounds_vectors()
                v = np.asarray(values, dtype=float)
                inb = bool(np.all(lo - 1e-12 <= v) and np.all(v <= hi + 1e-12))
            except Exception:
                pass
            f = None
            refused = False
            try:
                f = orig_test(self, values)
                return f
            except (ArithmeticError, ParameterOutOfBoundsError):
                refused = True  # the calculator refused the vector: the optimiser treats it as -inf
                raise
            finally:
                if rec.cur is not None:
                    rec.cur.append({"op": "reject", "f": None, "inb": inb} if refused else {"op": "eval", "f": f, "inb": inb})

        Calculator.testoptparvector = testoptparvector
        Calculator.__call__ = testoptparvector

        def optimise(self, *a, **k):
            top = rec.cur is None
            if top:
                rec.cur = [{"op": "start", "f": self.get_log_likelihood() if hasattr(self, "get_log_likelihood") else None}]
            raised = True
            try:
                out = orig_opt(self, *a, **k)
                raised = False
                return out
            finally:
                if top:
                    if raised:
                        rec.cur.append({"op": "raised", "f": None})  # not a step of Optimiser.tla
                    else:
                        rec.cur.append({"op": "finish", "f": self.get_log_likelihood()})
                    rec.traces.append(rec.cur)
                    rec.cur = None

        ParameterController.optimise = optimise


def rank_traces(traces):
    out = []
    for tr in traces:
        vals = sorted({e["f"] for e in tr if e["f"] is not None and np.isfinite(e["f"])})
        # values closer than 1e-9 relative share a rank (the property is about losing likelihood, not float noise)
        ranks = {}
        r = 0
        prev = None
        for v in vals:
            if prev is not None and abs(v - prev) > 1e-9 * max(1.0, abs(v)):
                r += 1
            ranks[v] = r + 1
            prev = v
        enc = []
        for e in tr:
            f = e["f"]
            rk = 0 if (f is None or not np.isfinite(f)) else ranks[f]
            if e["op"] in ("eval", "reject"):
                enc.append({"op": e["op"], "f": rk, "inb": bool(e["inb"])})
            else:
                enc.append({"op": e["op"], "f": rk})
        out.append(enc)
    return out


def optimiser_runs(run, scratch, seed, nruns):
    from cogent3 import get_model, make_aligned_seqs, make_tree

    rnd = random.Random(seed)
    rec = OptRecorder()
    rec.install()
    fx = fixtures()
    settings = [
        dict(local=True, max_evaluations=5),
        dict(local=True, max_evaluations=40),
        dict(local=True),
        dict(local=False, max_evaluations=60, global_tolerance=1.0),
        dict(local=None, max_evaluations=80, global_tolerance=1.0),
    ]
    meta = []
    for i in range(nruns):
        model = rnd.choice(["HKY85", "GTR", "TN93", "F81"])
        st = settings[i % len(settings)]
        lf = get_model(model).make_likelihood_function(fx["tree"])
        lf.set_alignment(fx["dna"])
        for p in lf.get_param_names():
            if p not in ("mprobs", "length"):
                lf.set_param_rule(p, init=rnd.choice([0.3, 1.0, 2.5, 6.0]))
        before = lf.lnL
        lf.optimise(show_progress=False, limit_action="ignore", **st)
        after = lf.lnL
        meta.append((model, st, before, after))
        key = f"optimise:local={st.get('local')}:limit={'yes' if st.get('max_evaluations') else 'no'}"
        if after < before - 1e-9 * max(1.0, abs(before)):
            run.fail(key + ":lnL-decreased", {"model": model, "settings": st, "before": before, "after": after}, what="optimise returned a lower lnL than it started from")
        for rule in lf.get_param_rules():
            if rule.get("is_constant") or "init" not in rule or isinstance(rule["init"], dict):
                continue
            lo, hi, v = rule.get("lower"), rule.get("upper"), rule["init"]
            if (lo is not None and v < lo) or (hi is not None and v > hi):  # exact: a value written back is inside its bounds
                run.fail(key + ":value-out-of-bounds", {"model": model, "rule": {k: (float(x) if isinstance(x, (int, float)) else x) for k, x in rule.items()}}, what="optimised parameter outside its declared bounds")
    # the optimum sits ON a declared bound (transition-only data push kappa up; the start is the bound itself), for bounds b
    # whose exp(log(b)) does not round back to b (10, 100, 0.001 ...): the value reported afterwards is within [lower, upper]
    from cogent3 import make_aligned_seqs as _mas

    ts = _mas({"a": "AAAACCCCGGGGTTTTAACCGGTTACGTACGT", "b": "GAAATCCCAGGGCTTTAGCTGGTTACGTGCGT", "c": "AGAACTCCGAGGTCTTAACCAGTCACATACGC"}, moltype="dna")
    for par, kw in (("kappa", dict(init=10.0, upper=10.0)), ("kappa", dict(init=100.0, upper=100.0)), ("kappa", dict(init=250.0, upper=100.0)), ("kappa", dict(init=5.0, lower=5.0, upper=5.0 + 1e-9))):
        lf = get_model("HKY85").make_likelihood_function(fx["tree"])
        lf.set_alignment(ts)
        try:
            lf.set_param_rule(par, **kw)
        except Exception:
            continue
        before = lf.lnL
        lf.optimise(show_progress=False, local=True, max_evaluations=60, limit_action="ignore")
        meta.append(("HKY85 optimum on a bound", kw, before, lf.lnL))
        for rule in lf.get_param_rules():
            if rule.get("is_constant") or "init" not in rule or isinstance(rule["init"], dict):
                continue
            lo, hi, v = rule.get("lower"), rule.get("upper"), rule["init"]
            if (lo is not None and v < lo) or (hi is not None and v > hi):
                run.fail("optimise:optimum-on-a-declared-bound:value-out-of-bounds", {"rule": {k: (float(x) if isinstance(x, (int, float)) else x) for k, x in rule.items()}, "declared": kw},
                         what="after optimise() a parameter whose optimum sits on its bound is reported outside [lower, upper]")
        if lf.lnL < before - 1e-9 * max(1.0, abs(before)):
            run.fail("optimise:optimum-on-a-declared-bound:lnL-decreased", {"declared": kw, "before": before, "after": lf.lnL}, what="optimise returned a lower lnL than it started from")
    # a richer model whose calculation REFUSES some vectors mid-evaluation (GeneralStationary), initialised from the fitted
    # GTR nested in it: initialisation reproduces the lnL, and optimisation under several limits neither loses nor raises
    from cogent3.evolve.ns_substitution_model import GeneralStationary

    gtr = get_model("GTR")
    null = gtr.make_likelihood_function(fx["tree3"])
    null.set_alignment(fx["dna185"])
    null.optimise(show_progress=False, max_evaluations=200, limit_action="ignore")
    meta.append(("GTR(null for GS)", dict(max_evaluations=200), None, null.lnL))
    limits = [52, 142, 200, 250] if nruns <= 10 else [30, 52, 80, 110, 142, 170, 200, 250, 320, 400]
    for lim in limits:
        alt = GeneralStationary(gtr.alphabet).make_likelihood_function(fx["tree3"])
        alt.set_alignment(fx["dna185"])
        alt.initialise_from_nested(null)
        before = alt.lnL
        if not close(before, null.lnL):
            run.fail("nested:GTR->GS:lnL-not-reproduced", {"null": null.lnL, "alt": before}, what="GeneralStationary initialised from the nested GTR fit has a different lnL")
        key = "optimise:GS-from-nested-GTR:limit=yes"
        try:
            alt.optimise(show_progress=False, max_evaluations=lim, limit_action="ignore")
            after = alt.lnL
        except Exception as ex:
            meta.append(("GS", dict(max_evaluations=lim), before, None))
            run.fail(key + ":raised:" + type(ex).__name__, {"max_evaluations": lim, "before": before, "exception": repr(ex)}, what="optimise() started from a point with a finite lnL raised instead of returning")
            continue
        meta.append(("GS", dict(max_evaluations=lim), before, after))
        if after < before - 1e-9 * max(1.0, abs(before)):
            run.fail(key + ":lnL-decreased", {"max_evaluations": lim, "before": before, "after": after}, what="optimise returned a lower lnL than it started from")
    # hypothesis test: LR >= 0
    from cogent3 import get_app

    for null, alt in (("F81", "HKY85"), ("HKY85", "GTR")):
        m0 = get_app("model", null, tree=fx["tree"], opt_args=dict(max_evaluations=30, limit_action="ignore"), show_progress=False)
        m1 = get_app("model", alt, tree=fx["tree"], opt_args=dict(max_evaluations=30, limit_action="ignore"), show_progress=False)
        hyp = get_app("hypothesis", m0, m1)
        res = hyp(fx["dna"])
        if not res:
            run.fail(f"hypothesis:{null}-{alt}:not-completed", {"message": str(res)}, what="hypothesis app failed")
            continue
        if res.LR < -1e-9:
            run.fail(f"hypothesis:{null}-{alt}:negative-LR", {"LR": res.LR, "null_lnL": res.null.lnL, "alt_lnL": res.alt[0].lnL if hasattr(res.alt, '__getitem__') else None}, what="likelihood ratio of nested hypotheses is negative")
        meta.append((f"hypothesis {null} vs {alt}", {}, res.null.lnL, res.LR))
    # nesting BY SCOPE through the apps (NestedScope.tla: the alternate refines the null's partition of the edges):
    # the same substitution model, the alternate made time-heterogeneous; under an evaluation limit the alternate must
    # still finish at or above the null (it starts from the null's fit), so LR >= 0
    for sm_name, het, lim in (("HKY85", "max", 10), ("HKY85", [dict(edges=["Human", "Mouse"], is_independent=False)], 10), ("GTR", "max", 15), ("HKY85", "max", 25)):
        m0 = get_app("model", sm_name, name="null", tree=fx["tree3"], opt_args=dict(max_evaluations=60, limit_action="ignore"), show_progress=False)
        m1 = get_app("model", sm_name, name="alt", tree=fx["tree3"], time_het=het, opt_args=dict(max_evaluations=lim, limit_action="ignore"), show_progress=False)
        res = get_app("hypothesis", m0, m1)(fx["dna185"])
        shape = "max" if het == "max" else "edge-set"
        if not res:
            run.fail(f"hypothesis:scope:{shape}:not-completed", {"model": sm_name, "message": str(res)[:400]}, what="hypothesis app failed")
            continue
        meta.append((f"hypothesis {sm_name} vs {sm_name} time_het={shape}", dict(max_evaluations=lim), res.null.lnL, res.LR))
        if res.LR < -1e-9:
            run.fail(f"hypothesis:scope:{shape}:negative-LR", {"model": sm_name, "time_het": het, "max_evaluations": lim, "LR": res.LR, "null_lnL": res.null.lnL}, what="likelihood ratio of hypotheses nested by scope (same model, alternate time-heterogeneous) is negative")
    # validate the recorded runs against Optimiser.tla
    enc = rank_traces(rec.traces)
    tf = scratch / "opt-traces.json"
    tf.write_text(json.dumps(enc))
    maxrank = max([e["f"] for t in enc for e in t] + [1])
    cfg = scratch / "Trace_Optimiser.cfg"
    cfg.write_text(f"SPECIFICATION TSpec\nCONSTANT MaxRank = {maxrank}\nINVARIANT Report\n")
    import os

    from tlc import VERIF

    res = run_tlc("Trace_Optimiser", os.path.relpath(cfg, VERIF / "specs"), scratch, workers=1, env={"TRACE_FILE": tf}, timeout=900)
    run.add_tlc(res)
    m = re.search(r'<<\s*"TRACE-VERDICT",\s*(\d+),\s*(\{.*?\})\s*>>', res.out, re.S)
    if not m:
        raise RuntimeError("no TRACE-VERDICT:\n" + res.out[-2000:])
    for tid, l in re.findall(r"<<\s*(\d+),\s*(\d+)\s*>>", m.group(2)):
        tid, l = int(tid), int(l)
        ev = enc[tid - 1][l - 1]
        what = "evaluated a vector outside the declared bounds" if ev["op"] == "eval" and not ev["inb"] else "run finished below its starting value" if ev["op"] == "finish" else "optimise() raised instead of finishing (no such step in Optimiser.tla)" if ev["op"] == "raised" else "event is not a step of Optimiser.tla"
        run.fail(f"opt-trace:{ev['op']}:{'out-of-bounds' if ev.get('inb') is False else 'rejected'}", {"trace": tid, "step": l, "event": ev, "raw": rec.traces[tid - 1][max(0, l - 3) : l], "run": meta[tid - 1] if tid - 1 < len(meta) else None}, what=what)
    ops = {}
    for tr in enc:
        for e in tr:
            ops[e["op"]] = ops.get(e["op"], 0) + 1
    run.note("optimiser_events_by_action", ops)
    if not ops.get("reject"):
        raise RuntimeError("vacuous: no evaluation was refused by the calculator in the GeneralStationary runs (RejectedT never exercised)")
    run.sample({"optimiser_run": meta[0][0], "settings": meta[0][1], "events": enc[0][:6], "n_events": len(enc[0])})
    return len(enc), sum(len(t) for t in enc)


def check(run: Run):
    cfg = "MC_NestedInit_quick.cfg" if run.tier == "quick" else "MC_NestedInit_thorough.cfg"
    with Scratch("C16") as scratch:
        emit = scratch / "nested.ndjson"
        res = run_tlc("MC_NestedInit", cfg, scratch, workers=1, env={"EMIT_FILE": emit}, timeout=3000)
        run.add_tlc(res)
        seen = set()
        n = 0
        for rec in read_emitted(emit):
            k = (rec["null"], rec["alt"], json.dumps(rec["nullparams"]), rec.get("nullstatus"), rec.get("prior"), rec.get("naming"))
            if k in seen:
                continue
            seen.add(k)
            n += nested_pair(run, rec)
            run.sample({"nested_pair": f"{rec['null']}->{rec['alt']}", "null_params": rec["nullparams"], "projected": rec["altparams"], "mapped_from": rec["chosen"]}, limit=3)
        emit2 = scratch / "scope.ndjson"
        res2 = run_tlc("NestedScope", "MC_NestedScope.cfg", scratch, workers=1, env={"EMIT_FILE": emit2}, timeout=600)
        run.add_tlc(res2)
        seen2 = set()
        for rec in read_emitted(emit2):
            k = json.dumps(rec, sort_keys=True)
            if k in seen2:
                continue
            seen2.add(k)
            nested_scope(run, rec)
        ntr, nev = optimiser_runs(run, scratch, run.seed, 10 if run.tier == "quick" else 40)
    run.cov["traces_validated_against_impl"] = len(seen) + len(seen2) + ntr
    run.cov["evaluations"] = n + len(seen2) + nev
    run.cov["distinct_nontrivial"] = len(seen) + len(seen2) + ntr
    run.cov["rule"] = (
        "every nested pair of MC_NestedInit (by rate-matrix structure) and every (partition, refinement) of 3 edges (by scope) replayed "
        "with initialise_from_nested on real functions; recorded optimiser runs (local / global / both, with and without evaluation "
        "limits) validated by Trace_Optimiser; LR of hypothesis apps"
    )
    run.note("nested_pairs", len(seen))
    run.note("scope_cases", len(seen2))
    run.note("optimiser_traces", {"runs": ntr, "events": nev})
    run.assumptions += [
        "whether the optimiser FINDS the optimum is not checked, only that it never loses",
        "log-likelihoods within 1e-9 relative share a rank in the optimiser traces",
    ]


if __name__ == "__main__":
    sys.exit(main_wrapper(check, "C16"))
