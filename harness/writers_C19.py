"""C19: the real cogent3 writers that are driven under fault injection.

A Case names one public write call (object, method, file name, keyword
arguments), the way that call uses atomic_write ("group" = which configuration
of AtomicWrite.tla transcribes it; None = not transcribed, judged by outcome
only) and the scenario (normal / formatting fails).
"""
from __future__ import annotations

import gzip
import io
import zipfile
from dataclasses import dataclass, field

OLD_TEXT = b"OLD CONTENT that must survive a failed overwrite\n"


@dataclass(frozen=True)
class Case:
    writer: str  # key into objects()
    fname: str
    group: str | None  # seqfmt | with | table | None
    scenario: str = "normal"  # normal | fmtfail
    kwargs: tuple = ()
    target: str = "file"  # file | zip  (structural key component)
    nameclass: str = "ordinary"  # class of the destination file name (NameClasses of AtomicWrite.tla)
    light: bool = False  # driven with kills and one fault variant per boundary (a representation dimension)

    @property
    def name(self):
        kw = ",".join(f"{k}={v}" for k, v in self.kwargs)
        return f"{self.writer}->{self.fname}" + (f"({kw})" if kw else "")


_OBJ = {}


class _Unserialisable:
    """a cell / attribute value that no serialiser accepts"""

    def __reduce__(self):
        raise TypeError("cannot pickle _Unserialisable")


def objects():
    """real cogent3 objects, built once per process"""
    if _OBJ:
        return _OBJ
    from cogent3 import make_aligned_seqs, make_table, make_tree, make_unaligned_seqs
    from cogent3.phylo.tree_collection import ScoredTreeCollection
    from cogent3.util.dict_array import DictArrayTemplate

    data = {"s1": "ACGTTGCA", "s2": "ACG--GCA", "s3": "TCGTTGCC"}
    ragged = {"s1": "ACGTTGCA", "s2": "ACGGCA", "s3": "TCGTT"}
    _OBJ["aln"] = make_aligned_seqs(data, moltype="dna")
    _OBJ["arr"] = make_aligned_seqs(data, moltype="dna", array_align=True)
    _OBJ["sc"] = make_unaligned_seqs(ragged, moltype="dna")
    _OBJ["nsc"] = make_unaligned_seqs(ragged, moltype="dna", new_type=True)
    try:
        _OBJ["naln"] = make_aligned_seqs(data, moltype="dna", new_type=True)
    except Exception:  # noqa: BLE001
        pass
    bad = make_aligned_seqs(data, moltype="dna")
    bad.info["handle"] = _Unserialisable()
    _OBJ["aln_unser"] = bad
    tree = make_tree("((a:1,b:2)ab:1,c:3,(d:1,e:0.5)de:2);")
    _OBJ["tree"] = tree
    btree = make_tree("((a:1,b:2)ab:1,c:3);")
    btree.params["handle"] = _Unserialisable()
    _OBJ["tree_unser"] = btree
    _OBJ["table"] = make_table(
        header=["name", "x", "y"], data=[["a", 1, 2.5], ["b", 3, 4.5], ["c", 5, 6.5]], title="T", legend="L"
    )
    _OBJ["table4"] = make_table(header=["name", "x", "y"], data=[["a", 1, 2.5]])
    _OBJ["table_unser"] = make_table(header=["name", "x"], data=[["a", _Unserialisable()], ["b", _Unserialisable()]])
    _OBJ["darr"] = DictArrayTemplate(["a", "b"], ["c", "d"]).wrap([[1, 2], [3, 4]])
    _OBJ["trees"] = ScoredTreeCollection([(-10.5, make_tree("((a,b),c,d);")), (-11.0, make_tree("((a,c),b,d);"))])
    _OBJ["open_"] = _OpenWriter()
    # content production that is INTERRUPTED inside the with-block (BaseException, not Exception)
    t = make_table(header=["name", "x", "y"], data=[["a", 1, 2.5], ["b", 3, 4.5]])
    t.format_column("x", _sigint_when_armed)  # a column formatting callback during to_string(): Ctrl-C
    _OBJ["table_intr"] = t
    exiting = make_tree("((a,c),b,d);")
    exiting.get_newick = _sys_exit  # sys.exit() while the second tree is rendered
    _OBJ["trees_exit"] = ScoredTreeCollection([(-10.5, make_tree("((a,b),c,d);")), (-11.0, exiting)])
    kbd = make_aligned_seqs(data, moltype="dna")
    kbd.to_json = _sigint  # Ctrl-C while the json is produced
    _OBJ["aln_intr"] = kbd
    return _OBJ


def _line_writer(rows, has_header=False):
    """a caller supplied line writer for Table.write(writer=...)"""
    return ["|".join(str(c) for c in row) for row in rows]


class _OpenWriter:
    """cogent3.util.io.open_ used directly in write mode (the documented way to write .zip)"""

    def write(self, path, fail=False):
        from cogent3.util.io import open_

        with open_(path, "wt") as out:
            out.write(">s1\nACGT\n")
            if fail:
                raise RuntimeError("formatting failed inside the with-block")
            out.write(">s2\nACGA\n")


class _InterruptingOrder(list):
    """a sequence-name order whose iteration is interrupted (Ctrl-C while the formatter runs)"""

    def __iter__(self):
        _sigint()


def _sigint(*args, **kwargs):
    import signal

    signal.raise_signal(signal.SIGINT)  # real SIGINT: Python raises KeyboardInterrupt in the running frame
    raise KeyboardInterrupt("C19: SIGINT was not delivered as KeyboardInterrupt")


_ARMED = [False]  # set in the forked child that performs the write


def _sigint_when_armed(value):
    if _ARMED[0]:
        _sigint()
    return str(value)


def _sys_exit(*args, **kwargs):
    raise SystemExit(3)


def call(case: Case, path: str):
    obj = objects()[case.writer]
    kw = dict(case.kwargs)
    _ARMED[0] = case.scenario == "interrupt"
    if kw.get("order") == "<interrupting>":
        kw["order"] = _InterruptingOrder(obj.names)
    return obj.write(path, **kw)


# --------------------------------------------------------------------- content
def old_bytes(fname: str) -> bytes:
    """a valid pre-existing file of the destination's type holding OLD_TEXT"""
    if fname.endswith(".gz"):
        return gzip.compress(OLD_TEXT, mtime=0)
    if fname.endswith(".bz2"):
        import bz2

        return bz2.compress(OLD_TEXT)
    if fname.endswith(".zip"):
        buf = io.BytesIO()
        with zipfile.ZipFile(buf, "w") as z:
            z.writestr(zipfile.ZipInfo(fname[: -len(".zip")], date_time=(2020, 1, 1, 0, 0, 0)), OLD_TEXT)
        return buf.getvalue()
    return OLD_TEXT


def payload(fname: str, raw: bytes):
    """content of a file independent of compression metadata; None when unreadable"""
    try:
        if fname.endswith(".gz"):
            return ["gz", gzip.decompress(raw).hex()]
        if fname.endswith(".bz2"):
            import bz2

            return ["bz2", bz2.decompress(raw).hex()]
        if fname.endswith(".zip"):
            with zipfile.ZipFile(io.BytesIO(raw)) as z:
                # member names derive from random temp names: the content is the list of member payloads
                return ["zip", [z.read(i).hex() for i in z.infolist()]]
    except Exception:  # noqa: BLE001
        return None
    return ["raw", raw.hex()]


def appended(fname: str, new_payload):
    """payload of the pre-existing archive after the new member was appended to it in place"""
    old = payload(fname, old_bytes(fname))
    if not old or not new_payload or old[0] != "zip" or new_payload[0] != "zip":
        return None
    return ["zip", old[1] + new_payload[1]]


# unusual but legal destination file names (every one is accepted by a plain open() on this file system)
NAMES = {
    "blanks": "my aln  file (copy) .fasta",
    "quotes": "it's \"quoted\" \"\"twice\"\" `x`.nwk",
    "brackets_glob": "aln[1]*?{a,b}(2)<3>.tsv",
    "punctuation": "a:b,c#d|e;f&g=h%i@j!k~l^m+n$.fasta",
    "unicode": "säugetiere_größe_日本語_ñ.nwk",
    "leading_digit": "1st-run.tsv",
    "digits_only": "20240131",  # no suffix at all (tree.write falls back to newick)
    "many_dots": "v1.2.3..final.copy.2024.01.31.fasta",
    "long": "n" * 244 + ".fasta",  # 250 bytes, short suffix: the staged name is fine
    # 228 bytes, legal, but everything from the first '.' on is a "suffix": <uuid4> + suffixes exceeds NAME_MAX
    "overlong_suffixes": "brca1." + "primate_orthologs_filtered_" * 8 + ".fasta",
}
_NAME_WRITER = {"fasta": ("aln", "seqfmt"), "nwk": ("tree", "with"), "tsv": ("table", "table"), "": ("tree", "with")}


def name_cases():
    out = []
    for cls, fname in NAMES.items():
        sfx = fname.rsplit(".", 1)[1] if "." in fname else ""
        writer, group = _NAME_WRITER[sfx]
        scenario = "unstageable" if cls == "overlong_suffixes" else "normal"
        out.append(Case(writer, fname, group, scenario, nameclass=cls, light=True))
    return out


# ----------------------------------------------------------------------- cases
def cases(tier: str):
    q = [
        Case("aln", "x.fasta", "seqfmt"),
        Case("tree", "x.nwk", "with"),
        Case("table", "x.tsv", "table"),
        Case("aln", "x.bogus", "seqfmt", "fmtfail"),
        Case("table4", "x.bedgraph", "table", "fmtfail"),
        Case("tree_unser", "x.json", "with", "fmtfail"),
        # the body is interrupted by a BaseException that is not an Exception (real SIGINT / SystemExit)
        Case("aln", "x.fasta", "seqfmt", "interrupt", kwargs=(("order", "<interrupting>"),)),
        Case("table_intr", "x.md", "table", "interrupt"),
        Case("trees_exit", "x.trees", "with", "interrupt"),
        Case("aln_intr", "x.json", "with", "interrupt"),
        # public writers given a ".zip" path (no in_zip): the archive must be replaced as a whole or left untouched
        # (writers that refuse such a path must refuse cleanly); quick drives them with a reduced set of fault variants
        Case("darr", "x.tsv.zip", None, target="zip"),
        Case("aln", "x.json.zip", None, target="zip"),
        Case("aln", "x.fasta.zip", None, target="zip"),
        Case("tree", "x.nwk.zip", None, target="zip"),
    ] + name_cases()
    if tier == "quick":
        return q
    t = list(q)
    # sequence collections / alignments, old and new style
    for w in ("aln", "arr", "sc", "nsc", "naln"):
        if w not in objects():
            continue
        fmts = ["fasta", "json"] if w in ("sc", "nsc") else ["fasta", "phylip", "paml", "gde", "json"]
        for f in fmts:
            grp = "with" if f == "json" else "seqfmt"
            for cmp in ("", ".gz"):
                t.append(Case(w, f"x.{f}{cmp}", grp))
        t.append(Case(w, "x.fasta.bz2", "seqfmt"))
        t.append(Case(w, "x.bogus", "seqfmt", "fmtfail"))
        t.append(Case(w, "x.bogus.gz", "seqfmt", "fmtfail"))
        t.append(Case(w, "x.fasta.zip", None, target="zip"))
        t.append(Case(w, "x.json.zip", None, target="zip"))
    t.append(Case("aln_unser", "x.json", "with", "fmtfail"))
    t.append(Case("aln_unser", "x.json.gz", "with", "fmtfail"))
    # trees
    for f in ("nwk", "json", "xml"):
        for cmp in ("", ".gz"):
            t.append(Case("tree", f"x.{f}{cmp}", "with"))
    t.append(Case("tree", "x.nwk", "with", kwargs=(("with_distances", False),)))
    t.append(Case("tree", "x.nwk.zip", None, target="zip"))
    t.append(Case("tree_unser", "x.json.gz", "with", "fmtfail"))
    t.append(Case("trees", "x.trees", "with"))
    t.append(Case("trees", "x.trees.gz", "with"))
    # tables
    for f in ("tsv", "csv", "txt", "md", "tex", "pickle"):
        t.append(Case("table", f"x.{f}", "table"))
    t.append(Case("table", "x.tsv.gz", "table"))
    t.append(Case("table", "x.txt.gz", "table"))
    t.append(Case("table", "x.json", "with"))
    t.append(Case("table", "x.json.gz", "with"))
    t.append(Case("table_unser", "x.pickle", "table", "fmtfail"))
    t.append(Case("table_unser", "x.json", "with", "fmtfail"))
    # dict arrays
    t.append(Case("darr", "x.tsv", "with"))
    t.append(Case("darr", "x.tsv.gz", "with"))
    t.append(Case("darr", "x.csv", "with", kwargs=(("format", "csv"), ("sep", ","))))
    t.append(Case("darr", "x.tsv.zip", None, target="zip"))
    t.append(Case("aln", "x.fasta.gz", "seqfmt", "interrupt", kwargs=(("order", "<interrupting>"),)))
    t.append(Case("table_intr", "x.md.gz", "table", "interrupt"))
    t.append(Case("trees_exit", "x.trees.gz", "with", "interrupt"))
    t.append(Case("aln_intr", "x.json.gz", "with", "interrupt"))
    t.append(Case("table", "x.tsv", "table", kwargs=(("writer", _line_writer),)))
    # the unstageable name with every writer family, compressed too, and a non-ASCII variant of it
    long_sfx = "primate_orthologs_filtered_" * 8
    t.append(Case("aln", "brca1." + long_sfx + ".fasta.gz", "seqfmt", "unstageable", nameclass="overlong_suffixes", light=True))
    t.append(Case("aln", "brca1." + long_sfx + ".json", "with", "unstageable", nameclass="overlong_suffixes", light=True))
    t.append(Case("tree", "brca1." + long_sfx + ".nwk", "with", "unstageable", nameclass="overlong_suffixes", light=True))
    t.append(Case("table", "brca1." + long_sfx + ".tsv", "table", "unstageable", nameclass="overlong_suffixes", light=True))
    t.append(Case("darr", "brca1." + long_sfx + ".tsv", "with", "unstageable", nameclass="overlong_suffixes", light=True))
    t.append(Case("aln", "brca1." + "säugetiere_größe_" * 11 + ".json", "with", "unstageable", nameclass="overlong_suffixes", light=True))
    t.append(Case("table", "x.json.zip", None, target="zip"))
    t.append(Case("tree", "x.json.zip", None, target="zip"))
    # open_ in write mode on a zip archive
    t.append(Case("open_", "x.fasta.zip", None, target="zip"))
    t.append(Case("open_", "x.fasta.zip", None, "fmtfail", kwargs=(("fail", True),), target="zip"))
    seen, out = set(), []
    for c in t:
        if c not in seen:
            seen.add(c)
            out.append(c)
    return out
