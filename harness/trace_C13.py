"""C13 code -> spec: record real data-store executions, validate with Trace_DataStore.

Recording wraps the public methods of DataStoreDirectory / DataStoreSqlite (harness side,
nothing in /repo changes) and, at each call's return (also on the error path), logs the
call and the store's content as seen by a *freshly opened read-only store on the same
source* (for in-memory sqlite: the live object).  Sources of executions:
  * a seeded random driver over identifier sets with affix relations,
  * the repository's own tests (tests/test_app/test_data_store.py, test_sqlite_data_store.py)
    run under pytest with the tracer plugin.
"""
from __future__ import annotations

import hashlib
import json
import os
import random
import re
import subprocess
import sys
from pathlib import Path

from tlc import VERIF, run_tlc, tla_value

NONE = "None"


class Recorder:
    """Wraps store classes; collects one trace per store source."""

    def __init__(self):
        self.traces = {}  # source -> list of events
        self.skipped = {}  # source -> reason (out of the spec's identifier domain)
        self.installed = False
        self.depth = 0
        self.rebased = 0

    # ------------------------------------------------------------ projection
    def observe(self, ds):
        from cogent3.app.data_store import DataStoreDirectory
        from cogent3.app.sqlite_data_store import DataStoreSqlite

        if isinstance(ds, DataStoreDirectory):
            if not Path(ds.source).exists():
                return {}, {}, []
            ro = DataStoreDirectory(ds.source, mode="r", suffix=ds.suffix)
            sfx = f".{ds.suffix}" if ds.suffix else ""
            comp = {}
            for m in ro.completed:
                u = str(m.unique_id)
                comp[u[: -len(sfx)] if sfx and u.endswith(sfx) else u] = ro.read(u)
            nc = {}
            for m in ro.not_completed:
                u = Path(str(m.unique_id)).name
                nc[u[: -len(".json")]] = ro.read(str(m.unique_id))
            logs = [Path(str(m.unique_id)).name for m in ro.logs]
            return comp, nc, logs
        assert isinstance(ds, DataStoreSqlite)
        if str(ds.source) == ":memory:" or ds._db is not None:
            db = ds.db
            rows = db.execute("SELECT record_id, is_completed, data FROM results").fetchall()
            comp = {r["record_id"]: r["data"] for r in rows if r["is_completed"]}
            nc = {r["record_id"]: r["data"] for r in rows if not r["is_completed"]}
            logs = [r["log_name"] for r in db.execute("SELECT log_name FROM logs").fetchall() if r["log_name"]]
            return comp, nc, logs
        if not Path(ds.source).exists():
            return {}, {}, []
        ro = DataStoreSqlite(ds.source, mode="r")
        try:
            comp = {str(m.unique_id): ro.read(str(m.unique_id)) for m in ro.completed}
            nc = {str(m.unique_id): ro.read(str(m.unique_id)) for m in ro.not_completed}
            logs = [Path(str(m.unique_id)).name for m in ro.logs]
        finally:
            ro.close()
        return comp, nc, logs

    def norm_id(self, ds, uid):
        """-> (model id, alias flag) or None when outside the spec's identifier domain."""
        from cogent3.app.data_store import DataStoreDirectory

        uid = str(uid)
        if isinstance(ds, DataStoreDirectory):
            sfx = ds.suffix
            if not sfx or sfx == "*":
                return None
            al = uid.endswith(f".{sfx}")
            base = uid[: -len(sfx) - 1] if al else uid
            if "." in base or sfx in base or "/" in base:
                return None
            return base, al
        if "/" in uid:
            return None
        return uid, False

    def src(self, ds):
        return f"{type(ds).__name__}:{ds.source}:{id(ds) if str(ds.source) == ':memory:' else ''}"

    def log(self, ds, op, args, ret):
        src = self.src(ds)
        if src in self.skipped:
            return
        try:
            comp, nc, logs = self.observe(ds)
        except Exception as ex:
            self.skipped[src] = f"unobservable: {ex!r}"
            return
        ev = {"op": op, "args": args, "ret": ret, "comp": comp, "nc": nc, "logs": logs, "mode": ds.mode.value}
        tr = self.traces.setdefault(src, [])
        if op == "Reopen" and tr and (tr[-1]["comp"], tr[-1]["nc"], tr[-1]["logs"]) != (comp, nc, logs):
            ev["op"], ev["args"] = "Init", []  # the source was changed by something we do not trace
            self.rebased += 1
        tr.append(ev)

    def pre(self, ds):
        """Before a traced call: if the store is not in the state our last event left it in
        (a test poked an attribute, another process or plain file I/O touched the source),
        re-base the trace with an Init event so that only traced calls are judged."""
        src = self.src(ds)
        tr = self.traces.get(src)
        if src in self.skipped or not tr:
            return
        try:
            comp, nc, logs = self.observe(ds)
        except Exception:
            return
        last = tr[-1]
        if (last["comp"], last["nc"], last["logs"], last["mode"]) != (comp, nc, logs, ds.mode.value):
            tr.append({"op": "Init", "args": [], "ret": "ok", "comp": comp, "nc": nc, "logs": logs, "mode": ds.mode.value})
            self.rebased += 1

    # ------------------------------------------------------------- wrapping
    def install(self):
        if self.installed:
            return
        self.installed = True
        from cogent3.app.data_store import DataStoreDirectory
        from cogent3.app.sqlite_data_store import DataStoreSqlite

        rec = self

        def wrap_init(cls):
            orig = cls.__init__

            def __init__(self, *a, **k):
                orig(self, *a, **k)
                if rec.depth == 0:
                    rec.depth += 1
                    try:
                        src_known = any(s.startswith(f"{type(self).__name__}:{self.source}:") for s in rec.traces)
                        if str(self.source) != ":memory:" and src_known:
                            rec.log(self, "Reopen", [self.mode.value], "ok")
                        else:
                            rec.log(self, "Init", [], "ok")
                    finally:
                        rec.depth -= 1

            cls.__init__ = __init__

        def wrap(cls, name, op):
            orig = getattr(cls, name)

            def method(self, *a, **k):
                if rec.depth:
                    return orig(self, *a, **k)
                rec.depth += 1
                ret = "raised"
                try:
                    rec.pre(self)
                    out = orig(self, *a, **k)
                    ret = "ok"
                    return out
                finally:
                    try:
                        uid = k.get("unique_id", a[0] if a else "")
                        data = k.get("data", a[1] if len(a) > 1 else None)
                        rec.record_call(self, op, uid, data, ret)
                    finally:
                        rec.depth -= 1

            setattr(cls, name, method)

        for cls in (DataStoreDirectory, DataStoreSqlite):
            wrap_init(cls)
            wrap(cls, "write", "Write")
            wrap(cls, "write_not_completed", "WriteNC")
            wrap(cls, "write_log", "WriteLog")
            wrap(cls, "drop_not_completed", "DropNC")

    def record_call(self, ds, op, uid, data, ret):
        src = self.src(ds)
        if op == "WriteLog":
            self.log(ds, op, [Path(str(uid)).name, data], ret)
            return
        if op == "DropNC" and not uid:
            self.log(ds, "DropAllNC", [], ret)
            return
        n = self.norm_id(ds, uid)
        if n is None:
            self.skipped[src] = f"identifier outside the modelled domain: {uid!r}"
            return
        if op == "DropNC":
            self.log(ds, op, [n[0], n[1]], ret)
        else:
            self.log(ds, op, [n[0], data, n[1]], ret)


# ---------------------------------------------------------------- drivers
def random_driver(rec: Recorder, root: Path, seed: int, ntraces: int, nsteps: int):
    from cogent3.app.data_store import DataStoreDirectory
    from cogent3.app.sqlite_data_store import DataStoreSqlite

    rnd = random.Random(seed)
    ids = ["a", "ba", "ab", "aba", "b", "a_1", "1_a"]
    data = ["x", "y", "zz"]
    for t in range(ntraces):
        kind = rnd.choice(["dir", "sqlite"])
        path = root / f"t{t}"

        def open_(mode):
            if kind == "dir":
                return DataStoreDirectory(path, mode=mode, suffix="fa")
            ds = DataStoreSqlite(path, mode=mode)
            _ = ds.db
            return ds

        ds = open_("w")
        for _ in range(nsteps):
            op = rnd.choice(["w", "w", "nc", "nc", "log", "drop", "dropall", "reopen", "reopen"])
            i = rnd.choice(ids)
            if kind == "dir" and rnd.random() < 0.3:
                i = i + ".fa"
            try:
                if op == "w":
                    ds.write(unique_id=i, data=rnd.choice(data))
                elif op == "nc":
                    ds.write_not_completed(unique_id=i, data=rnd.choice(data))
                elif op == "log":
                    ds.write_log(unique_id="l1.log" if kind == "dir" else "l1", data=rnd.choice(data))
                elif op == "drop":
                    ds.drop_not_completed(unique_id=i)
                elif op == "dropall":
                    ds.drop_not_completed()
                else:
                    if kind == "sqlite":
                        ds.unlock(force=True)
                        ds.close()
                    ds = open_(rnd.choice(["r", "w", "a"]))
            except Exception:
                pass
        if kind == "sqlite":
            ds.unlock(force=True)
            ds.close()


def encode(traces: dict):
    """-> (list of TLA-ready traces, ids, data, logids): full maps over the universes."""
    ids, data, logids = set(), set(), set()
    tok = {}

    def dtok(d):
        if d is None:
            d = ""
        if isinstance(d, bytes):
            d = d.decode("latin-1")
        h = hashlib.md5(str(d).encode("utf8", "replace")).hexdigest()
        if h not in tok:
            tok[h] = f"d{len(tok) + 1}"
        return tok[h]

    out = []
    for src, evs in traces.items():
        tr = []
        for e in evs:
            comp = {k: dtok(v) for k, v in e["comp"].items()}
            nc = {k: dtok(v) for k, v in e["nc"].items()}
            ids.update(comp)
            ids.update(nc)
            logids.update(e["logs"])
            args = list(e["args"])
            if e["op"] in ("Write", "WriteNC"):
                args[1] = dtok(args[1])
                ids.add(args[0])
            elif e["op"] == "DropNC":
                ids.add(args[0])
            elif e["op"] == "WriteLog":
                args[1] = dtok(args[1])
                logids.add(args[0])
            tr.append({"op": e["op"], "args": args, "ret": e["ret"], "comp": comp, "nc": nc, "logs": e["logs"], "mode": e["mode"], "src": src})
        out.append(tr)
    data = set(tok.values()) or {"d0"}
    ids = ids or {"none"}
    logids = logids or {"nolog"}
    full = []
    for tr in out:
        ft = []
        for e in tr:
            ft.append(
                {
                    "op": e["op"],
                    "args": e["args"],
                    "ret": e["ret"],
                    "post": {
                        "comp": {i: e["comp"].get(i, NONE) for i in ids},
                        "nc": {i: e["nc"].get(i, NONE) for i in ids},
                        "logs": {l: l in e["logs"] for l in logids},
                        "mode": e["mode"],
                    },
                }
            )
        full.append(ft)
    return full, out, sorted(ids), sorted(data), sorted(logids)


def tlc_validate(traces, scratch: Path, tag: str):
    """Run Trace_DataStore over the batch; returns (n_traces, n_events, rejected[(tid,l)])."""
    full, raw, ids, data, logids = encode(traces)
    if not full:
        return 0, 0, [], raw
    tf = scratch / f"traces-{tag}.json"
    tf.write_text(json.dumps(full))
    cfg = scratch / f"Trace_DataStore_{tag}.cfg"
    cfg.write_text(
        "SPECIFICATION TraceSpec\nCONSTANTS\n"
        f"  Ids = {tla_value(set(ids))}\n  Data = {tla_value(set(data))}\n"
        f"  LogIds = {tla_value(set(logids))}\n  Aliases = {{FALSE, TRUE}}\n"
        "INVARIANT Report\n"
    )
    # cfg must live beside the spec for run_tlc; pass absolute path via a symlink-free trick
    res = run_tlc("Trace_DataStore", os.path.relpath(cfg, VERIF / "specs"), scratch, workers=1, env={"TRACE_FILE": tf}, timeout=1200)
    m = re.search(r'<<\s*"TRACE-VERDICT",\s*(\d+),\s*(\{.*?\})\s*>>', res.out, re.S)
    if not m:
        raise RuntimeError("no TRACE-VERDICT from TLC:\n" + res.out[-3000:])
    rej = [(int(a), int(b)) for a, b in re.findall(r"<<\s*(\d+),\s*(\d+)\s*>>", m.group(2))]
    return len(full), sum(len(t) for t in full), rej, raw


PLUGIN = '''
import atexit, json, os, sys
sys.path.insert(0, os.environ["VERIF_HARNESS"])
import trace_C13
_rec = trace_C13.Recorder()
_rec.install()
def _dump():
    with open(os.environ["VERIF_TRACE_OUT"], "w") as fh:
        json.dump({"traces": _rec.traces, "skipped": _rec.skipped, "rebased": _rec.rebased}, fh, default=lambda o: o.decode("latin-1") if isinstance(o, bytes) else repr(o))
atexit.register(_dump)
'''


def record_repo_tests(scratch: Path, files):
    plug = scratch / "verif_c13_plugin.py"
    plug.write_text(PLUGIN)
    out = scratch / "repo-traces.json"
    env = dict(os.environ, VERIF_HARNESS=str(VERIF / "harness"), VERIF_TRACE_OUT=str(out), PYTHONPATH=f"{scratch}:{os.environ.get('PYTHONPATH', '')}")
    p = subprocess.run(
        [sys.executable, "-m", "pytest", "-q", "-x", "-p", "no:cacheprovider", "-p", "verif_c13_plugin", *files],
        cwd=os.environ.get("VERIF_REPO", "/repo"), env=env, capture_output=True, text=True, timeout=1500,
    )
    if not out.exists():
        raise RuntimeError("tracer produced no output:\n" + p.stdout[-2000:] + p.stderr[-2000:])
    d = json.loads(out.read_text())
    return d["traces"], d["skipped"], p.returncode


def validate(run, scratch: Path):
    rec = Recorder()
    rec.install()
    n = 60 if run.tier == "quick" else 600
    droot = scratch / "driver"
    droot.mkdir()
    random_driver(rec, droot, run.seed, n, 25)
    stats = {}
    batches = [("driver", rec.traces, rec.skipped)]
    tests = ["tests/test_app/test_data_store.py", "tests/test_app/test_sqlite_data_store.py"]
    if run.tier == "thorough":
        tests += ["tests/test_app/test_io.py", "tests/test_app/test_composable.py"]
    tr, sk, rc = record_repo_tests(scratch, tests)
    batches.append(("repo-tests", tr, sk))
    for tag, traces, skipped in batches:
        nt, ne, rej, raw = tlc_validate(traces, scratch, tag)
        stats[tag] = {"traces": nt, "events": ne, "rejected": len(rej), "out_of_domain_sources": len(skipped)}
        run.cov["traces_validated_against_impl"] += nt
        run.cov["evaluations"] += ne
        for tid, l in rej:
            tr = raw[tid - 1]
            e = tr[l - 1]
            prev = tr[l - 2] if l > 1 else None
            kind = "dir" if e["src"].startswith("DataStoreDirectory") else "sqlite"
            pre = "-"
            if prev and e["op"] in ("Write", "WriteNC", "DropNC"):
                i = e["args"][0]
                pre = ("C" if i in prev["comp"] else "") + ("N" if i in prev["nc"] else "") or "-"
            key = f"trace:{kind}:{e['op']}:mode={prev['mode'] if prev else '?'}:pre={pre}:ret={e['ret']}"
            if key == "trace:dir:WriteNC:mode=a:pre=N:ret=ok":
                key = "dir:append-rewrites-not-completed"
            run.fail(key, {"source": tag, "trace_src": e["src"], "step": l, "event": e, "previous": prev}, what="recorded execution is not a behaviour of DataStore.tla")
        if raw and raw[0]:
            run.sample({"trace_source": tag, "first_events": [{k: v for k, v in e.items() if k != "src"} for e in raw[0][:3]]})
    run.note("trace_validation", stats)
