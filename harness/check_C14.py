"""C14 - composed apps account for every input exactly once, on any schedule (ComposedApp.tla).

spec -> code
  * TLC explores ComposedApp.tla exhaustively (all plans = per-input/per-step outcome classes,
    worker counts, completion orders, consumption lags) and emits one record per complete
    behaviour whose results were consumed as they completed: (plan, w, order, written, vals).
  * serial behaviours are replayed through real `c14_load + c14_g1 + c14_g2 + writer` apps
    (write_seqs / write_json / write_db on directory and sqlite stores, inputs as data-store
    members and as paths); the store (live object and re-opened from disk), the sequence of
    records handed to the store and `as_completed` are compared with the spec's values;
  * parallel behaviours are FORCED on the real loky executor: tasks block on gate files, a
    scheduler thread releases them in TLC's completion order, each only after the master wrote
    the previous record (impl_C14.scheduler);
  * every record must be identical to the one a single-input run of the same app produces;
  * STATE BETWEEN RECORDS: in half of the sequence-family runs step 2 is a FUNCTION style app built
    with a list and a dict argument that it changes in place; its output carries what the call
    found in them, compared with the spec's `argseen` (always the arguments as constructed:
    invariant ArgPristine, refuted by TLC for the shared-copy design in MC_ComposedApp_leak.cfg),
    in serial order, reversed order (spec variable `rev`), as_completed, parallel and alone;
  * the outcome classes are enacted with several VALUE CLASSES (spec variable `named`): the value a
    failing step is handed / a `wrong` step returns is a cogent3 object, a dict with or without
    info/source (incl. "info": None as to_rich_dict() makes), a path string or bytes.
growth (beyond the listed property)
  * ComposedAppRuns.tla (runs_C14.py): histories of apply_to runs on one output store - resuming in
    append mode, one log record per logged run written after the data records and naming what the
    run wrote, refused argument lists, mixed path / member inputs, as_completed;
  * ComposedAppLinks.tla (links_C14.py): composing, using, disconnecting and re-composing the same
    app objects, opt-in steps (skip_not_completed=False), type checks at composition and at call.
code -> spec
  * free-running parallel runs with skewed task durations, the forced runs and a sample of the
    serial runs are turned into event traces (time stamps from workers and master) that
    Trace_ComposedApp.tla accepts or rejects.
"""
from __future__ import annotations

import itertools
import json
import multiprocessing as mp
import os
import random
import re
import shutil
import subprocess
import sys
import threading
import time
from collections import defaultdict
from pathlib import Path

import impl_C14
from common import Run, main_wrapper
from graph import _worker_init
from tlc import VERIF, MachineryError, Scratch, read_emitted, run_tlc, tla_value

S = 3
OUTCOMES = ["ok", "raise", "none", "wrong", "nc"]
PROFILES = [("ok",) * S] + [
    tuple(o if s == k else "ok" for s in range(S)) for k in range(S) for o in OUTCOMES[1:]
]
TLC_WORKERS = int(os.environ.get("VERIF_C14_TLC_WORKERS", "8"))
NPROC = int(os.environ.get("VERIF_C14_NPROC", "8"))
NMASTERS = int(os.environ.get("VERIF_C14_MASTERS", "6"))
NMASTERS_QUICK = int(os.environ.get("VERIF_C14_MASTERS_QUICK", "7"))
TYPED_WRITERS = ["write_seqs", "write_seqs_sqlite"]
UNTYPED_WRITERS = ["write_json", "write_db", "write_json_sqlite"]


# ------------------------------------------------------- value classes (apps_C14.py)
def instantiations(plan, typed, named, k, writer_for):
    """ways to enact one emitted behaviour with concrete value classes:
    -> [(family, vclass per input, writer)], chosen by rotation on k (no oracle here: the spec's
    `named` flag only says whether the value met by the failing step names its source)
      family seqs   : values are SequenceCollections (always naming their source); the flag can only
                      be realised by the class of the wrongly typed value a `wrong` step returns
      family values : the class of the flowing value realises the flag; steps accept all classes,
                      so plans with a `wrong` outcome are left to the other family"""
    import apps_C14 as A

    out = []
    fails = [next((s + 1 for s, o in enumerate(p) if o != "ok"), 0) for p in plan]
    has_wrong = ["wrong" in p for p in plan]
    if not typed and not any(has_wrong):
        writer = writer_for(k)
        vc = []
        for i, nm in enumerate(named):
            pool = A.NAMED_VALUES if nm else tuple(c for c in A.UNNAMED_VALUES if c != "bytes" or writer == "write_db")
            vc.append(pool[(k + i) % len(pool)])
        out.append(("values", vc, writer))
    if all(nm or has_wrong[i] or fails[i] in (0, 1) for i, nm in enumerate(named)) and (not all(named)) and any(has_wrong[i] and not nm for i, nm in enumerate(named)):
        vc = []
        for i, nm in enumerate(named):
            pool = A.NAMED_WRONG if nm else A.UNNAMED_WRONG
            vc.append(pool[(k + i) % len(pool)] if has_wrong[i] else "")
        out.append(("seqs", vc, "write_seqs" if typed else writer_for(k + 1)))
    return out


def step3_of(tier, k):
    cyc = ("typed", "ser_attr", "ser_safe") if tier == "quick" else ("typed", "ser_attr", "ser_safe", "id_attr", "id_safe")
    return cyc[(k // 2) % len(cyc)]


def named_wrong_classes(plan, k):
    import apps_C14 as A

    return [A.NAMED_WRONG[(k + i) % 2] if "wrong" in p else "" for i, p in enumerate(plan)]


# ------------------------------------------------------------------- plan selection
def gen_plans(n, seed):
    """seeded pairwise-covering set of plans: every pair of (input position, profile) values
    occurs together in some plan"""
    rnd = random.Random(seed * 7919 + n)
    if n == 1:
        return [(p,) for p in PROFILES]
    need = {(a, pa, b, pb) for a, b in itertools.combinations(range(n), 2) for pa in PROFILES for pb in PROFILES}
    plans = [tuple(PROFILES[0] for _ in range(n))]
    for a, b in itertools.combinations(range(n), 2):
        need.discard((a, PROFILES[0], b, PROFILES[0]))
    while need:
        pool = sorted(need)
        best, gain = None, -1
        for _ in range(30):
            a, pa, b, pb = rnd.choice(pool)
            cand = [rnd.choice(PROFILES) for _ in range(n)]
            cand[a], cand[b] = pa, pb
            g = sum((x, cand[x], y, cand[y]) in need for x, y in itertools.combinations(range(n), 2))
            if g > gain:
                best, gain = tuple(cand), g
        plans.append(best)
        for x, y in itertools.combinations(range(n), 2):
            need.discard((x, best[x], y, best[y]))
    return plans


NAMINGS = ("suffix", "suffixlast", "prefix", "prefixlast", "dotted", "globlast", "globfirst", "wildcards", "punct", "digits", "long")


def real_names(names):
    """\\uXXXX in a name emitted by TLC stands for that character (the spec source is ASCII)"""
    return [n.encode("ascii").decode("unicode_escape") if "\\u" in n else n for n in names]



def prepare_namings(in_dir, recs):
    """input records for every naming scheme TLC explored, one directory per (scheme, n)"""
    for r in recs:
        r["names"] = real_names(r["names"])
    for naming, names in {(r["naming"], tuple(r["names"])) for r in recs if r["naming"] != "plain"}:
        d = Path(in_dir) / f"{naming}-{len(names)}"
        d.mkdir(exist_ok=True)
        impl_C14.prepare_named_inputs(d, names)


def in_dir_of(in_dir, job):
    if job.get("naming", "plain") == "plain":
        return str(in_dir)
    return str(Path(in_dir) / f"{job['naming']}-{len(job['names'])}")


REPS = ("list", "tuple", "liststr", "members", "datastore", "generator", "map", "iter", "reversed", "glob")


def write_cfg(scratch: Path, name, n, ws, typed, plans, named=(True,), namings=("plain",), reps=("list",)):
    """-> (cfg path relative to specs/, PLAN_FILE)"""
    text = (
        "SPECIFICATION Spec\nCONSTANTS\n"
        f"  N = {n}\n  S = {S}\n  Ws = {tla_value(set(ws))}\n"
        f"  WriterTyped = {{{', '.join('TRUE' if t else 'FALSE' for t in typed)}}}\n"
        f"  Named = {{{', '.join('TRUE' if t else 'FALSE' for t in named)}}}\n"
        "  Reversed = {FALSE}\n  FnStep = 2\n  Isolated = TRUE\n"
        f"  Namings = {tla_value(set(namings))}\n  RetireRule = \"equal\"\n"
        f"  Reps = {tla_value(set(reps))}\n"
    )
    text += "".join(f"INVARIANT {i}\n" for i in ("TypeOK", "Conservation", "AtMostOnce", "Accounted", "KindAndStep", "PassThrough", "Fifo", "ArgPristine"))
    text += "PROPERTY WriteOnce\n"
    p = scratch / name
    p.write_text(text)
    pf = scratch / (name + ".plans.json")
    pf.write_text(json.dumps([[list(q) for q in plan] for plan in plans]))
    return os.path.relpath(p, VERIF / "specs"), pf


def model(run, scratch, cfg, tag, emit=True, spec="ComposedApp", workers=None):
    """one TLC run -> emitted behaviours; safe to call from several threads"""
    env = {}
    if isinstance(cfg, tuple):
        cfg, env["PLAN_FILE"] = cfg
    path = scratch / f"emit-{tag}.ndjson"
    if emit:
        env["EMIT_FILE"] = path
    res = run_tlc(spec, cfg, scratch, workers=workers or TLC_WORKERS, env=env, timeout=1500)
    recs = list(read_emitted(path)) if emit else []
    with _LOCK:
        run.add_tlc(res)
        run.extra.setdefault("tlc_runs", []).append({"cfg": tag, "states": res.distinct, "transitions": res.generated, "depth": res.depth, "wall_s": round(res.wall, 1), "behaviours_emitted": len(recs)})
    return recs


def models(run, scratch, specs, workers):
    """several independent TLC runs side by side"""
    from concurrent.futures import ThreadPoolExecutor

    with ThreadPoolExecutor(len(specs)) as ex:
        futs = [ex.submit(model, run, scratch, cfg, tag, emit, "ComposedApp", workers) for cfg, tag, emit in specs]
        out = []
        for f in futs:
            out += f.result()
    return out


_LOCK = threading.Lock()


# -------------------------------------------------------------------- job execution
_CTX = {}


def _serial_task(job):
    root = Path(_CTX["scratch"]) / f"s-{os.getpid()}-{job['id']}"
    try:
        if job.get("kind") == "as_completed":
            obs = impl_C14.run_as_completed(job, root)
            obs["id"] = job["id"]
        else:
            obs = impl_C14.run_job(job, root)
    except BaseException as ex:  # noqa
        import traceback

        obs = {"id": job["id"], "ret": "harness-error", "machinery": True, "traceback": traceback.format_exc()[-2500:]}
    shutil.rmtree(root, ignore_errors=True)
    return obs


def run_serial_jobs(jobs, scratch):
    _CTX["scratch"] = str(scratch)
    out = {}
    ctx = mp.get_context("fork")
    with ctx.Pool(NPROC, initializer=_worker_init) as pool:
        for obs in pool.imap_unordered(_serial_task, jobs, chunksize=4):
            out[obs["id"]] = obs
    return out


class Masters:
    """parallel apply_to needs one master process per concurrent run: `nm` runner processes,
    each working through its share of the jobs; started in the background, collected later"""

    def __init__(self, jobs, scratch, tag, nm):
        self.tag = tag
        self.procs = []
        if not jobs:
            return
        nm = min(nm, len(jobs))
        for k, chunk in enumerate([jobs[k::nm] for k in range(nm)]):
            jf = scratch / f"jobs-{tag}-{k}.json"
            of = scratch / f"obs-{tag}-{k}.ndjson"
            ef = scratch / f"err-{tag}-{k}.txt"
            jf.write_text(json.dumps(chunk))
            wd = scratch / f"m-{tag}-{k}"
            wd.mkdir()
            p = subprocess.Popen(
                [sys.executable, str(VERIF / "harness" / "runner_C14.py"), str(jf), str(of), str(wd)],
                cwd=str(wd), stdout=subprocess.DEVNULL, stderr=open(ef, "w"), start_new_session=True,
            )
            self.procs.append((p, of, ef, len(chunk)))

    def collect(self):
        out = {}
        try:
            for p, of, ef, cnt in self.procs:
                try:
                    p.wait(timeout=180 + 120 * cnt)
                except subprocess.TimeoutExpired:
                    raise MachineryError(f"runner for {self.tag} timed out")
                if p.returncode != 0:
                    raise MachineryError(f"runner for {self.tag} failed rc={p.returncode}:\n{ef.read_text()[-2000:]}")
                for line in of.read_text().splitlines():
                    obs = json.loads(line)
                    out[obs["id"]] = obs
        finally:
            self.kill()
        return out

    def kill(self):
        # a finished master's loky workers exit by themselves; make sure nothing is left behind
        for p, *_ in self.procs:
            try:
                os.killpg(p.pid, 9)
            except Exception:
                pass
            try:
                p.wait(timeout=5)
            except Exception:
                pass


# --------------------------------------------------------------------------- judging
def diff_written(exp, got):
    """structural classes of the differences between two written arrays (empty = equal)"""
    if got is None:
        return ["unobservable"]
    out = set()
    for e, g in zip(exp, got):
        if e == g:
            continue
        if e["kind"] != g["kind"]:
            tag = f"{e['kind']}"
            if e["kind"] == "not_completed":
                tag += f"({e['msg']})"
            out.add(f"{tag}->{g['kind']}")
        else:
            flds = sorted(k for k in set(e) | set(g) if e.get(k) != g.get(k))
            out.add(f"{e['kind']}" + (f"({e['msg']})" if e["kind"] == "not_completed" else "") + "." + "+".join(flds))
    return sorted(out)


SEPARATE_ANOMALIES = ("sqlite:not_completed-identifier-carries-.json-suffix",)


DISTINCT = set()


def alone_key(job, i):
    vc = (job.get("vclass") or [""] * job["n"])[i - 1]
    names = (job["naming"],) + tuple(job["names"]) if job.get("naming", "plain") != "plain" else ()
    return (names, job.get("family", "seqs"), (job.get("step3") or "") + "/" + (job.get("step2") or ""), job["writer"], job["inputs"], tuple(job["plan"][i - 1]), vc, i)


def count_case(job):
    """distinct non-trivial case: (mode, writer, input kind, plan, W, order) with at least one failing record"""
    if any(o != "ok" for p in job["plan"] for o in p):
        DISTINCT.add((job.get("kind", "apply_to"), job.get("family"), job.get("naming"), job.get("rep"), job.get("step2"), job.get("step3"), bool(job.get("rev")), json.dumps(job.get("vclass")), job.get("writer"), job["inputs"], json.dumps(job["plan"]), job.get("w", 0), tuple(job.get("order") or ()), tuple(job.get("delays") or ())))


def judge(run, job, rec, obs, alone):
    """compare the observations of one real run with the behaviour TLC emitted"""
    count_case(job)
    writer = job["writer"]
    mode = "serial" if job["w"] == 0 else "parallel"
    exp = rec["written"]
    detail = {"job": {k: v for k, v in job.items() if k != "in_dir"}, "spec": {"written": exp, "cons": rec["cons"]}, "observed": {k: v for k, v in obs.items() if k not in ("raw",)}}
    bad = False
    if obs.get("machinery"):
        raise MachineryError(f"harness failure in job {job}:\n{obs.get('traceback')}")
    n = job["n"]
    writes = obs.get("writes", [])
    if obs["ret"] != "ok":
        cause = "unexplained"
        if any(e["kind"] == "not_completed" and e["origin"] == S + 1 for e in exp):
            cause = "wrongly-typed-value-reaches-typed-writer"
        key = f"apply_to-raised:{writer.split('_sqlite')[0]}:{obs.get('exception')}:{cause}"
        bad |= run.fail(key, detail, what="apply_to raised because of one record; remaining inputs were not processed")
        # what was written before the exception must still be right
        for wr in writes:
            if not 1 <= wr["i"] <= n or wr["rec"] != exp[wr["i"] - 1]:
                bad |= run.fail(f"{mode}:{writer}:record-before-exception-differs", detail, what="a record written before apply_to raised differs from the spec")
        return bad
    # anomalies with a cause of their own are reported under their own key
    anomalies = set(obs.get("live_anomalies", [])) | set(obs.get("disk_anomalies", []))
    for a in SEPARATE_ANOMALIES:
        if a in anomalies:
            anomalies.discard(a)
            bad |= run.fail(f"{writer}:{a}", detail, what="record stored under an identifier that is not the input's identifier")
    for a in sorted({re.sub(r"^(live|disk):", "", a) for a in anomalies}):
        bad |= run.fail(f"{mode}:{writer}:anomaly:{a}", detail, what="store content anomaly")
    d = diff_written(exp, obs.get("disk"))
    for cls in d:
        bad |= run.fail(f"{mode}:{writer}:store:{cls}", detail, what="output store differs from the spec's `written`")
    dl = diff_written(exp, obs.get("live"))
    for cls in dl:
        if cls not in d:
            bad |= run.fail(f"{mode}:{writer}:live-store:{cls}", detail, what="data store object returned by apply_to differs from the spec's `written`")
    if not obs.get("returns_store"):
        bad |= run.fail(f"{mode}:{writer}:apply_to-does-not-return-store", detail)
    # the function style step's mutable arguments: every call found them as constructed
    if job.get("step2") == "fn":
        if obs.get("argseen") != rec["argseen"]:
            bad |= run.fail(f"{mode}:function-step-mutable-argument-not-as-constructed", detail | {"spec_argseen": rec["argseen"]}, what="a call of the function style step found arguments changed by another record")
        if obs.get("ctor_args_unchanged") is False:
            bad |= run.fail(f"{mode}:function-step-changed-the-callers-argument-objects", detail)
    # each identifier handed to the store exactly once, in the order the schedule dictates
    seq = [wr["i"] for wr in writes]
    if len(seq) != len(set(seq)):
        bad |= run.fail(f"{mode}:{writer}:record-written-more-than-once", detail, what="an identifier was written twice")
    elif sorted(seq) != list(range(1, n + 1)):
        bad |= run.fail(f"{mode}:{writer}:set-of-written-identifiers", detail, what="identifiers handed to the store are not the inputs' identifiers")
    elif (mode == "serial" or job.get("order")) and seq != rec["cons"] and "unforced" not in obs and job.get("rep") not in impl_C14.UNORDERED_REPS:
        bad |= run.fail(f"{mode}:{writer}:consumption-order", detail, what="records were written in an order the schedule does not allow")
    for wr in writes:
        if 1 <= wr["i"] <= n and wr["rec"] != exp[wr["i"] - 1] and not d:
            bad |= run.fail(f"{mode}:{writer}:record-overwritten", detail, what="a record handed to the store differs from the final one")
    # identical to the single-input run
    if not d and job.get("rep") not in impl_C14.UNORDERED_REPS:  # (those read another directory: the source path differs)
        for i in range(1, n + 1):
            ref = alone.get(alone_key(job, i))
            if ref is not None and obs["raw"].get(str(i)) != ref:
                bad |= run.fail(f"{mode}:{writer}:content-differs-from-single-input-run:{exp[i - 1]['kind']}", detail, what="record content differs from applying the app to that input alone")
    if "unforced" in obs and not bad:
        return "unforced"
    return bad


def judge_free(run, job, obs):
    count_case(job)
    writer = job["writer"]
    detail = {"job": {k: v for k, v in job.items() if k != "in_dir"}, "observed": {k: v for k, v in obs.items() if k != "raw"}}
    if obs["ret"] != "ok":
        # explained (or not) by the forced/serial runs of the same class; the trace has no Final event
        cause = "wrongly-typed-value-reaches-typed-writer" if impl_C14.WRITERS[writer][2] and any(p[S - 1] == "wrong" for p in job["plan"]) else "unexplained"
        return run.fail(f"apply_to-raised:{writer.split('_sqlite')[0]}:{obs.get('exception')}:{cause}", detail, what="apply_to raised because of one record")
    anomalies = set(obs.get("live_anomalies", [])) | set(obs.get("disk_anomalies", []))
    bad = False
    for a in SEPARATE_ANOMALIES:
        if a in anomalies:
            anomalies.discard(a)
            bad |= run.fail(f"{writer}:{a}", detail, what="record stored under an identifier that is not the input's identifier")
    for a in sorted({re.sub(r"^(live|disk):", "", a) for a in anomalies}):
        bad |= run.fail(f"parallel:{writer}:anomaly:{a}", detail)
    seq = [wr["i"] for wr in obs.get("writes", [])]
    if len(seq) != len(set(seq)):
        bad |= run.fail(f"parallel:{writer}:record-written-more-than-once", detail)
    if obs.get("live") != obs.get("disk"):
        bad |= run.fail(f"parallel:{writer}:live-store-differs-from-disk", detail)
    return bad


def judge_as_completed(run, job, rec, obs):
    count_case(job)
    detail = {"job": {k: v for k, v in job.items() if k != "in_dir"}, "spec": rec["vals"], "observed": obs}
    if obs.get("machinery"):
        raise MachineryError(str(obs.get("traceback")))
    if obs["ret"] != "ok":
        return run.fail(f"as_completed:raised:{obs.get('exception')}", detail)
    exp = [{"src": i + 1, "obj": v} for i, v in enumerate(rec["vals"])]
    if bool(job.get("rev")) != (job.get("rep") == "reversed"):
        exp.reverse()
    if job.get("rep") in impl_C14.UNORDERED_REPS and obs.get("ret") == "ok":
        obs = dict(obs, results=sorted(obs["results"], key=lambda r: r["src"]))
    if job.get("step2") == "fn" and obs.get("ret") == "ok" and obs.get("argseen") != rec["argseen"]:
        run.fail("as_completed:function-step-mutable-argument-not-as-constructed", detail | {"spec_argseen": rec["argseen"]}, what="a call of the function style step found arguments changed by another record")
    if obs["anomalies"]:
        return any([run.fail(f"as_completed:anomaly:{a}", detail) for a in sorted(set(obs["anomalies"]))])
    if obs["results"] != exp:
        kinds = sorted({f"{e['obj']['k']}({e['obj'].get('msg', '')})" for e, g in itertools.zip_longest(exp, obs["results"], fillvalue={"obj": {"k": "missing"}}) if e != g})
        return any([run.fail(f"as_completed:results:{k}", detail, what="as_completed results differ from the spec's values") for k in kinds])
    return False


# ---------------------------------------------------------------------------- traces
def trace_of(job, obs):
    """events of one real run in the vocabulary of Trace_ComposedApp"""
    n, w = job["n"], job["w"]
    ev = [{"op": "Submit", "t": 0}]
    if w == 0:
        for wr in obs.get("writes", []):
            ev.append({"op": "Serial", "t": wr["i"], "rec": wr["rec"]})
    else:
        timed = []
        for t, (a, b) in (obs.get("stamps") or {}).items():
            timed.append((b, 0, "Complete", int(t), None))
        for wr in obs.get("writes", []):
            timed.append((wr["ts"], 1, "Consume", wr["i"], wr["rec"]))
        timed.sort(key=lambda x: (x[0], x[1]))
        started = 0
        for _, _, op, t, r in timed:
            if op == "Complete":
                # tasks are dispatched from a FIFO queue: when t is seen to have run, every
                # earlier input has been picked up as well
                while started < t:
                    started += 1
                    ev.append({"op": "Start", "t": started})
                ev.append({"op": "Complete", "t": t})
            else:
                ev.append({"op": "Consume", "t": t, "rec": r})
    if obs["ret"] == "ok":
        ev.append({"op": "Final", "t": 0, "rec": obs["disk"]})
    return {"plan": [list(p) for p in job["plan"]], "named": job.get("named") or [True] * n, "rev": bool(job.get("rev")), "rep": job.get("rep") or "list", "naming": job.get("naming") or "plain", "w": w, "wtyped": impl_C14.WRITERS[job["writer"]][2], "events": ev}


def validate_traces(run, scratch, pairs):
    """pairs: [(job, obs)]; one TLC run per input count, side by side"""
    from concurrent.futures import ThreadPoolExecutor

    by_n = defaultdict(list)
    for job, obs in pairs:
        if obs.get("disk") is None:
            continue
        by_n[job["n"]].append((job, trace_of(job, obs)))

    def one(n, items):
        tf = scratch / f"traces-{n}.json"
        tf.write_text(json.dumps([t for _, t in items]))
        cfg = scratch / f"Trace_ComposedApp_{n}.cfg"
        cfg.write_text(
            "SPECIFICATION TraceSpec\nCONSTANTS\n"
            f"  N = {n}\n  S = {S}\n  Ws = {{0, 1, 2, 3, 4}}\n  WriterTyped = {{TRUE, FALSE}}\n  Named = {{TRUE, FALSE}}\n"
            "  Reversed = {FALSE, TRUE}\n  FnStep = 2\n  Isolated = TRUE\n"
            f"  Namings = {tla_value(set(NAMINGS) | {'plain'})}\n  RetireRule = \"equal\"\n  Reps = {tla_value(set(REPS))}\n"
            "INVARIANT Report\n"
        )
        res = run_tlc("Trace_ComposedApp", os.path.relpath(cfg, VERIF / "specs"), scratch, workers=1, env={"TRACE_FILE": tf, "PLAN_FILE": ""}, timeout=1200)
        m = re.search(r'<<\s*"TRACE-VERDICT",\s*(\d+),\s*(\{.*?\})\s*>>', res.out, re.S)
        if not m or int(m.group(1)) != len(items):
            raise MachineryError("no TRACE-VERDICT from TLC:\n" + res.out[-3000:])
        return [(int(a), int(b)) for a, b in re.findall(r"<<\s*(\d+),\s*(\d+)\s*>>", m.group(2))]

    stats = {}
    with ThreadPoolExecutor(max(1, len(by_n))) as ex:
        futs = {n: ex.submit(one, n, items) for n, items in sorted(by_n.items())}
        rejected = {n: f.result() for n, f in futs.items()}
    for n, items in sorted(by_n.items()):
        rej = rejected[n]
        nev = sum(len(t["events"]) for _, t in items)
        stats[f"n={n}"] = {"traces": len(items), "events": nev, "rejected": len(rej)}
        run.cov["traces_validated_against_impl"] += len(items)
        run.cov["evaluations"] += nev
        for tid, l in rej:
            job, tr = items[tid - 1]
            e = tr["events"][l - 1]
            mode = "serial" if job["w"] == 0 else ("forced" if job.get("order") else "free")
            run.fail(
                f"trace:{mode}:{job['writer']}:{e['op']}-rejected",
                {"job": {k: v for k, v in job.items() if k != "in_dir"}, "step": l, "event": e, "trace": tr},
                what="recorded execution is not a behaviour of ComposedApp.tla",
            )
        if items:
            run.sample({"trace_of": {k: v for k, v in items[-1][0].items() if k != "in_dir"}, "events": items[-1][1]["events"][:8]})
    run.note("trace_validation", stats)


# ------------------------------- many inputs: the scheduler's submission (ComposedAppSubmit.tla)
BULK_FAIL = (["ok", "raise", "ok"], ["ok", "ok", "none"], ["nc", "ok", "ok"], ["ok", "wrong", "ok"])


def start_bulk(run, scratch, in_dir):
    """TLC on ComposedAppSubmit.tla (all orders for small windows; the refuted refill rule; the law
    instantiated for n = 70 and 150), then the REAL parallel path with max_workers = 2 and that many
    tiny inputs - more than any internal batching of the scheduler - for apply_to and as_completed"""
    recs = model(run, scratch, "MC_ComposedApp_submit_bulk.cfg", "submit(n=70,150)", True, "ComposedAppSubmit", 2)
    jobs = {}
    jid = 3 * 10**6
    for r in sorted(recs, key=lambda r: r["n"]):
        n = r["n"]
        names = [f"b{i:03d}" for i in range(1, n + 1)]
        d = Path(in_dir) / f"bulk-{n}"
        d.mkdir(exist_ok=True)
        impl_C14.prepare_named_inputs(d, names)
        plan = [list(BULK_FAIL[i % len(BULK_FAIL)]) if k == "not_completed" else ["ok", "ok", "ok"] for i, k in enumerate(r["kinds"])]
        base = {"n": n, "names": names, "naming": "bulk", "plan": plan, "w": 2, "order": [], "family": "seqs", "step2": None, "inputs": "path", "in_dir": str(d)}
        for kind in ("apply_to", "as_completed"):
            jid += 1
            job = dict(base, id=jid, writer="write_seqs")
            if kind == "as_completed":
                job["kind"] = "as_completed"
            jobs[jid] = (job, r)
    return jobs, Masters([j for j, _ in jobs.values()], scratch, "bulk", 4)


def judge_bulk(run, jobs, obs_all):
    for j, (job, rec) in jobs.items():
        o = obs_all[j]
        n = job["n"]
        what = job.get("kind", "apply_to")
        detail = {"job": {k: v for k, v in job.items() if k not in ("in_dir", "plan", "names")}, "observed": {k: v for k, v in o.items() if k in ("ret", "exception", "traceback", "anomalies", "live_anomalies", "disk_anomalies")}}
        if o.get("machinery"):
            raise MachineryError(str(o.get("traceback")))
        if o["ret"] != "ok":
            run.fail(f"bulk:{what}:raised:{o.get('exception')}", detail, what="a parallel run over many inputs raised")
            continue
        if what == "as_completed":
            got = [r["src"] for r in o["results"]]
            kinds = {r["src"]: ("not_completed" if r["obj"]["k"] == "nc" else "completed") for r in o["results"]}
        else:
            got = [w["i"] for w in o["writes"]]
            kinds = {i + 1: r["kind"] for i, r in enumerate(o["disk"]) if r["kind"] != "none"}
        detail["observed"]["n_results"] = len(got)
        missing = [i for i in range(1, n + 1) if i not in got]
        detail["observed"]["inputs_without_result"] = missing[:20]
        if missing:
            run.fail(f"bulk:{what}:inputs-without-a-result", detail, what=f"{len(missing)} of {n} inputs were never accounted for")
        if len(got) != len(set(got)):
            run.fail(f"bulk:{what}:input-accounted-for-twice", detail)
        wrong = [i for i in kinds if kinds[i] != rec["kinds"][i - 1]]
        if wrong:
            detail["observed"]["wrong_kind"] = wrong[:20]
            run.fail(f"bulk:{what}:record-kind", detail)
        if what == "apply_to" and (set(kinds) != set(got) or o.get("live_anomalies") or o.get("disk_anomalies")):
            run.fail(f"bulk:{what}:store-differs-from-records-handed-over", detail)
        count_case(dict(job, plan=[["bulk"]], inputs=f"n={n}"))
    run.cov["traces_validated_against_impl"] += len(jobs)
    run.note("many_inputs", {"runs": len(jobs), "inputs": sorted({job["n"] for job, _ in jobs.values()}), "max_workers": 2})


# -------------------------------------------- growth: histories of runs, composition of objects
def start_growth_models(run, scratch, tier):
    """TLC on ComposedAppRuns.tla (both store kinds) and ComposedAppLinks.tla, in the background"""
    from concurrent.futures import ThreadPoolExecutor

    def cfg_runs(name, retry):
        if tier == "quick":
            return f"MC_ComposedApp_runs_{name}.cfg"
        p = scratch / f"MC_runs_{name}.cfg"
        text = (VERIF / "specs" / f"MC_ComposedApp_runs_{name}.cfg").read_text().replace("MaxRuns = 2", "MaxRuns = 3") + "PROPERTY AllGivenAccounted\n"
        p.write_text(text)
        return os.path.relpath(p, VERIF / "specs")

    ex = ThreadPoolExecutor(7)
    return ex, {
        "MC_ComposedApp_leak.cfg": ex.submit(run_tlc, "ComposedApp", "MC_ComposedApp_leak.cfg", scratch, workers=1, must_pass=False),
        "MC_ComposedApp_retire.cfg": ex.submit(run_tlc, "ComposedApp", "MC_ComposedApp_retire.cfg", scratch, workers=1, must_pass=False),
        "MC_ComposedApp_submit_cx.cfg": ex.submit(run_tlc, "ComposedAppSubmit", "MC_ComposedApp_submit_cx.cfg", scratch, workers=1, must_pass=False),
        "submit": ex.submit(model, run, scratch, "MC_ComposedApp_submit.cfg", "submit(n<=5, windows 0-2, all orders)", False, "ComposedAppSubmit", 1),
        "runs-dir": ex.submit(model, run, scratch, cfg_runs("retry", True), "runs-retry(dir)", True, "ComposedAppRuns", 2),
        "runs-sqlite": ex.submit(model, run, scratch, cfg_runs("keep", False), "runs-keep(sqlite)", True, "ComposedAppRuns", 2),
        "links": ex.submit(model, run, scratch, "MC_ComposedApp_links.cfg" if tier == "quick" else "MC_ComposedApp_links_thorough.cfg", "links", True, "ComposedAppLinks", 2),
    }


def replay_growth(run, scratch, in_dir, tier, futs):
    import links_C14
    import runs_C14
    from graph import Graph, explore

    t0 = time.time()
    stats = {}
    runs_C14.warm_up(scratch, in_dir)
    budgets = {"runs-dir": 100, "runs-sqlite": 30, "links": 300} if tier == "quick" else {"runs-dir": 2000, "runs-sqlite": 500, "links": 8000}
    for name, kind in (("runs-dir", "dir"), ("runs-sqlite", "sqlite")):
        recs = futs[name].result()
        if tier == "quick":
            # the budget goes to what a history can change: every call on a fresh store, and on a
            # store with a history the accepted apply_to calls (resuming, logging) plus 1 in 6 of the rest
            # (selection is per (state, call): all outcomes the spec allows for a kept call stay together)
            import zlib

            recs = [
                r for r in recs
                if r["from"]["nrun"] == 0
                or (r["act"] == "ApplyTo" and r["args"][0] and r["args"][2] == 0)
                or zlib.crc32(json.dumps([r["from"], r["act"], r["args"]], sort_keys=True).encode()) % 6 == 0
            ]
        init = {"store": [{"kind": "none", "run": 0}] * 2, "logs": [], "nrun": 0}
        st = explore(Graph(recs), init, runs_C14.RunsAdapter(kind, 2, scratch, in_dir), run, budget=budgets[name], seed=run.seed)
        stats[name] = st
    recs = futs["links"].result()
    apps = "LAPRW" if tier == "quick" else "LAPRXW"
    init = {"link": {a: "none" for a in apps}}
    stats["links"] = explore(Graph(recs), init, links_C14.LinksAdapter(scratch, apps), run, budget=budgets["links"], seed=run.seed)
    n = sum(st["impl_transitions_checked"] for st in stats.values())
    run.cov["traces_validated_against_impl"] += n
    stats["wall_s"] = round(time.time() - t0, 1)
    run.note("growth_replays", stats)
    if recs:
        run.sample({"links_transition": recs[len(recs) // 2]})
    return n


# ----------------------------------------------------------------------------- check
def index_records(recs):
    ser, par = {}, defaultdict(list)
    for r in recs:
        plan = tuple(tuple(p) for p in r["plan"])
        if r["act"] == "Serial":
            ser[(r["n"], plan, r["wtyped"], tuple(r["named"]), bool(r["rev"]), r["naming"], r["rep"])] = r
        elif not r["rev"] and r["rep"] == "list":
            par[(r["n"], r["w"], tuple(r["order"]))].append(r)
    return ser, par


def build_parallel_jobs(run, tier, par, cover, in_dir, jid, rnd):
    """forced schedules (job, behaviour) and free-running runs"""
    classes = sorted(par)
    if tier == "quick":
        # six (n = 4, W, order) classes with different orders, three for each W
        chosen = []
        for w in (2, 3):
            c4 = [c for c in classes if c[0] == 4 and c[1] == w and list(c[2]) != sorted(c[2])]
            rnd.shuffle(c4)
            chosen += [(c, 1) for c in c4[:3]]
    else:
        chosen = [(c, {2: 4, 3: 6, 4: 8}[c[0]]) for c in classes if c[1] > 0 and c[0] >= 2]
    wr_cycle = ["write_seqs", "write_json", "write_db", "write_json", "write_seqs", "write_db", "write_seqs_sqlite", "write_json_sqlite"]
    pjobs = {}
    cursor = defaultdict(int)
    k = 0
    for c, reps in chosen:
        n, w, order = c
        byplan = defaultdict(dict)
        mixed = []
        related = []
        for r in par[c]:
            if r["naming"] != "plain":
                related.append(r)
            elif all(r["named"]):
                byplan[tuple(tuple(p) for p in r["plan"])][r["wtyped"]] = r
            else:
                mixed.append(r)
        avail = [p for p in cover[n] if p in byplan] or sorted(byplan)
        for _ in range(reps):
            plan = avail[cursor[n] % len(avail)]
            cursor[n] += 1
            writer = wr_cycle[k % len(wr_cycle)]
            k += 1
            rec = byplan[plan][impl_C14.WRITERS[writer][2]]
            jid += 1
            job = {"id": jid, "n": n, "plan": [list(p) for p in plan], "named": [True] * n, "w": w, "order": list(order), "family": "seqs", "step2": "fn" if k % 2 == 0 else None, "vclass": named_wrong_classes(plan, k), "writer": writer, "inputs": ("member", "path")[k % 2], "in_dir": str(in_dir)}
            if writer in ("write_json", "write_db") and not any("wrong" in p for p in plan) and k % 2:
                # the same behaviour with other classes of value flowing between the steps
                job.update(family="values", step2=None, vclass=instantiations(plan, False, [True] * n, k, lambda _: writer)[0][1], step3=step3_of(tier, k + 2))
            pjobs[jid] = (job, rec)
        # behaviours whose failing steps meet values that do not name their source (thorough, n = 2)
        mixed.sort(key=lambda r: (r["plan"], r["named"], r["wtyped"]))
        nmixed = 0
        for r in mixed[cursor[("mixed", n)] % 7 :: 7]:
            if nmixed >= reps:
                break
            k += 1
            inst = instantiations([tuple(p) for p in r["plan"]], r["wtyped"], r["named"], k, lambda q: ("write_json", "write_db")[q % 2])
            if not inst:
                continue
            family, vc, writer = inst[k % len(inst)]
            jid += 1
            nmixed += 1
            pjobs[jid] = ({"id": jid, "n": n, "plan": [list(p) for p in r["plan"]], "named": list(r["named"]), "w": w, "order": list(order), "family": family, "vclass": vc, "step3": step3_of(tier, k) if family == "values" else None, "writer": writer, "inputs": ("member", "path")[k % 2], "in_dir": str(in_dir)}, r)
        cursor[("mixed", n)] += 3
        # behaviours whose inputs have related identifiers (thorough, n = 3): any completion order
        related.sort(key=lambda r: (r["naming"], r["plan"], r["wtyped"]))
        for r in related[cursor[("related", n)] % 11 :: max(1, len(related) // 5)][:5]:
            k += 1
            writer = ("write_seqs", "write_seqs_sqlite")[k % 4 == 3] if r["wtyped"] else ("write_json", "write_db", "write_json_sqlite")[k % 3]
            jid += 1
            pjobs[jid] = ({"id": jid, "n": n, "plan": [list(p) for p in r["plan"]], "named": list(r["named"]), "naming": r["naming"], "names": r["names"], "w": w, "order": list(order), "family": "seqs", "step2": "fn" if k % 2 else None, "vclass": named_wrong_classes([tuple(p) for p in r["plan"]], k), "writer": writer, "inputs": ("member", "path")[k % 2], "in_dir": in_dir_of(in_dir, {"naming": r["naming"], "names": r["names"]})}, r)
        cursor[("related", n)] += 7
    fjobs = {}
    nfree = 2 if tier == "quick" else 24
    for f in range(nfree):
        n = 4 if (f % 3 or 3 not in cover) else 3
        w = (2, 3, 1)[f % 3] if f >= 3 else (1, 3, 2)[f]
        plan = cover[n][(f * 5 + 1) % len(cover[n])]
        delays = [round(rnd.choice([0.0, 0.05, 0.2, 0.4, 0.6]), 2) for _ in range(n)]
        jid += 1
        fjobs[jid] = {"id": jid, "n": n, "plan": [list(p) for p in plan], "w": w, "order": [], "delays": delays, "family": "seqs", "step2": "fn" if f % 2 == 0 else None, "writer": wr_cycle[f % 6], "inputs": ("member", "path")[f % 2], "in_dir": str(in_dir)}
    return pjobs, fjobs, len(chosen), jid


def check(run: Run):
    tier = run.tier
    rnd = random.Random(run.seed)
    masters = None
    with Scratch("C14") as scratch:
        try:
            in_dir = impl_C14.prepare_inputs(scratch, 4)
            import apps_C14  # noqa: F401  (loaded once here, inherited by every forked worker)
            import cogent3.app.io  # noqa: F401

            bulk_jobs, bulk_masters = start_bulk(run, scratch, in_dir)
            gex, gfuts = start_growth_models(run, scratch, tier)
            plans2, plans3, plans4 = gen_plans(2, run.seed), gen_plans(3, run.seed), gen_plans(4, run.seed)
            live = scratch / "live.plans.json"
            live.write_text(json.dumps([[list(q) for q in plan] for plan in plans3[:12]]))
            # ------------------------------------------------- the model, part 1 (n = 4)
            t0 = time.time()
            if tier == "quick":
                plans4 = plans4[:9]
                rest = [
                    ("MC_ComposedApp_quick.cfg", "n2-all", True),
                    (write_cfg(scratch, "MC_n3_pairwise.cfg", 3, [0, 1, 2, 3], [True, False], plans3), "n3-pairwise", True),
                    # identifiers related by suffix / prefix / containing dots (serial order)
                    (write_cfg(scratch, "MC_n3_names.cfg", 3, [0], [True, False], plans3[::5], namings=NAMINGS), "n3-names", True),
                    # the collection of inputs handed over as a tuple, a generator, a map, reversed(), a glob ..
                    (write_cfg(scratch, "MC_n3_reps.cfg", 3, [0], [True, False], plans3[::12], reps=REPS[1:]), "n3-reps", True),
                ]
                # (liveness - MC_ComposedApp_live.cfg - is checked in the thorough tier)
                from concurrent.futures import ThreadPoolExecutor

                rex = ThreadPoolExecutor(1)
                rest_fut = rex.submit(models, run, scratch, rest, 3)
                recs4 = model(run, scratch, write_cfg(scratch, "MC_n4_few.cfg", 4, [2, 3], [True, False], plans4), "n4-few")
                _, par4 = index_records(recs4)
                # forced schedules for n = 4 start now and run beside the rest of the work
                pjobs, fjobs, nclasses, jid = build_parallel_jobs(run, tier, par4, {4: plans4}, in_dir, 10**6, rnd)
                masters = Masters([j for j, _ in pjobs.values()] + list(fjobs.values()), scratch, "par", NMASTERS_QUICK)
                recs = recs4 + rest_fut.result()
                rex.shutdown()
                prepare_namings(in_dir, recs)
                ser, par = index_records(recs)
            else:
                recs = models(
                    run, scratch,
                    [
                        ("MC_ComposedApp_quick.cfg", "n2-all", True),
                        ("MC_ComposedApp_thorough.cfg", "n3-all", True),
                        (write_cfg(scratch, "MC_n4_pairwise.cfg", 4, [0, 1, 2, 3], [True, False], plans4), "n4-pairwise", True),
                        (("MC_ComposedApp_live.cfg", live), "liveness", False),
                        (write_cfg(scratch, "MC_n3_names.cfg", 3, [0, 2, 3], [True, False], plans3[::2], namings=NAMINGS), "n3-names", True),
                        (write_cfg(scratch, "MC_n3_reps.cfg", 3, [0], [True, False], plans3, reps=REPS[1:]), "n3-reps", True),
                    ],
                    4,
                )
                prepare_namings(in_dir, recs)
                ser, par = index_records(recs)
                pjobs, fjobs, nclasses, jid = build_parallel_jobs(run, tier, par, {2: plans2, 3: plans3, 4: plans4}, in_dir, 10**6, rnd)
                masters = Masters([j for j, _ in pjobs.values()] + list(fjobs.values()), scratch, "par", NMASTERS)
            # design-level counterexample: one shared copy of the step's arguments breaks ArgPristine
            # and: retiring not-completed records by identifier suffix breaks Accounted
            gfuts["submit"].result()
            for cfg, inv in (("MC_ComposedApp_leak.cfg", "ArgPristine"), ("MC_ComposedApp_retire.cfg", "Accounted"), ("MC_ComposedApp_submit_cx.cfg", "NoneLost")):
                cx = gfuts[cfg].result()
                if not (cx.violated and inv in cx.out):
                    raise MachineryError(f"TLC did not refute {inv} in {cfg}:\n" + cx.out[-1500:])
            run.note("design_counterexamples", "MC_ComposedApp_leak.cfg (Isolated = FALSE): ArgPristine violated; MC_ComposedApp_retire.cfg (RetireRule = suffix): Accounted violated; MC_ComposedApp_submit_cx.cfg (refill takes one input more than it submits): NoneLost violated - as expected")

            run.note("behaviours", {"serial": len(ser), "parallel_order_classes": len(par), "parallel": sum(len(v) for v in par.values()), "tlc_wall_s": round(time.time() - t0, 1)})

            # --------------------------------------------------------- serial replays
            jobs, jid = [], 0
            serial_jobs = {}

            def add(job, rec):
                nonlocal jid
                jid += 1
                job.update(id=jid, in_dir=in_dir_of(in_dir, job))
                jobs.append(job)
                serial_jobs[jid] = (job, rec)

            wfor = lambda k: ("write_json", "write_db")[k % 2]
            for k, ((n, plan, typed, named, rev, naming, irep), rec) in enumerate(sorted(ser.items(), key=lambda kv: kv[0])):
                lplan = [list(p) for p in plan]
                base = {"n": n, "plan": lplan, "named": list(named), "w": 0, "order": [], "naming": naming, "names": rec["names"], "rep": irep}
                if irep != "list":
                    # the same inputs in another representation (one-shot iterables can be walked once)
                    writer = ("write_seqs", "write_seqs_sqlite")[k % 4 == 3] if typed else ("write_json", "write_db")[k % 2]
                    kind = {"members": "member", "datastore": "member", "liststr": "path", "glob": "path"}.get(irep, ("member", "path")[k % 2])
                    add(dict(base, family="seqs", step2="fn" if k % 2 else None, vclass=named_wrong_classes(plan, k), writer=writer, inputs=kind), rec)
                    if not typed and k % 2:
                        add(dict(base, kind="as_completed", family="seqs", step2=None, vclass=named_wrong_classes(plan, k), inputs=kind), rec)
                    continue
                if naming != "plain":
                    # identifiers related to each other: directory and sqlite stores
                    writer = ("write_seqs", "write_seqs_sqlite")[k % 4 == 3] if typed else ("write_json", "write_db", "write_json_sqlite")[k % 3]
                    add(dict(base, family="seqs", step2="fn" if k % 2 else None, vclass=named_wrong_classes(plan, k), writer=writer, inputs=("member", "path")[k % 2]), rec)
                    continue
                if rev:
                    # the same records handed over in reversed order: function style step 2 (its
                    # mutable arguments must not carry anything from one record to the next)
                    if all(named):
                        writer = (TYPED_WRITERS if typed else UNTYPED_WRITERS)[k % 2]
                        add(dict(base, rev=True, family="seqs", step2="fn", vclass=named_wrong_classes(plan, k), writer=writer, inputs=("member", "path")[k % 2]), rec)
                        if not typed and k % 2:
                            add(dict(base, rev=True, kind="as_completed", family="seqs", step2="fn", vclass=named_wrong_classes(plan, k), inputs=("member", "path")[(k + 1) % 2]), rec)
                    continue
                if all(named):
                    # sequence family, every writer/store (wrongly typed values name their source)
                    vc = named_wrong_classes(plan, k)
                    writers = TYPED_WRITERS if typed else UNTYPED_WRITERS
                    for wi, writer in enumerate(writers):
                        if tier == "quick" and writer.endswith("_sqlite") and (n > 2 or k % 3):
                            continue
                        both = tier == "thorough" and n < 4 and not (n == 3 and writer.endswith("_sqlite"))
                        kinds = ("member", "path") if both else (("member", "path")[(k + wi) % 2],)
                        for ii, inputs in enumerate(kinds):
                            # step 2 alternates between the class based app and the function style
                            # app constructed with mutable arguments that it changes in place
                            s2 = "fn" if (k + wi + ii) % 2 == 0 else None
                            add(dict(base, family="seqs", step2=s2, vclass=vc, writer=writer, inputs=inputs), rec)
                    if not typed:
                        add(dict(base, kind="as_completed", family="seqs", step2="fn" if k % 2 else None, vclass=vc, inputs=("member", "path")[k % 2]), rec)
                # value classes: what the failing step is handed (and what a `wrong` step returns)
                if n == 2 or tier == "thorough" or k % 4 == 0:
                    for family, vc, writer in instantiations(plan, typed, named, k, wfor):
                        # step typing: the last step accepts anything (no type check shields its main)
                        s3 = step3_of(tier, k) if family == "values" else None
                        add(dict(base, family=family, vclass=vc, step3=s3, writer=writer, inputs=("member", "path")[k % 2]), rec)
                        if not typed and (k % 2 == 0 or s3 not in (None, "typed")):
                            add(dict(base, kind="as_completed", family=family, vclass=vc, step3=s3, inputs=("member", "path")[(k + 1) % 2]), rec)
            # single-input reference runs for every (family, writer, input kind, profile, class, position) in use
            alone_keys = {}
            need = set()
            for job, _ in list(serial_jobs.values()) + list(pjobs.values()):
                if job.get("kind") != "as_completed" and not (tier == "quick" and (job.get("naming", "plain") != "plain" or (job.get("rep") or "list") != "list")):
                    need.update(alone_key(job, i + 1) for i in range(job["n"]))
            for key in sorted(need):
                names, family, s3, writer, inputs, prof, vcls, i = key
                naming, names = (names[0], names[1:]) if names else ("plain", ())
                jid += 1
                na = len(names) or 4
                plan = [list(PROFILES[0])] * na
                plan[i - 1] = list(prof)
                vc = ["seqs" if family == "values" else ""] * na
                vc[i - 1] = vcls
                jobs.append({"id": jid, "n": na, "naming": naming, "names": list(names) or None, "plan": plan, "w": 0, "order": [], "family": family, "step3": s3.split("/")[0] or None, "step2": s3.split("/")[1] or None, "vclass": vc, "writer": writer, "inputs": inputs, "subset": [i], "in_dir": in_dir_of(in_dir, {"naming": naming, "names": names})})
                alone_keys[jid] = key
            t0 = time.time()
            obs_all = run_serial_jobs(jobs, scratch)
            alone = {}
            for j, key in alone_keys.items():
                o = obs_all[j]
                if o.get("machinery"):
                    raise MachineryError(str(o.get("traceback")))
                if o["ret"] == "ok":
                    alone[key] = o["raw"].get(str(key[-1]))
            nser = 0
            trace_pairs = []
            for j, (job, rec) in serial_jobs.items():
                o = obs_all[j]
                if job.get("kind") == "as_completed":
                    judge_as_completed(run, job, rec, o)
                else:
                    judge(run, job, rec, o, alone)
                    if nser % 23 == 0 and (job["n"] >= 3 or job.get("family") == "values") and job.get("rep") not in impl_C14.UNORDERED_REPS:
                        trace_pairs.append((job, o))
                nser += 1
                if nser % 997 == 1:
                    run.sample({"serial": {k: v for k, v in job.items() if k != "in_dir"}, "spec_written": rec["written"], "store": o.get("disk") or o.get("results")})
            run.cov["traces_validated_against_impl"] += nser
            run.note("serial_replays", {"runs": nser, "single_input_reference_runs": len(alone_keys), "wall_s": round(time.time() - t0, 1)})

            # ------------------------- growth: histories of runs, composition of app objects
            ngrowth = replay_growth(run, scratch, in_dir, tier, gfuts)
            gex.shutdown()

            judge_bulk(run, bulk_jobs, bulk_masters.collect())
            bulk_masters = None

            # ------------------------------------------------ forced parallel schedules
            t0 = time.time()
            pobs = masters.collect()
            masters = None
            retry = []
            nforced = 0
            for j, (job, rec) in pjobs.items():
                v = judge(run, job, rec, pobs[j], alone)
                if v == "unforced":
                    retry.append(j)
                    continue
                nforced += 1
                trace_pairs.append((job, pobs[j]))
                if nforced % 41 == 1:
                    run.sample({"forced": {k: v for k, v in job.items() if k != "in_dir"}, "spec_written": rec["written"], "writes": [w["i"] for w in pobs[j]["writes"]], "store": pobs[j]["disk"]})
            if retry:
                masters = Masters([pjobs[j][0] for j in retry], scratch, "retry", NMASTERS)
                robs = masters.collect()
                masters = None
                for j in retry:
                    job, rec = pjobs[j]
                    if judge(run, job, rec, robs[j], alone) == "unforced":
                        raise MachineryError(f"could not force schedule {job}: {robs[j].get('unforced')}")
                    nforced += 1
                    trace_pairs.append((job, robs[j]))
            for j, job in fjobs.items():
                o = pobs[j]
                if o.get("machinery"):
                    raise MachineryError(str(o.get("traceback")))
                # schedule and final store of a free-running run are judged by the trace spec (its
                # Final event must equal the spec's `written` at quiescence); here only what the
                # trace cannot express
                judge_free(run, job, o)
                trace_pairs.append((job, o))
            run.cov["traces_validated_against_impl"] += nforced
            run.note("forced_schedules", {"runs": nforced, "order_classes": nclasses, "retried": len(retry), "free_running_runs": len(fjobs), "wait_s": round(time.time() - t0, 1)})

            # ------------------------------------------------------------ code -> spec
            validate_traces(run, scratch, trace_pairs)
        finally:
            if masters is not None:
                masters.kill()
            if locals().get("bulk_masters") is not None:
                bulk_masters.kill()
            if "gex" in locals():
                gex.shutdown(wait=True, cancel_futures=True)

    run.cov["evaluations"] += run.cov["traces_validated_against_impl"]
    run.cov["distinct_nontrivial"] = len(DISTINCT) + ngrowth
    run.cov["exhaustive"] = False
    run.cov["rule"] = (
        "TLC: all plans over 13 canonical outcome profiles x W in {serial,1,2,3} x all completion orders x all consumption lags "
        "x (n=2) every assignment of source-naming / non-naming value classes to the inputs "
        "(n=2 exhaustive; n=3 pairwise in quick / exhaustive in thorough; n=4 pairwise in thorough). Real code: every emitted serial "
        "behaviour x {write_seqs, write_json, write_db} x {directory, sqlite} x {member, path inputs}; forced parallel completion "
        "orders (quick: 6 order classes; thorough: every feasible order for n<=4, W<=3, plans drawn from a pairwise-covering set); "
        "free-running parallel runs validated as traces. distinct_nontrivial = distinct (apply_to|as_completed, writer, input kind, "
        "plan, W, completion order) executed on the real code whose plan has at least one failing record, plus the distinct "
        "(state, call, variant) transitions of ComposedAppRuns.tla (histories of apply_to runs on one store, directory and sqlite) "
        "and ComposedAppLinks.tla (composition / disconnect / call of six app objects) replayed on the real code"
    )
    run.assumptions += [
        "value classes (harness/apps_C14.py): the value handed to a failing step / returned by a `wrong` step is a cogent3 object with info.source, "
        "a dict with info.source or source, a path string (these name their source), or a dict with info None (to_rich_dict shape), a dict "
        "without info, bytes (these do not: the spec then only requires the record under the right identifier with source unknown); "
        "bytes values only with write_db (not JSON serialisable); `wrong` outcomes only in the SequenceCollection-typed family",
        "state between records: the obligation modelled is define_app's for FUNCTION style apps (constructor arguments reach every call "
        "as constructed); attributes that a CLASS based app's own main() mutates are that app's state by design and carry no obligation; "
        "reversed input order is explored for n=2 (all plans) - for larger n the plans themselves range over all arrangements of profiles",
        "outcome of a step depends only on the record (its name), not on the schedule",
        "completion order is forced with gate files; consumption is observed at the data store's write methods in the master",
        "dispatch model (FIFO queue, at most W running) is loky's; MPI executor and progress-bar UI are not covered",
        "identifiers: the naming schemes of ComposedApp.tla (plain; one identifier a proper suffix / prefix of the others, short one first "
        "or last; identifiers containing dots) are explored for n=3 (serial in quick; also W=2,3 and forced orders in thorough) on directory "
        "and sqlite stores; design counterexample MC_ComposedApp_retire.cfg (retire by suffix) violates Accounted",
        "content equality for write_db records is judged on the decoded object, not the pickle byte stream",
        "resuming (ComposedAppRuns.tla) follows the apply_to docstring ('if a member already exists ... it is skipped'); which members count "
        "is the store's: a DataStoreDirectory retries inputs that have a not-completed record, a DataStoreSqlite keeps them (it finds the "
        "not-completed record and refuses to overwrite it in append mode) - modelled as the constant RetryFailed, not judged",
        "a list whose duplicated identifier is already stored may be refused or accepted (the docstring does not say; cogent3 accepts it)",
        "composition (ComposedAppLinks.tla) follows the define_app docstring; compositions that close a cycle of links are outside the model; "
        "type overlap is by hint NAME as documented (a step hinted SerialisableType cannot follow an app that returns only a concrete type)",
    ]


if __name__ == "__main__":
    sys.exit(main_wrapper(check, "C14"))
