"""C09 growth: consensus trees (TreeOpsConsensus.tla) replayed on cogent3.phylo.consensus.

A record names K input trees (every edge = tip set below it + length), weights, strict and the
entry point; the spec gives the set of allowed consensus topologies (clusters or splits), and for
every candidate edge its weight and the numerator of its weighted mean length.  Here the real
trees are built, the real function is called, and the result's edges are compared: topology must
be one of the allowed ones, support and length must be the spec's (support * total == weight for
the normalised unrooted support; length * weight == numerator).  No consensus logic on this side.
"""
from __future__ import annotations

import multiprocessing as mp
import os
import warnings
from collections import defaultdict

TOL = 1e-9


def newick_with_lengths(rec):
    """rec: [[tips below the edge, length], ...] including one entry per tip -> newick text."""
    edges = {frozenset(cl): ln for cl, ln in rec}
    tips = frozenset(t for cl in edges for t in cl)

    def render(members, inner):
        maximal = [x for x in inner if not any(x < o for o in inner)]
        parts = []
        for x in sorted(maximal, key=lambda s: sorted(s)):
            if len(x) == 1:
                parts.append(f"{next(iter(x))}:{edges[x]}")
            else:
                parts.append(render(x, [y for y in inner if y < x]) + f":{edges[x]}")
        return "(" + ",".join(parts) + ")"

    return render(tips, [x for x in edges if x != tips]) + ";"


def _edges_of(tree, attr):
    """[(tips below, params[attr], length)] for every non-root edge of a real tree."""
    out = []
    for node in tree.traverse(include_self=False):
        below = frozenset(t.name for t in node.tips()) or frozenset([node.name])
        out.append((below, node.params.get(attr), node.length))
    return out


def _case(rec):
    from cogent3 import make_tree
    from cogent3.phylo.consensus import majority_rule, weighted_majority_rule

    a, exp = rec["args"], rec["obs"]
    method, strict, weights = a["method"], a["strict"], a["weights"]
    trees = [make_tree(newick_with_lengths(t)) for t in a["trees"]]
    alltips = frozenset(trees[0].get_tip_names())
    kinds = "".join("r" if len(t.children) == 2 else "u" for t in trees)
    cls = f"{method}:{'strict' if strict else 'greedy'}:inputs={''.join(sorted(set(kinds)))}"
    issues = []
    calls = []
    with warnings.catch_warnings():
        warnings.simplefilter("ignore")
        try:
            if method == "majority_rule":
                calls.append(("count", majority_rule(trees, strict=strict)))
            elif method == "rooted":
                calls.append(("support", weighted_majority_rule(list(zip(weights, trees)), strict=strict, method="rooted")))
                calls.append(("w", weighted_majority_rule(list(zip(weights, trees)), strict=strict, attr="w", method="rooted")))
            else:
                calls.append(("support", weighted_majority_rule(list(zip(weights, trees)), strict=strict)))
                calls.append(("support", weighted_majority_rule(list(zip(weights, trees)), strict=strict, method="unrooted")))
        except Exception as ex:
            import traceback

            return rec, [(f"Consensus:{cls}:raises:{type(ex).__name__}", {"exception": repr(ex), "traceback": traceback.format_exc()[-800:]})], 0
    unrooted = method == "unrooted"
    if unrooted:
        key = lambda cl: frozenset([frozenset(cl), alltips - frozenset(cl)])
        allowed = [frozenset(frozenset(frozenset(side) for side in s) for s in G) for G in exp["allowed"]]
        stats = {frozenset(frozenset(side) for side in s): (cnt, num) for s, cnt, num in exp["stats"]}
    else:
        key = lambda cl: frozenset(cl)
        allowed = [frozenset(frozenset(x) for x in G) for G in exp["allowed"]]
        stats = {frozenset(cl): (cnt, num) for cl, cnt, num in exp["stats"]}
    total = exp["total"]
    for attr, result in calls:
        if len(result) != 1:
            issues.append((f"Consensus:{cls}:ntrees", {"returned": len(result)}))
            continue
        res = result[0]
        if frozenset(res.get_tip_names()) != alltips:
            issues.append((f"Consensus:{cls}:tips", {"tips": res.get_tip_names()}))
            continue
        edges = _edges_of(res, attr)
        keys = [key(b) for b, _, _ in edges]
        topo = frozenset(k for k, (b, _, _) in zip(keys, edges) if (min(len(s) for s in k) > 1 if unrooted else len(b) > 1))
        show = lambda G: sorted(sorted(sorted(s) for s in k) if unrooted else sorted(k) for k in G)
        if topo not in allowed:
            issues.append((f"Consensus:{cls}:topology", {"observed": show(topo), "allowed": [show(G) for G in allowed][:6]}))
            continue
        if len(set(keys)) != len(keys):
            issues.append((f"Consensus:{cls}:duplicate-edge", {"edges": [sorted(b) for b, _, _ in edges]}))
            continue
        for k, (below, support, length) in zip(keys, edges):
            cnt, num = stats[k]
            if support is None or abs((support * total if unrooted else support) - cnt) > TOL:
                issues.append((f"Consensus:{cls}:support", {"edge": sorted(below), "support": support, "weight": cnt, "total": total}))
            if length is None or abs(length * cnt - num) > TOL * max(1, num):
                issues.append((f"Consensus:{cls}:length", {"edge": sorted(below), "length": length, "weight": cnt, "weighted_length_sum": num}))
    return rec, issues, len(calls)


def replay(records, run, nproc=None):
    import cogent3  # noqa: F401
    import cogent3.phylo.consensus  # noqa: F401

    nproc = nproc or min(16, os.cpu_count() or 1)
    stats = defaultdict(int)
    with mp.get_context("fork").Pool(nproc) as pool:
        for rec, issues, ncalls in pool.imap_unordered(_case, records, chunksize=32):
            stats["cases"] += 1
            stats["calls"] += ncalls
            stats[f"method_{rec['args']['method']}"] += 1
            if len(rec["obs"]["allowed"]) > 1:
                stats["cases_with_several_allowed_outcomes"] += 1
            seen = set()
            for key, detail in issues:
                stats["issues"] += 1
                if key in seen:
                    continue
                seen.add(key)
                a = rec["args"]
                run.fail(key, {"trees": [newick_with_lengths(t) for t in a["trees"]], "weights": a["weights"], "strict": a["strict"],
                               "method": a["method"], "spec": rec["obs"], **detail},
                         what=f"{a['method']} strict={a['strict']} weights={a['weights']} on {[newick_with_lengths(t) for t in a['trees']]}")
            if stats["cases"] % 1499 == 1 and not issues:
                a = rec["args"]
                run.sample({"consensus_of": [newick_with_lengths(t) for t in a["trees"]], "weights": a["weights"], "strict": a["strict"],
                            "method": a["method"], "allowed_topologies": rec["obs"]["allowed"]})
    return dict(stats)
