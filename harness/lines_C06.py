"""C06 / LineStream.tla -> real cogent3.util.io.iter_splitlines / iter_line_blocks.

TLC emits, for every text over the alphabet and every chunk size, the lines the state
machine yields (proved equal to SplitLines(text) by the invariant `Correct`) and their
grouping into blocks of m lines.  This module writes the text to a scratch file (plain,
.gz and in the thorough tier .bz2), calls the real functions with the same chunk size and
compares the lists.  Nothing is recomputed here.
"""
from __future__ import annotations

import bz2
import gzip
import os
import pathlib

_scratch = None
_n = 0


def set_scratch(path):
    global _scratch
    _scratch = pathlib.Path(path)


def text_class(text):
    if "\r\n" in text:
        return "crlf"
    if "\r" in text:
        return "cr"
    if "\n" in text:
        return "lf"
    return "no-eol"


def _call(fn):
    try:
        return fn()
    except Exception as ex:  # noqa: BLE001
        return ex


def run_text(job):
    """job = (text, {k: {"lines": [...], "blocks": {m: [[...]]}}}, tier)"""
    global _n
    from cogent3.util.io import iter_line_blocks, iter_splitlines

    text, by_k, tier = job
    _n += 1
    raw = text.encode("ascii")
    stem = f"t{os.getpid()}_{_n}"
    files = []
    p = _scratch / f"{stem}.txt"
    p.write_bytes(raw)
    files.append(("plain", p))
    p = _scratch / f"{stem}.txt.gz"
    with gzip.open(p, "wb") as fh:
        fh.write(raw)
    files.append(("gz", p))
    if tier == "thorough":
        p = _scratch / f"{stem}.txt.bz2"
        with bz2.open(p, "wb") as fh:
            fh.write(raw)
        files.append(("bz2", p))
    out = []
    ncalls = 0
    cls = text_class(text)
    for cmp, path in files:
        for k, exp in by_k.items():
            mode = "whole" if (cmp == "plain" and len(raw) < k) else "chunked"
            got = _call(lambda: list(iter_splitlines(path, chunk_size=k)))
            ncalls += 1
            if isinstance(got, Exception) or got != exp["lines"]:
                out.append((f"linestream:iter_splitlines:{cls}:{mode}", f"iter_splitlines {cmp} chunk_size={k}",
                            {"text": text, "chunk_size": k, "file": cmp, "expected": exp["lines"], "observed": repr(got) if isinstance(got, Exception) else got}))
            # str path as well as Path
            if k % 3 == 0:
                got = _call(lambda: list(iter_splitlines(str(path), chunk_size=k)))
                ncalls += 1
                if isinstance(got, Exception) or got != exp["lines"]:
                    out.append((f"linestream:iter_splitlines:{cls}:{mode}", f"iter_splitlines(str) {cmp} chunk_size={k}",
                                {"text": text, "chunk_size": k, "file": cmp, "expected": exp["lines"], "observed": repr(got) if isinstance(got, Exception) else got}))
            for m, eb in exp["blocks"].items():
                if tier == "thorough" and m != 1 + (k + len(raw)) % len(exp["blocks"]):
                    continue  # thorough: one num_lines per (text, chunk), rotating; quick: all of them
                got = _call(lambda: list(iter_line_blocks(path, num_lines=m, chunk_size=k)))
                ncalls += 1
                if isinstance(got, Exception) or got != eb:
                    out.append((f"linestream:iter_line_blocks:{cls}:{mode}", f"iter_line_blocks {cmp} num_lines={m} chunk_size={k}",
                                {"text": text, "chunk_size": k, "num_lines": m, "file": cmp, "expected": eb, "observed": repr(got) if isinstance(got, Exception) else got}))
        # default chunk size (whole file) and num_lines=None
        got = _call(lambda: list(iter_splitlines(path)))
        ncalls += 1
        anyk = next(iter(by_k.values()))
        if isinstance(got, Exception) or got != anyk["lines"]:
            out.append((f"linestream:iter_splitlines:{cls}:default", f"iter_splitlines {cmp} default chunk",
                        {"text": text, "file": cmp, "expected": anyk["lines"], "observed": repr(got) if isinstance(got, Exception) else got}))
    for _, path in files:
        try:
            path.unlink()
        except OSError:
            pass
    return out, ncalls


def group_records(recs, num_lines):
    """emitted Flush records -> {text: {k: expected}}; raises if the model is not single-valued"""
    by_text = {}
    for r in recs:
        f, t = r["from"], r["to"]
        text = "".join(f["text"])
        lines = ["".join(l) for l in t["lines"]]
        blocks = t["blocks"]
        if isinstance(blocks, dict):
            blocks = {int(m): v for m, v in blocks.items()}
        else:  # a function over 1..n is serialised as an array
            blocks = {m: v for m, v in zip(sorted(num_lines), blocks)}
        blocks = {m: [["".join(l) for l in b] for b in v] for m, v in blocks.items()}
        e = {"lines": lines, "blocks": blocks}
        d = by_text.setdefault(text, {})
        if f["k"] in d and d[f["k"]] != e:
            raise RuntimeError(f"LineStream model is not single-valued for text {text!r} k={f['k']}")
        d[f["k"]] = e
    return by_text
