"""C03 -- alignment operations equal the same operations on the gapped strings (Alignment.tla).

spec -> code: TLC explores Alignment.tla exhaustively (all class layouts of the small
shapes plus hand-picked larger layouts, every operation with its argument family, all
histories up to the depth of the cfg), checks the model's own invariants (rectangular
rows, no cell invented, rc involution, slice/take_seqs commute, ...) and emits every
transition.  walk_C03 runs the histories of that graph on real Alignment and
ArrayAlignment objects in lock-step and requires names / to_dict / len /
get_gapped_seq of every intermediate result to equal the spec successor, read-only
methods to answer as on a new object built from the spec rows, and receivers to stay
unchanged.
code -> spec: trace_C03 records seeded random executions (random initial alignments incl.
RNA / protein, any valid arguments, up to 6-7 operations) and Trace_Alignment.tla accepts
or rejects every logged event.
"""
from __future__ import annotations

import json
import os
import sys
import time

from common import Run, main_wrapper
from tlc import MachineryError, Scratch, read_emitted, run_tlc

import walk_C03 as W

EXPECTED_ACTS = {
    "Make", "Slice", "Index", "Stride", "Rc", "TakePositions", "TakeSeqs", "OmitGapPos", "NoDegenerates",
    "Filtered", "DegapRel", "SampleRepl", "SamplePerm", "Concat", "ConcatSlices", "ToType", "ToRna", "ToDna", "Degap", "DeepCopy", "CallerReuses",
}

# per TLC run: cfg and the walk policy of a root, chosen by (picked?, molecule):
#   full_depth  every label is taken at the first full_depth levels
#   sample_k    labels sampled per node at level full_depth (1 per node below that)
#   max_depth   longest history walked (only while TLC expanded the state)
#   p_ro        share of visited results whose read-only methods are compared with a new object
#   tp_cap      below the first level, at most this many ordered / repeating index-tuple take_positions labels per
#               node (every one of them is taken on every initial alignment)
#   cs_cap      at most this many ConcatSlices labels per node (None = all the cfg's PairFamily offers)
def _pol(full_depth, sample_k, max_depth, p_ro, cs_cap=None, tp_cap=4):
    return dict(full_depth=full_depth, sample_k=sample_k, max_depth=max_depth, p_ro=p_ro, cs_cap=cs_cap, tp_cap=tp_cap)


PLANS = {
    "quick": [
        ("MC_Alignment_quick.cfg", {"all": _pol(1, 1, 2, 0.025), "picked": _pol(2, 0, 2, 0.025)}),
    ],
    "thorough": [
        ("MC_Alignment_thorough.cfg", {"all": _pol(1, 1, 3, 0.05), "picked": _pol(2, 0, 2, 0.05, 16), "picked:protein": _pol(1, 6, 3, 0.05)}),
        ("MC_Alignment_thorough_wide.cfg", {"all": _pol(1, 0, 1, 0.05), "picked": _pol(1, 0, 1, 0.05)}),
        # PairFamily = "all" here: every pair of slices of one object; a seeded 16 of them per node
        ("MC_Alignment_thorough_deep.cfg", {"all": _pol(1, 2, 3, 0.05, 16), "picked": _pol(2, 1, 3, 0.03, 16)}),
    ],
}


def policy_for(make_lab, policies):
    layout, mol = json.loads(make_lab)[1]
    cls = "picked" if len(layout) * len(layout[0]) > 6 else "all"
    return policies.get(f"{cls}:{mol}", policies[cls])


def load_graph(path):
    g = W.SpecGraph()
    for rec in read_emitted(path):
        g.add(rec)
    return g


def check(run: Run):
    stats = []
    with Scratch("C03") as scratch:
        for n, (cfg, policies) in enumerate(PLANS[run.tier]):
            emit = scratch / f"emit{n}.ndjson"
            t0 = time.time()
            res = run_tlc("Alignment", cfg, scratch, workers=16, env={"EMIT_FILE": emit}, timeout=1500)
            run.add_tlc(res)
            t1 = time.time()
            g = load_graph(emit)
            os.unlink(emit)
            missing = EXPECTED_ACTS - g.acts
            if missing:
                raise MachineryError(f"vacuous model: actions never taken in {cfg}: {sorted(missing)}")
            roots = [(lab, policy_for(lab, policies)) for lab in sorted(g.succ[g.start])]
            t2 = time.time()
            tot = W.run_walk(g, roots, run)
            tot.update(cfg=cfg, tlc_generated=res.generated, tlc_distinct=res.distinct, tlc_depth=res.depth,
                       tlc_s=round(t1 - t0, 1), load_s=round(t2 - t1, 1), walk_s=round(time.time() - t2, 1),
                       spec_states=len(g.states), spec_transitions=g.ntrans, initial_alignments=len(roots))
            stats.append(tot)
            print(f"[C03] {cfg}: tlc {res.distinct} states / {res.generated} transitions in {tot['tlc_s']}s; "
                  f"walked {tot['steps']} real calls over {tot['nodes']} history prefixes from {len(roots)} initial alignments in {tot['walk_s']}s", flush=True)
            run.cov["traces_validated_against_impl"] += tot["steps"]
            del g
        import trace_C03

        ntr, depth = (300, 6) if run.tier == "quick" else (6000, 7)
        tstats = trace_C03.validate(run, scratch, ntr, depth)
        run.cov["traces_validated_against_impl"] += tstats["events"]
        run.note("code_to_spec", tstats)
    t = os.times()
    run.note("cpu_s", round(t.user + t.system + t.children_user + t.children_system))
    run.note("walks", stats)
    run.cov["evaluations"] = run.cov["traces_validated_against_impl"]
    run.cov["distinct_nontrivial"] = sum(s["nodes"] for s in stats)
    run.cov["rule"] = (
        "histories (paths from the start state of the TLC transition graph of Alignment.tla) executed on real "
        "Alignment and ArrayAlignment objects in lock-step; every label at the first full_depth levels, a seeded "
        "sample below; one evaluation = one real call compared with the spec successor; distinct = history prefixes visited"
    )
    run.cov["exhaustive"] = False
    run.assumptions += [
        "cells are instantiated with the symbols chosen by Sym() in Alignment.tla (4 canonical, 11 degenerate nucleotide symbols, the gap '-' and the missing-data symbol '?'; '.' is not used)",
        "argument families are the small ones listed in Alignment.tla (ColLists, RowLists, Thresholds, Preds, ReplLocs, Perms)",
        "read-only methods are compared with a new object of the same class built from the spec rows, on a seeded sample of the visited results",
        "strided slices of the annotatable Alignment raise NotImplementedError by design and are counted as unsupported",
        "when no column / no sequence is left cogent3 returns None / {}; the spec allows that or an object with empty rows",
        "gap fractions: thresholds are small rationals num/den handed over as the float num/den, or that value -/+ 1e-12 (strict-threshold idiom); the spec compares exactly (count*den <= or < num*cells), equal to the float comparison because attainable fractions differ by >= 1/36 and round-off is ~1e-16: no tolerance is used",
    ]


if __name__ == "__main__":
    sys.exit(main_wrapper(check, "C03"))
