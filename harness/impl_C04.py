"""C04 helpers: drive the real cogent3 sequence / annotation classes and project them.

Nothing here knows what the right answer is.  Which features a view shows, at
which positions, what their slices read and what every query returns all come
from specs/Annotation.tla (emitted per state / transition); this module only
instantiates universes, makes the public calls and turns real Feature objects
into plain values (names, expanded view positions, strings).
"""
from __future__ import annotations

import random
import zlib

KINDS = ("old", "new")
NONSELF = "ACGTRYMKHDBV"  # symbols that differ from their complement: every root position is recognisable


def root_string(seed, ukey, P):
    rnd = random.Random(zlib.crc32(f"C04-{seed}-{ukey}".encode()))
    return "".join(rnd.sample(NONSELF, P))


def render(root, read, fcomp, compl):
    """the string a feature slice must show: root positions `read`, complemented for minus-strand features"""
    if fcomp:
        return "".join(compl[root[r]] for r in read)
    return "".join(root[r] for r in read)


# --------------------------------------------------------------------- real objects
def make_seq(kind, s, name="s", off=0):
    if kind == "old":
        import cogent3

        return cogent3.make_seq(s, name=name, moltype="dna", annotation_offset=off)
    from cogent3.core.new_moltype import get_moltype

    return get_moltype("dna").make_seq(seq=s, name=name, annotation_offset=off)


def make_universe(kind, mode, root, off, feats, via=None):
    """a real root sequence carrying the universe's features

    mode "add" / "add-offset": seq.add_feature(spans relative to the sequence) (offset 0 / non-zero offset)
    mode "add-slice": add_feature(view-relative spans `via`) on the slice seq[via.lo:via.hi]; views share the root's database
    mode "db" : a BasicAnnotationDb holding absolute coordinates (span + offset), attached to the sequence
    """
    seq = make_seq(kind, root, "s", off)
    if mode in ("db-order", "add-order"):
        # the spans are supplied in the order via["given"] says (any order; each span's ends in either order)
        refused = []
        if mode == "db-order":
            from cogent3.core.annotation_db import BasicAnnotationDb

            db = BasicAnnotationDb()
            for f, q in zip(feats, via["given"]):
                db.add_feature(seqid="s", biotype=f["bio"], name=f["name"], spans=[tuple(sp) for sp in q], strand=f["strand"])
            seq.annotation_db = db
        else:
            for f, q in zip(feats, via["given"]):
                try:
                    seq.add_feature(biotype=f["bio"], name=f["name"], spans=[tuple(sp) for sp in q], strand=f["strand"])
                except Exception as ex:  # a refused call: nothing may have been recorded
                    refused.append((f["name"], repr(ex)))
        return seq, refused
    if mode == "add-slice":
        v = seq[via["lo"] : via["hi"]]
        created = []
        for f, spans in zip(feats, via["spans"]):
            created.append(v.add_feature(biotype=f["bio"], name=f["name"], spans=[tuple(sp) for sp in spans], strand=f["strand"]))
        return seq, created
    if mode in ("add", "add-offset"):
        created = []
        for f in feats:
            created.append(
                seq.add_feature(biotype=f["bio"], name=f["name"], spans=[tuple(sp) for sp in f["spans"]], strand=f["strand"])
            )
        return seq, created
    from cogent3.core.annotation_db import BasicAnnotationDb

    db = BasicAnnotationDb()
    for f in feats:
        db.add_feature(
            seqid="s", biotype=f["bio"], name=f["name"], spans=[(s + off, e + off) for s, e in f["spans"]], strand=f["strand"]
        )
    seq.annotation_db = db
    return seq, None


def apply(o, act, args):
    if act == "Slice":
        if len(args) == 3:
            return o[args[0] : args[1] : args[2]]
        return o[args[0] : args[1]]
    if act == "Rc":
        return o.rc()
    if act == "RevSlice":
        return o[::-1]
    if act == "Copy":
        return o.copy(sliced=bool(args[0]))
    if act == "Degap":
        return o.degap()
    if act == "FeatSlice":
        g = [f for f in query(o, partial=True) if f.name == args[0]]
        if len(g) != 1:
            raise LookupError(f"feature {args[0]} not returned once by the view")
        return o[g[0]]
    raise ValueError(act)


def query(o, ws=None, we=None, partial=False, filt="none"):
    kw = {"allow_partial": bool(partial)}
    if ws is not None:
        kw["start"] = ws
        kw["stop"] = we
    if filt == "bio":
        kw["biotype"] = "gene"
    elif filt == "name":
        kw["name"] = "b"
    got = o.get_features(**kw)
    return [] if got is None else list(got)


def query_one(o, name, partial):
    got = o.get_features(name=name, allow_partial=bool(partial))
    return [] if got is None else list(got)


# --------------------------------------------------------------------- projection
def positions(feature):
    """view positions the feature's map covers, in map order"""
    out = []
    for s, e in feature.map.get_coordinates():
        s, e = int(s), int(e)
        out.extend(range(s, e) if s <= e else range(s - 1, e - 1, -1))
    return out


def project(feature):
    return {
        "id": (feature.biotype, feature.name),
        "pos": positions(feature),
        "rev": bool(feature.reversed),
        "coords": [(int(s), int(e)) for s, e in feature.map.get_coordinates()],
    }


def slice_str(feature):
    return str(feature.get_slice())


def runs(pos):
    """number of maximal runs of consecutive positions (how many spans the view retains)"""
    n = 0
    prev = None
    for p in pos:
        if prev is None or p != prev + 1:
            n += 1
        prev = p
    return n
