"""C06 / SeqFormats.tla -> real cogent3: instantiate a case emitted by TLC, drive the real
writers / loaders / parsers, project to [(name, sequence), ...] and compare with the spec.

No expected behaviour is computed here: `exp` (the oracle), `cls` (structural class of the
case), `lines` (the writer model's text), `model` (the transcribed parsers' predictions) and
`layouts` (the FASTA writer relation) all come from TLC.  This file only
  * turns character sequences into python strings (and abstract residues into the residues
    of a molecular type),
  * calls the real API,
  * projects results to lists of (name, sequence) pairs,
  * names the difference between two such lists (count / names / seqs / raised).

run_case(rec) returns a list of outcomes:
    ("fail",  key, what, detail)   real code disagrees with the ORACLE
    ("drift", what, detail)        real code agrees with the oracle (or is not judged by it)
                                   but differs from the transcribed MODEL (writer text, parser)
and a small stats dict.
"""
from __future__ import annotations

import io
import os
import pathlib

# abstract residues of the spec -> residues of a molecular type
MOLTYPES = (
    ("dna", {"A": "A", "C": "C"}),
    ("rna", {"A": "A", "C": "U"}),
    ("protein", {"A": "M", "C": "K"}),
)
SUFFIX = {"fasta": "fasta", "phylip": "phylip", "paml": "paml", "gde": "gde", "json": "json"}
COMPRESSIONS = ("", ".gz", ".bz2")
CHUNKS = (1, 2, 3, 5, 8)
DEFAULT_WIDTHS = (1, 6, 53)  # widening of the three positions of a block-3 case to the default block of 60

_scratch = None
_counter = 0
_layouts = {}  # (seq length, block) -> set of allowed tuples of line lengths (from TLC)


def set_scratch(path):
    global _scratch
    _scratch = pathlib.Path(path)


def set_layouts(table):
    global _layouts
    _layouts = table


def _s(chars, mp=None):
    t = "".join(chars)
    if mp:
        t = "".join(mp.get(ch, ch) for ch in t)
    return t


def _recs(spec_recs, mp):
    return [(_s(r["name"]), _s(r["seq"], mp)) for r in spec_recs]


def diff_kind(obs, exp, allowed=None):
    """name of the observation that differs (structural, for finding keys); None if obs is an allowed outcome"""
    if allowed is not None:
        for a in allowed:
            if (a is None and isinstance(obs, Exception)) or (a is not None and not isinstance(obs, Exception) and obs == a):
                return None
    if isinstance(obs, Exception):
        return "raised"
    if len(obs) != len(exp):
        return "count"
    dn = [o[0] for o in obs] != [e[0] for e in exp]
    ds = [o[1] for o in obs] != [e[1] for e in exp]
    if dn and ds:
        if sorted(obs) == sorted(exp):
            return "order"
        return "names+seqs"
    if dn:
        return "names"
    if ds:
        return "seqs"
    return None


def _project_coll(obj):
    d = obj.to_dict()
    return [(n, str(d[n])) for n in obj.names]


def _call(fn):
    try:
        return fn()
    except Exception as ex:  # noqa: BLE001 - every exception is an observation
        return ex


def _show(obs):
    return repr(obs) if isinstance(obs, Exception) else obs


def _pairs(it):
    return [(str(n), str(s)) for n, s in it]


def parser_variants(fmt, path, gz_path, crlf_path, text, tier):
    """(variant name, key group, model variant, thunk) for every way of parsing format fmt

    path / gz_path hold `text`; crlf_path holds the same text with Windows line ends."""
    from cogent3.parse import fasta as pf
    from cogent3.parse import paml as pp
    from cogent3.parse import phylip as ph
    from cogent3.parse.sequence import PARSERS, LineBasedParser, get_parser
    from cogent3.util.io import iter_splitlines

    lines = text.splitlines()
    spath = str(path)
    crlf = text.replace("\n", "\r\n")
    out = []
    if fmt == "fasta":
        data = text.encode("utf8")
        out += [
            ("iter_fasta_records(bytes, CRLF)", "bytes", "bytes", lambda: _pairs(pf.iter_fasta_records(crlf.encode("utf8")))),
            ("iter_fasta_records(Path, CRLF file)", "bytes", "bytes", lambda: _pairs(pf.iter_fasta_records(crlf_path))),
            ("MinimalFastaParser(str path, CRLF file, nonstrict)", "lines", "nonstrict", lambda: _pairs(pf.MinimalFastaParser(str(crlf_path), strict=False))),
            ("LineBasedParser(MinimalFastaParser)(Path, CRLF file)", "lines", "strict", lambda: _pairs(LineBasedParser(pf.MinimalFastaParser)(crlf_path))),
            ("MinimalFastaParser(CRLF text.splitlines(),strict)", "lines", "strict", lambda: _pairs(pf.MinimalFastaParser(crlf.splitlines(), strict=True))),
        ]
        out += [
            ("iter_fasta_records(bytes)", "bytes", "bytes", lambda: _pairs(pf.iter_fasta_records(data))),
            ("iter_fasta_records(str path)", "bytes", "bytes", lambda: _pairs(pf.iter_fasta_records(spath))),
            ("iter_fasta_records(Path)", "bytes", "bytes", lambda: _pairs(pf.iter_fasta_records(path))),
            ("iter_fasta_records(Path.gz)", "bytes", "bytes", lambda: _pairs(pf.iter_fasta_records(gz_path))),
            ("get_parser('fasta')(Path)", "bytes", "bytes", lambda: _pairs(get_parser("fasta")(path))),
            ("iter_fasta_records(list)", "lines", "nonstrict", lambda: _pairs(pf.iter_fasta_records(list(lines)))),
            ("MinimalFastaParser(lines,strict)", "lines", "strict", lambda: _pairs(pf.MinimalFastaParser(lines, strict=True))),
            ("MinimalFastaParser(lines,nonstrict)", "lines", "nonstrict", lambda: _pairs(pf.MinimalFastaParser(lines, strict=False))),
            ("MinimalFastaParser(path,strict)", "lines", "strict", lambda: _pairs(pf.MinimalFastaParser(spath, strict=True))),
            ("MinimalFastaParser(path,nonstrict)", "lines", "nonstrict", lambda: _pairs(pf.MinimalFastaParser(spath, strict=False))),
            ("LineBasedParser(MinimalFastaParser)(Path)", "lines", "strict", lambda: _pairs(LineBasedParser(pf.MinimalFastaParser)(path))),
            ("LineBasedParser(MinimalFastaParser)(Path.gz)", "lines", "strict", lambda: _pairs(LineBasedParser(pf.MinimalFastaParser)(gz_path))),
            ("FastaParser(lines)", "lines", "strict", lambda: _pairs(pf.FastaParser(lines))),
        ]

        def textio():
            with open(spath, "rt") as fh:
                return _pairs(pf.iter_fasta_records(fh))

        out.append(("iter_fasta_records(TextIOWrapper)", "bytes", "bytes", textio))
        for k in CHUNKS:
            out.append((f"MinimalFastaParser(iter_splitlines(chunk={k}),strict)", "lines", "strict",
                        lambda k=k: _pairs(pf.MinimalFastaParser(iter_splitlines(path, chunk_size=k), strict=True))))
            out.append((f"MinimalFastaParser(iter_splitlines(chunk={k}),nonstrict)", "lines", "nonstrict",
                        lambda k=k: _pairs(pf.MinimalFastaParser(iter_splitlines(gz_path, chunk_size=k), strict=False))))
    elif fmt == "gde":
        out += [
            ("get_parser('gde')(Path, CRLF file)", "lines", "strict", lambda: _pairs(get_parser("gde")(crlf_path))),
            ("MinimalGdeParser(CRLF text.splitlines(),nonstrict)", "lines", "nonstrict", lambda: _pairs(pf.MinimalGdeParser(crlf.splitlines(), strict=False))),
        ]
        out += [
            ("MinimalGdeParser(lines,strict)", "lines", "strict", lambda: _pairs(pf.MinimalGdeParser(lines, strict=True))),
            ("MinimalGdeParser(lines,nonstrict)", "lines", "nonstrict", lambda: _pairs(pf.MinimalGdeParser(lines, strict=False))),
            ("MinimalGdeParser(path)", "lines", "strict", lambda: _pairs(pf.MinimalGdeParser(spath))),
            ("get_parser('gde')(Path)", "lines", "strict", lambda: _pairs(get_parser("gde")(path))),
            ("get_parser('gde')(str path.gz)", "lines", "strict", lambda: _pairs(get_parser("gde")(str(gz_path)))),
            ("get_parser('gde')(tuple)", "lines", "strict", lambda: _pairs(get_parser("gde")(tuple(lines)))),
        ]
        for k in CHUNKS:
            out.append((f"MinimalGdeParser(iter_splitlines(chunk={k}))", "lines", "strict",
                        lambda k=k: _pairs(pf.MinimalGdeParser(iter_splitlines(path, chunk_size=k)))))
    elif fmt == "phylip":

        def via_align():
            aln = ph.get_align_for_phylip(lines)
            return _project_coll(aln)

        out += [
            ("get_parser('phylip')(Path, CRLF file)", "lines", "phylip", lambda: _pairs(get_parser("phylip")(crlf_path))),
            ("MinimalPhylipParser(CRLF text.splitlines())", "lines", "phylip", lambda: _pairs(ph.MinimalPhylipParser(crlf.splitlines()))),
            ("MinimalPhylipParser(lines)", "lines", "phylip", lambda: _pairs(ph.MinimalPhylipParser(lines))),
            ("get_parser('phylip')(Path)", "lines", "phylip", lambda: _pairs(get_parser("phylip")(path))),
            ("get_parser('phylip')(str path.gz)", "lines", "phylip", lambda: _pairs(get_parser("phylip")(str(gz_path)))),
            ("get_parser('phylip')(list)", "lines", "phylip", lambda: _pairs(get_parser("phylip")(list(lines)))),
            # builds an Alignment from the parser's records: judged by the oracle only (no transcription of its own)
            ("get_align_for_phylip(lines)", "lines", None, via_align),
        ]
        for k in CHUNKS:
            out.append((f"MinimalPhylipParser(iter_splitlines(chunk={k}))", "lines", "phylip",
                        lambda k=k: _pairs(ph.MinimalPhylipParser(iter_splitlines(gz_path if k % 2 else path, chunk_size=k)))))
    elif fmt == "paml":

        def textio():
            with open(spath, "rt") as fh:
                return _pairs(pp.PamlParser(fh))

        out += [
            ("get_parser('paml')(Path, CRLF file)", "lines", "paml", lambda: _pairs(get_parser("paml")(crlf_path))),
            ("PamlParser(CRLF text.splitlines())", "lines", "paml", lambda: _pairs(pp.PamlParser(crlf.splitlines()))),
            ("PamlParser(lines)", "lines", "paml", lambda: _pairs(pp.PamlParser(lines))),
            ("PamlParser(TextIOWrapper)", "lines", "paml", textio),
            ("get_parser('paml')(Path)", "lines", "paml", lambda: _pairs(get_parser("paml")(path))),
            ("get_parser('paml')(str path.gz)", "lines", "paml", lambda: _pairs(get_parser("paml")(str(gz_path)))),
        ]
        for k in CHUNKS:
            out.append((f"PamlParser(iter_splitlines(chunk={k}))", "lines", "paml",
                        lambda k=k: _pairs(pp.PamlParser(iter_splitlines(gz_path if k % 2 else path, chunk_size=k)))))
    return out


def list_entry_points(fmt):
    """(name, key group, fn(list of lines)) for every parser entry point that accepts the caller's own list"""
    from cogent3.parse import fasta as pf
    from cogent3.parse import paml as pp
    from cogent3.parse import phylip as ph
    from cogent3.parse.sequence import get_parser

    if fmt == "fasta":
        return [
            ("iter_fasta_records(list)", "lines", lambda a: _pairs(pf.iter_fasta_records(a))),
            ("MinimalFastaParser(list,strict)", "lines", lambda a: _pairs(pf.MinimalFastaParser(a, strict=True))),
            ("MinimalFastaParser(list,nonstrict)", "lines", lambda a: _pairs(pf.MinimalFastaParser(a, strict=False))),
            ("get_parser('fasta')(list)", "lines", lambda a: _pairs(get_parser("fasta")(a))),
        ]
    if fmt == "gde":
        return [
            ("MinimalGdeParser(list)", "lines", lambda a: _pairs(pf.MinimalGdeParser(a))),
            ("get_parser('gde')(list)", "lines", lambda a: _pairs(get_parser("gde")(a))),
        ]
    if fmt == "phylip":
        return [
            ("MinimalPhylipParser(list)", "lines", lambda a: _pairs(ph.MinimalPhylipParser(a))),
            ("get_parser('phylip')(list)", "lines", lambda a: _pairs(get_parser("phylip")(a))),
            ("get_align_for_phylip(list)", "lines", lambda a: _project_coll(ph.get_align_for_phylip(a))),
        ]
    if fmt == "paml":
        return [
            ("PamlParser(list)", "lines", lambda a: _pairs(pp.PamlParser(a))),
            ("get_parser('paml')(list)", "lines", lambda a: _pairs(get_parser("paml")(a))),
        ]
    return []


def handle_variants(fmt, hpath, k, text, encpath, written):
    """(variant name, key group, thunk): parsers fed an open text handle positioned after k consumed lines,
    handles with another encoding / line end convention, and generators of lines"""
    from cogent3.parse import fasta as pf
    from cogent3.parse import paml as pp
    from cogent3.parse import phylip as ph
    from cogent3.util.io import open_

    def at_k(parse, use_next=False):
        def run():
            with open_(hpath, "rt") as fh:
                for _ in range(k):
                    next(fh) if use_next else fh.readline()
                return _pairs(parse(fh))
        return run

    lines = text.splitlines()
    gen = lambda: (l for l in lines)
    out = []
    if fmt == "fasta":
        def enc_handle(encoding, newline_text):
            def run():
                encpath.write_bytes(newline_text.encode(encoding))
                written.append(encpath)
                with open(encpath, "rt", encoding=encoding) as fh:
                    return _pairs(pf.iter_fasta_records(fh))
            return run

        out += [
            (f"iter_fasta_records(text handle after {k} readline())", "bytes", at_k(pf.iter_fasta_records)),
            (f"iter_fasta_records(text handle after {k} next())", "bytes", at_k(pf.iter_fasta_records, use_next=True)),
            (f"MinimalFastaParser(text handle after {k} lines, strict)", "lines", at_k(lambda fh: pf.MinimalFastaParser(fh, strict=True))),
            (f"MinimalFastaParser(text handle after {k} lines, nonstrict)", "lines", at_k(lambda fh: pf.MinimalFastaParser(fh, strict=False))),
            ("iter_fasta_records(utf-16 text handle)", "bytes", enc_handle("utf-16", text)),
            ("iter_fasta_records(text handle, CR-only line ends)", "bytes", enc_handle("utf8", text.replace("\n", "\r"))),
            ("MinimalFastaParser(generator of lines, strict)", "lines", lambda: _pairs(pf.MinimalFastaParser(gen(), strict=True))),
            ("MinimalFastaParser(generator of lines, nonstrict)", "lines", lambda: _pairs(pf.MinimalFastaParser(gen(), strict=False))),
        ]
    elif fmt == "gde":
        out += [
            (f"MinimalGdeParser(text handle after {k} lines)", "lines", at_k(pf.MinimalGdeParser)),
            ("MinimalGdeParser(generator of lines)", "lines", lambda: _pairs(pf.MinimalGdeParser(gen()))),
        ]
    elif fmt == "phylip":
        out += [
            (f"MinimalPhylipParser(text handle after {k} lines)", "lines", at_k(ph.MinimalPhylipParser)),
            ("MinimalPhylipParser(generator of lines)", "lines", lambda: _pairs(ph.MinimalPhylipParser(gen()))),
        ]
    elif fmt == "paml":
        out += [
            (f"PamlParser(text handle after {k} lines)", "lines", at_k(pp.PamlParser)),
            ("PamlParser(generator of lines)", "lines", lambda: _pairs(pp.PamlParser(gen()))),
        ]
    return out


def observed_fasta_layout(text, names, seqs):
    """line lengths of each record's sequence lines, None if the text is not header/sequence shaped"""
    lines = text.split("\n")
    if not lines or lines[-1] != "":
        return None
    lines = lines[:-1]
    heads = [">" + n for n in names]
    pos = 0
    lay = []
    for i, h in enumerate(heads):
        if pos >= len(lines) or lines[pos] != h:
            return None
        pos += 1
        cur = []
        while pos < len(lines) and not (i + 1 < len(heads) and lines[pos] == heads[i + 1]):
            cur.append(lines[pos])
            pos += 1
        if "".join(cur) != seqs[i]:
            return None
        lay.append(tuple(len(x) for x in cur))
    return lay


def run_case(job):
    """job = (index, record, tier, seed); see module docstring"""
    global _counter
    idx, rec, tier, seed = job
    import cogent3
    from cogent3.util.io import open_

    c, t = rec["from"], rec["to"]
    fmt, block, cls = c["fmt"], c["block"], t["cls"]
    mtname, mp = MOLTYPES[(idx + seed) % len(MOLTYPES)]
    names = [_s(n) for n in c["names"]]
    seqs = [_s(s, mp) for s in c["seqs"]]
    exp = _recs(t["exp"], mp)
    # outcomes the spec allows: record lists, None = an exception
    allowed = [(_recs(a["recs"], mp) if a["ok"] else None) for a in t["allowed"]]
    # ... by the bytes based parser and the loaders built on it
    allowed_bytes = [(_recs(a["recs"], mp) if a["ok"] else None) for a in t["allowed_bytes"]]
    data = dict(zip(names, seqs))
    out = []
    stats = {"loads": 0, "parses": 0, "texts": 0, "unsupported": 0}
    base = {"fmt": fmt, "block": block, "moltype": mtname, "names": names, "seqs": seqs, "expected": exp, "class": cls}

    makers = []
    if not c["ragged"]:
        makers.append(("ArrayAlignment", lambda: cogent3.make_aligned_seqs(data, moltype=mtname, array_align=True), cogent3.load_aligned_seqs, {"array_align": True}))
        makers.append(("Alignment", lambda: cogent3.make_aligned_seqs(data, moltype=mtname, array_align=False), cogent3.load_aligned_seqs, {"array_align": False}))
    makers.append(("SequenceCollection", lambda: cogent3.make_unaligned_seqs(data, moltype=mtname), cogent3.load_unaligned_seqs, {}))

    kw = {} if fmt == "json" else {"block_size": block}
    plain_path = gz_path = text = None
    _counter += 1
    stem = f"c{os.getpid()}_{_counter}"
    written = []
    allv = list(COMPRESSIONS) + ([] if fmt == "json" else ["explicit-format"])
    for ki, (kind, make, load, lkw) in enumerate(makers):
        obj = _call(make)
        if isinstance(obj, Exception):
            # the case cannot be built as this kind of object: outside what the property quantifies over
            stats["unsupported"] += 1
            continue
        if _project_coll(obj) != [(n, s) for n, s in zip(names, seqs)]:
            stats["unsupported"] += 1
            continue
        primary = kind == makers[0][0]
        if tier == "thorough" and idx % 5 == 0:
            # every file variant for every kind (a fifth of the cases; the rest rotate as in quick)
            chosen = allv
        elif primary:
            # the text of the primary kind feeds the direct parser calls: plain and .gz always
            chosen = ["", ".gz"]
        else:
            # quick: the other kinds take one file variant each, rotating with the case index
            chosen = [allv[(idx + ki) % len(allv)]]
        variants = [(cmp, f"{stem}_{kind}.{SUFFIX[fmt]}{cmp}", None) if cmp != "explicit-format" else (cmp, f"{stem}_{kind}.txt", fmt)
                    for cmp in chosen]
        for cmp, fname, explicit in variants:
            path = _scratch / fname
            written.append(path)
            w = _call(lambda: obj.write(path, **kw) if explicit is None else obj.write(path, format=explicit, **kw))
            if isinstance(w, Exception):
                d = "raised"
                got = w
            else:
                if cmp == "" and primary:
                    plain_path = path
                if cmp == ".gz" and primary:
                    gz_path = path
                got = _call(lambda: _project_coll(load(path, moltype=mtname, **lkw) if explicit is None else load(path, moltype=mtname, format=explicit, **lkw)))
                d = diff_kind(got, exp, allowed_bytes)
                if not d and (isinstance(got, Exception) or got != exp):
                    stats["open_outcome_alternative"] = stats.get("open_outcome_alternative", 0) + 1
            stats["loads"] += 1
            if d:
                what = f"write+load {kind} {fmt}{cmp or ' plain'}"
                out.append(("fail", f"{fmt}:roundtrip:{cls}:{d}", what,
                            {**base, "kind": kind, "file": fname, "observed": _show(got), "step": "write" if isinstance(w, Exception) else "load"}))
        # the collection the caller keeps reads as before after being written
        after_obj = _call(lambda: _project_coll(obj))
        if after_obj != [(n, sq) for n, sq in zip(names, seqs)]:
            out.append(("fail", f"{fmt}:write:{cls}:collection-modified", f"{kind}.write() changed the collection", {**base, "kind": kind, "observed": _show(after_obj)}))
        # the text on disk against the writer model (one-way diagnostic)
        if fmt != "json" and primary and plain_path is not None and plain_path.exists():
            with open(plain_path, "rb") as fh:
                text = fh.read().decode("utf8")
            stats["texts"] += 1
            mlines = [_s(l, mp) for l in t["lines"]]
            if fmt == "fasta":
                lay = observed_fasta_layout(text, names, seqs)
                if lay is None:
                    out.append(("drift", "fasta text is not header + sequence lines of the record", {**base, "text": text}))
                else:
                    for sq, l in zip(seqs, lay):
                        lay_ok = _layouts.get((len(sq), block))
                        if lay_ok is not None and l not in lay_ok:
                            out.append(("drift", "fasta line layout outside the writer relation", {**base, "text": text, "layout": l}))
                            break
            elif text != "".join(l + "\n" for l in mlines):
                out.append(("drift", f"{fmt} text differs from the writer model", {**base, "text": text, "model_text": mlines}))
            # compressed files hold the same text
            for p in written:
                if p.suffix in (".gz", ".bz2") and p.exists() and p.name.startswith(f"{stem}_{kind}."):
                    with open_(p, "rb") as fh:
                        if fh.read().decode("utf8") != text:
                            out.append(("fail", f"{fmt}:compressed-text:{cls}:differs", f"{p.suffix} file content differs from the plain file", {**base, "file": p.name}))

    # every parser of the format, called directly on the written text
    if text is not None and fmt != "json" and plain_path is not None and gz_path is not None and gz_path.exists():
        model = t["model"] if isinstance(t["model"], dict) else {}
        crlf_path = _scratch / f"{stem}_crlf.{SUFFIX[fmt]}"
        crlf_path.write_bytes(text.replace("\n", "\r\n").encode("utf8"))
        written.append(crlf_path)
        # a file with Windows line ends is well-formed input for the loaders too
        kind, make, load, lkw = makers[0]
        got = _call(lambda: _project_coll(load(crlf_path, moltype=mtname, **lkw)))
        stats["loads"] += 1
        d = diff_kind(got, exp, allowed_bytes)
        if d:
            out.append(("fail", f"{fmt}:roundtrip:{cls}:{d}", f"load {kind} from the written text with CRLF line ends",
                        {**base, "kind": kind, "file": crlf_path.name, "observed": _show(got), "step": "load"}))
        for vname, group, mv, thunk in parser_variants(fmt, plain_path, gz_path, crlf_path, text, tier):
            got = _call(thunk)
            stats["parses"] += 1
            d = diff_kind(got, exp, allowed_bytes if group == "bytes" else allowed)
            if not d and (isinstance(got, Exception) or got != exp):
                stats["open_outcome_alternative"] = stats.get("open_outcome_alternative", 0) + 1
            if d:
                out.append(("fail", f"{fmt}:parse:{group}:{cls}:{d}", f"{vname}", {**base, "parser": vname, "text": text, "observed": _show(got)}))
            m = model.get(mv)
            if m is not None:
                if m["same"]:
                    pred = exp
                elif m["res"]["ok"]:
                    pred = _recs(m["res"]["recs"], mp)
                else:
                    pred = None  # the model predicts an exception
                agrees = isinstance(got, Exception) if pred is None else (not isinstance(got, Exception) and got == pred)
                if not agrees:
                    out.append(("drift", f"{vname} differs from its transcription {mv}", {**base, "observed": _show(got), "model": m}))
    # SOURCE REPRESENTATION: an open text handle whose first k (preamble) lines were already consumed, a handle in another
    # encoding / with CR-only line ends, and a generator of lines -- each must parse like the list of the remaining lines
    if text is not None and fmt != "json" and plain_path is not None:
        pre = [_s(l) for l in t.get("preamble", [])]
        ks = sorted(t.get("skips", []))
        # quick: every second case (all families and classes are still met); thorough: every case
        if pre and ks and (tier == "thorough" or idx % 2 == 0):
            k = ks[(idx // 2) % len(ks)]
            cmp = COMPRESSIONS[idx % len(COMPRESSIONS)]
            hpath = _scratch / f"{stem}_pre.{SUFFIX[fmt]}{cmp}"
            written.append(hpath)
            with open_(hpath, "wt") as fh:
                fh.write("".join(l + "\n" for l in pre[:k]) + text)
            for vname, group, thunk in handle_variants(fmt, hpath, k, text, _scratch / f"{stem}_enc.{SUFFIX[fmt]}", written):
                got = _call(thunk)
                stats["parses"] += 1
                stats["handle_parses"] = stats.get("handle_parses", 0) + 1
                d = diff_kind(got, exp, allowed_bytes if group == "bytes" else allowed)
                if d:
                    out.append(("fail", f"{fmt}:parse:{group}:{cls}:{d}", vname, {**base, "parser": vname, "consumed_lines": k, "file": hpath.name, "observed": _show(got)}))
    # ARGUMENTS THE CALLER KEEPS: the list of lines handed to a parser must read as before after the call, and parsing
    # the same object again must give the same records; the dict handed to a formatter must be unchanged
    # (quick: the cases the handle variants skip; thorough: every case)
    if text is not None and fmt != "json" and "arg_after_parse" in t and (tier == "thorough" or idx % 2 == 1):
        after = [_s(l, mp) for l in t["arg_after_parse"]]
        for vname, group, fn in list_entry_points(fmt):
            arg = text.splitlines()
            first = _call(lambda: fn(arg))
            stats["parses"] += 2
            stats["kept_argument_checks"] = stats.get("kept_argument_checks", 0) + 1
            if arg != text.splitlines():
                out.append(("fail", f"{fmt}:parse:{group}:{cls}:argument-modified", f"{vname} changed the caller's list of lines",
                            {**base, "parser": vname, "argument_before": text.splitlines(), "argument_after": list(arg)}))
            elif fmt != "fasta" and arg != after:
                out.append(("drift", f"{fmt} caller's lines differ from the writer model", {**base, "argument": list(arg), "model": after}))
            second = _call(lambda: fn(arg))
            same = (isinstance(first, Exception) and isinstance(second, Exception)) or (not isinstance(first, Exception) and not isinstance(second, Exception) and first == second)
            if not same:
                out.append(("fail", f"{fmt}:parse:{group}:{cls}:second-parse-differs", f"{vname} called twice on the same list",
                            {**base, "parser": vname, "first": _show(first), "second": _show(second)}))
        if fmt in ("phylip", "paml", "gde", "fasta"):
            from cogent3.format.alignment import FORMATTERS

            darg = dict(data)
            order = list(names)
            w = _call(lambda: FORMATTERS[fmt](darg, order=order, **kw))
            want = [(_s(r["name"]), _s(r["seq"], mp)) for r in t["arg_after_write"]]
            if not isinstance(w, Exception) and (list(darg.items()) != want or order != [n for n, _ in want]):
                out.append(("fail", f"{fmt}:write:{cls}:argument-modified", f"FORMATTERS[{fmt!r}] changed the caller's dict / order list",
                            {**base, "argument_after": list(darg.items()), "order_after": order}))
    # the other writer routes (family O: names in non-alphabetical order): every route must give the oracle back
    for route in sorted(set(t.get("routes", [])) - {"write"}):
        obj = _call(lambda: cogent3.make_aligned_seqs(data, moltype=mtname))
        if isinstance(obj, Exception):
            continue
        rpath = _scratch / f"{stem}_{route}.{SUFFIX[fmt]}"
        written.append(rpath)

        def produce():
            if route == "formatter":
                from cogent3.format.alignment import FORMATTERS

                rpath.write_text(FORMATTERS[fmt](dict(data), **kw))
            elif route == "to_string":
                text_ = {"fasta": lambda: obj.to_fasta(block_size=block), "phylip": obj.to_phylip, "json": obj.to_json}[fmt]()
                rpath.write_text(text_)
            elif route == "app":
                import shutil

                dstore = _scratch / f"{stem}_store"
                try:
                    ds = cogent3.open_data_store(dstore, suffix=SUFFIX[fmt], mode="w")
                    writer = cogent3.get_app("write_seqs", data_store=ds, format=fmt)
                    m = writer.main(obj, identifier=f"x.{SUFFIX[fmt]}")
                    rpath.write_text(m.read())
                finally:
                    shutil.rmtree(dstore, ignore_errors=True)
            else:
                raise ValueError(route)

        w = _call(produce)
        got = w if isinstance(w, Exception) else _call(lambda: _project_coll(cogent3.load_aligned_seqs(rpath, moltype=mtname)))
        stats["loads"] += 1
        stats["route_roundtrips"] = stats.get("route_roundtrips", 0) + 1
        d = diff_kind(got, exp, allowed_bytes)
        if d:
            out.append(("fail", f"{fmt}:route={route}:{cls}:{d}", f"written through route {route}, loaded with load_aligned_seqs",
                        {**base, "route": route, "observed": _show(got)}))
        if not isinstance(w, Exception) and route == "app" and fmt != "json":
            got = _call(lambda: _project_coll(cogent3.get_app("load_aligned", format=fmt, moltype=mtname).main(str(rpath))))
            stats["loads"] += 1
            d = diff_kind(got, exp, allowed)
            if d:
                out.append(("fail", f"{fmt}:route={route}:{cls}:{d}", "written by the write_seqs app, loaded by the load_aligned app",
                            {**base, "route": route, "observed": _show(got)}))
    # ragged family Q at the writers' DEFAULT wrap width: the block-3 case is widened position by position
    # (widths 1, 6, 53 = 60 per block, so the lengths 0/1/3/4/8 become 0/1/60/61/127) and written without block_size
    if c["fam"] == "Q" and block == 3:
        wide = lambda sq: "".join(ch * DEFAULT_WIDTHS[j % 3] for j, ch in enumerate(sq))
        wrecs = lambda recs: recs if recs is None else [(n, wide(sq)) for n, sq in recs]
        wdata = {n: wide(sq) for n, sq in zip(names, seqs)}
        wexp, wallowed = wrecs(exp), [wrecs(a) for a in allowed_bytes]
        obj = _call(lambda: cogent3.make_unaligned_seqs(wdata, moltype=mtname))
        if not isinstance(obj, Exception):
            chosen = list(COMPRESSIONS) if tier == "thorough" else [COMPRESSIONS[idx % len(COMPRESSIONS)]]
            for cmp in chosen:
                path = _scratch / f"{stem}_wide.{SUFFIX[fmt]}{cmp}"
                written.append(path)
                w = _call(lambda: obj.write(path))
                got = w if isinstance(w, Exception) else _call(lambda: _project_coll(cogent3.load_unaligned_seqs(path, moltype=mtname)))
                stats["loads"] += 1
                stats["default_width_roundtrips"] = stats.get("default_width_roundtrips", 0) + 1
                d = diff_kind(got, wexp, wallowed)
                if d:
                    out.append(("fail", f"{fmt}:roundtrip-default-width:{cls}:{d}", f"write+load SequenceCollection {fmt}{cmp or ' plain'} at the default line width",
                                {**base, "lengths": [len(x) for x in wdata.values()], "file": path.name,
                                 "observed_lengths": None if isinstance(got, Exception) else [len(x[1]) for x in got], "observed": _show(got)[:3] if not isinstance(got, Exception) else _show(got)}))
    # load_seq returns ONE sequence of the file: the first record
    if fmt != "json" and plain_path is not None and text is not None:
        def first_seq():
            sq = cogent3.load_seq(plain_path, moltype=mtname)
            return [(sq.name, str(sq))]
        got = _call(first_seq)
        stats["loads"] += 1
        d = diff_kind(got, exp[:1], [a if a is None else a[:1] for a in allowed_bytes])
        if d:
            out.append(("fail", f"{fmt}:roundtrip:{cls}:{d}", "write + load_seq (first record of the file)", {**base, "kind": "load_seq", "observed": _show(got), "step": "load"}))
    if tier == "thorough" and fmt != "json" and plain_path is not None and text is not None:
        for appname in ("load_aligned", "load_unaligned"):
            if c["ragged"] and appname == "load_aligned":
                continue
            def app_call():
                app = cogent3.get_app(appname, format=fmt, moltype=mtname)
                r = app.main(str(plain_path))
                return _project_coll(r)
            got = _call(app_call)
            stats["loads"] += 1
            e2, a2 = exp, allowed
            if appname == "load_unaligned":
                # the app degaps by design: both sides are compared through the projection "without gap characters"
                nogap = lambda recs: recs if recs is None or isinstance(recs, Exception) else [(n, s.replace("-", "")) for n, s in recs]
                e2, a2, got = nogap(exp), [nogap(a) for a in allowed], nogap(got)
            d = diff_kind(got, e2, a2)
            if d:
                out.append(("fail", f"{fmt}:app:{cls}:{d}", f"app {appname}", {**base, "observed": _show(got)}))
    for p in written:
        try:
            p.unlink()
        except OSError:
            pass
    return idx, out, stats
