#!/venv/bin/python
"""One-off maintenance tool: two `fix:` commits in /repo each picked up a hunk that belongs to another repair
(agents committed concurrently).  This rewrites the history of a repository so that every fix: commit holds only its own
change; the resulting tree is byte-identical.  usage: split_mixed_commits.py <repo> [--apply-map /verif]"""
import re, subprocess, sys
from pathlib import Path

repo = sys.argv[1]


def git(*a, check=True, **kw):
    r = subprocess.run(["git", "-C", repo, *a], capture_output=True, text=True, **kw)
    if check and r.returncode:
        raise SystemExit(f"git {' '.join(a)} failed:\n{r.stdout}\n{r.stderr}")
    return r.stdout


MIX_HUNKS = "846586424"   # table.py: hunk 1 is Table.sorted (C20), the rest is Table.write (C19)
MIX_PATHS = "99339ab7c"   # sqlite_data_store.py (C13) + new_sequence.py (C01, message in the empty commit cccc68628)
MARKER = "cccc68628"
SORTED_MSG = ("fix: Table.sorted(reverse=...) misordered strings that are prefixes of one another and failed on bool columns\n\n"
              "_reverse_str / _reverse_num keyed a reversed column by transformed values; a string sorted before the strings it is a\n"
              "proper prefix of and a bool column raised AttributeError.  A reversed column is now sorted by the negated rank of its values.")

assert git("status", "--porcelain", "--untracked-files=no").strip() == "", "working tree not clean"
old_head = git("rev-parse", "HEAD").strip()
branch = git("rev-parse", "--abbrev-ref", "HEAD").strip()
full = {c[:9]: c for c in git("rev-list", "HEAD").split()}
first = full[MIX_HUNKS]
base = git("rev-parse", first + "~1").strip()
commits = git("rev-list", "--reverse", f"{base}..HEAD").split()
git("checkout", "-q", "-B", "rewrite-tmp", base)
mapping = {}
marker_msg = git("log", "-1", "--format=%B", full[MARKER])
for c in commits:
    short = c[:9]
    if short == MIX_HUNKS:
        patch = git("show", "--format=", c)
        parts = re.split(r"(?m)^(?=@@ )", patch)
        header, hunks = parts[0], parts[1:]
        for body, msg, key in ((header + hunks[0], SORTED_MSG, short + ":sorted"), (header + "".join(hunks[1:]), None, short)):
            subprocess.run(["git", "-C", repo, "apply", "--index", "-"], input=body, text=True, check=True)
            if msg is None:
                git("commit", "-q", "-C", c)
            else:
                git("commit", "-q", "-m", msg, "--date", git("log", "-1", "--format=%aI", c).strip())
            mapping[key] = git("rev-parse", "HEAD").strip()
    elif short == MIX_PATHS:
        git("cherry-pick", "-n", c)
        git("reset", "-q")
        git("add", "src/cogent3/app/sqlite_data_store.py")
        git("commit", "-q", "-C", c)
        mapping[short] = git("rev-parse", "HEAD").strip()
        git("add", "src/cogent3/core/new_sequence.py")
        git("commit", "-q", "-m", marker_msg, "--date", git("log", "-1", "--format=%aI", full[MARKER]).strip())
        mapping[MARKER] = git("rev-parse", "HEAD").strip()
    elif short == MARKER:
        continue
    else:
        git("cherry-pick", "--allow-empty", c)
        mapping[short] = git("rev-parse", "HEAD").strip()
assert subprocess.run(["git", "-C", repo, "diff", "--quiet", old_head, "HEAD"]).returncode == 0, "tree differs after rewrite"
git("branch", "-f", branch, "HEAD")
git("checkout", "-q", branch)
git("branch", "-D", "rewrite-tmp")
print("old head", old_head[:9], "new head", git("rev-parse", "--short=9", "HEAD").strip())
out = {k: v[:9] for k, v in mapping.items()}
Path("/var/tmp/sha_map.txt").write_text("\n".join(f"{k} {v}" for k, v in out.items()) + "\n")
print(len(out), "commits mapped; map in /var/tmp/sha_map.txt")
