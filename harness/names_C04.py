"""C04, identity of records: replay AnnotationNames.tla on real collections whose sequence names, feature names and
biotypes look alike (underscore vs other character, case only, prefix).

Which records a query returns for which sequence, where and what they read comes from the
spec's QueryTable; this module builds the objects, asks, and compares plain values.
"""
from __future__ import annotations

import json
import random
import zlib
from collections import deque

import impl_C04 as I

LEVELS = ("aln", "seq-old", "seq-new", "coll-new")


def dumps(v):
    return json.dumps(v, separators=(",", ":"))


def strings(seed, ukey, P, K):
    rnd = random.Random(zlib.crc32(f"C04names-{seed}-{ukey}".encode()))
    syms = rnd.sample(I.NONSELF, P * K)
    return ["".join(syms[i * P : (i + 1) * P]) for i in range(K)]


def build(level, names, seqs, records):
    """the real holder of the K sequences sharing one db, as a dict name -> object to take views of (or the alignment)"""
    if level == "aln":
        import cogent3

        aln = cogent3.make_aligned_seqs(data=dict(zip(names, seqs)), moltype="dna", array_align=False)
        for r in records:
            aln.add_feature(seqid=r["seqid"], biotype=r["bio"], name=r["name"], spans=[(r["lo"], r["hi"])], strand=r["strand"])
        return aln
    from cogent3.core.annotation_db import BasicAnnotationDb

    if level == "coll-new":
        from cogent3.core import new_alignment

        coll = new_alignment.make_unaligned_seqs(dict(zip(names, seqs)), moltype="dna")
        for r in records:
            coll.add_feature(seqid=r["seqid"], biotype=r["bio"], name=r["name"], spans=[(r["lo"], r["hi"])], strand=r["strand"])
        return {n: coll.get_seq(n) for n in names}
    db = BasicAnnotationDb()
    for r in records:
        db.add_feature(seqid=r["seqid"], biotype=r["bio"], name=r["name"], spans=[(r["lo"], r["hi"])], strand=r["strand"])
    out = {}
    for n, s in zip(names, seqs):
        o = I.make_seq("old" if level == "seq-old" else "new", s, n, 0)
        o.annotation_db = db
        out[n] = o
    return out


def apply(level, holder, act, args):
    if level == "aln":
        return holder[args[0] : args[1]] if act == "Slice" else holder.rc()
    if act == "Slice":
        return {n: o[args[0] : args[1]] for n, o in holder.items()}
    return {n: o.rc() for n, o in holder.items()}


def ask(level, holder, name, kind, value, partial):
    kw = {"allow_partial": bool(partial)}
    if kind == "name":
        kw["name"] = value
    elif kind == "bio":
        kw["biotype"] = value
    if level == "aln":
        got = holder.get_features(seqid=name, on_alignment=False, **kw)
    else:
        got = holder[name].get_features(**kw)
    return [] if got is None else list(got)


def slice_of(level, g, name):
    s = g.get_slice()
    return s.to_dict()[name] if level == "aln" else str(s)


def check_universe(rep, G, level, ukey, u):
    meta = u["meta"]
    names, records, compl, P = meta["names"], meta["records"], meta["compl"], meta["P"]
    seqs = strings(G["seed"], ukey, P, len(names))
    rootkey = dumps(meta["from"])
    fam = "+".join(k for k, v in zip(("seqnames", "featnames", "biotypes"), meta["from"][:3]) if v != 1) or "plain"
    rep.stats["names_universe_variants"] += 1
    try:
        root = build(level, names, seqs, records)
    except Exception as ex:
        rep.add(f"names:{level}:{fam}:setup:raised-{type(ex).__name__}", lambda: {"level": "names", "holder": level, "names": names, "records": records, "exception": repr(ex)}, "cannot build the collection")
        return
    looks, trans = u["looks"], u["trans"]
    objs = {rootkey: root}
    parent = {}
    queue = deque([rootkey])

    def chain_of(key):
        out = []
        while key in parent:
            key, act, args = parent[key]
            out.append([act, args])
        return out[::-1]

    while queue:
        fk = queue.popleft()
        holder = objs[fk]
        look = looks[fk]
        state = look["from"]
        rep.stats["states"] += 1
        d = "rev" if state[4] else "fwd"
        for k, kind, value, partial, answer in look["queries"]:
            h = zlib.crc32(f"{ukey}{level}{fk}{k}{kind}{value}{partial}".encode()) ^ G["seed"]
            if G["names_rate"] < 1 and h % 9973 >= G["names_rate"] * 9973:
                continue
            rep.stats["names_queries"] += 1
            name = names[k]
            tag = f"{'partial' if partial else 'strict'}:{'no-filter' if kind == 'none' else kind + '-filter'}"

            def detail(extra):
                return lambda: {
                    "level": "names", "holder": level, "names": names, "seqs": seqs, "records": records, "chain": chain_of(fk), "state": state,
                    "call": f"get_features(seqid/sequence={name!r}, {kind}={value!r}, allow_partial={bool(partial)})", "expected": answer, **extra,
                }

            try:
                got = ask(level, holder, name, kind, value, partial)
            except Exception as ex:
                rep.add(f"names:{level}:{fam}:{d}:{tag}:raised-{type(ex).__name__}", detail({"exception": repr(ex)}), f"query raised {ex!r}")
                continue
            want = {(a["name"], a["bio"]): a for a in answer}
            ids = [(g.name, g.biotype) for g in got]
            extra_ids = [i for i in ids if i not in want]
            if extra_ids:
                rep.add(f"names:{level}:{fam}:{d}:{tag}:foreign-record", detail({"returned": ids}),
                        f"query for sequence {name!r} returned {extra_ids}, records that are not its own / do not pass the filter")
            if len(set(ids)) != len(ids):
                rep.add(f"names:{level}:{fam}:{d}:{tag}:duplicates", detail({"returned": ids}), "a record was returned twice")
            for fid, a in want.items():
                g = [x for x in got if (x.name, x.biotype) == fid]
                if not g:
                    rep.add(f"names:{level}:{fam}:{d}:{tag}:missing", detail({"returned": ids}), f"record {fid} of sequence {name!r} not returned")
                    continue
                pr = I.project(g[0])
                diffs = [x for x in ("pos", "rev") if pr[x] != a[x]]
                wanted = I.render(seqs[k], a["read"], a["fcomp"], compl)
                try:
                    s = slice_of(level, g[0], name)
                except Exception as ex:
                    s = f"raised {ex!r}"
                if s != wanted:
                    diffs.append("str")
                if diffs:
                    rep.add(f"names:{level}:{fam}:{d}:{tag}:" + ",".join(diffs), detail({"observed": pr, "observed_slice": s, "expected_slice": wanted}),
                            f"record {fid} on the view of {name!r} differs in {diffs}")
                else:
                    rep.nontrivial.add((ukey, level, dumps(state[3:]), k, kind, value, partial))
        for act, args, tk, _ in trans.get(fk, ()):
            if tk in looks and tk not in objs:
                try:
                    objs[tk] = apply(level, holder, act, args)
                except Exception as ex:
                    rep.stats[f"unsupported:names:{level}:{act}:{type(ex).__name__}"] += 1
                    continue
                parent[tk] = (fk, act, args)
                rep.stats["transitions"] += 1
                queue.append(tk)
    if len(objs) < len(looks):
        rep.stats["states_not_built"] += len(looks) - len(objs)


def replay(d):
    names, seqs, records, level = d["names"], d["seqs"], d["records"], d["holder"]
    holder = build(level, names, seqs, records)
    print(f"{level}: sequences {dict(zip(names, seqs))} records {records}")
    for act, args in d.get("chain", []):
        holder = apply(level, holder, act, args)
        print(f"  {act}{args}")
    for n in names:
        for partial in (True, False):
            try:
                got = ask(level, holder, n, "none", "", partial)
                print(f"  sequence {n!r} allow_partial={partial}:", [(g.name, g.biotype, g.map.get_coordinates(), slice_of(level, g, n)) for g in got])
            except Exception as ex:
                print(f"  sequence {n!r} allow_partial={partial}: raised {ex!r}")
    for k in ("call", "expected", "returned", "observed", "observed_slice", "expected_slice", "exception"):
        if k in d:
            print(f"  recorded {k}: {d[k]!r}"[:500])
