"""C04, order of events: replay the histories of AnnotationHistory.tla on real sequences.

Every Look record is one history (calls in order, each on one of the objects made so
far) plus what every object must see at its end.  The harness makes the calls on old- and
new-style sequences and asks every object; which records an object sees, where, and what
they read comes from the spec.  Nothing here decides what is right.
"""
from __future__ import annotations

import random
import zlib

import impl_C04 as I

SYMS = "CGRYMKHDBV"  # no A / T / U: the string is the same as DNA and as RNA


def root_string(seed, P):
    rnd = random.Random(zlib.crc32(f"C04hist-{seed}".encode()))
    return "".join(rnd.sample(SYMS, P))


def call(objs, c):
    """make one recorded call; returns the new object or None (add_feature)"""
    act, i = c[0], c[1]
    o = objs[i]
    if act == "Slice":
        return o[c[2] : c[3]]
    if act == "Rc":
        return o.rc()
    if act == "Copy":
        return o.copy()
    if act == "Degap":
        return o.degap()
    if act == "ToRna":
        return o.to_rna()
    if act == "Add":
        o.add_feature(biotype="gene", name=c[5], spans=[(c[2], c[3])], strand=c[4])
        return None
    raise ValueError(act)


def paths(hist):
    """for every object: the kinds of calls that derived it from the root, in order"""
    out = [[]]
    for c in hist:
        if c[0] != "Add":
            out.append(out[c[1]] + [c[0]])
    return out


def relation(hist, observer, name):
    """how the add_feature call that made record `name` relates to the observing object"""
    made_at = {0: -1}
    n = 0
    parent = {0: None}
    for t, c in enumerate(hist):
        if c[0] != "Add":
            n += 1
            made_at[n] = t
            parent[n] = c[1]
    for t, c in enumerate(hist):
        if c[0] == "Add" and c[5] == name:
            adder = c[1]
            when = "before-observer-made" if t < made_at[observer] else "after-observer-made"
            anc = set()
            k = observer
            while k is not None:
                anc.add(k)
                k = parent[k]
            if adder == observer:
                who = "on-self"
            elif adder in anc:
                who = "on-ancestor"
            else:
                k, up = adder, set()
                while k is not None:
                    up.add(k)
                    k = parent[k]
                who = "on-descendant" if observer in up else "on-other-branch"
            return f"{who}:{when}"
    return "?"


def check_history(rep, kind, rec, root, seed):
    hist, compl = rec["hist"], rec["compl"]
    rep.stats["histories"] += 1
    objs = [I.make_seq(kind, root, "s", 0)]
    tainted = {}  # object index -> key (behind to_rna: see known findings)
    tainted_rec = {}  # record name -> key (added through such an object: stored at the wrong place for everybody)
    pth = paths(hist)

    def detail(extra):
        return lambda: {"level": "history", "kind": kind, "root": root, "hist": hist, **extra}

    for t, c in enumerate(hist):
        try:
            new = call(objs, c)
        except Exception as ex:
            if c[0] == "Add":
                rep.add(f"{kind}:history:add_feature:{'.'.join(pth[c[1]]) or 'root'}:raised-{type(ex).__name__}",
                        detail({"call": c, "exception": repr(ex)}), f"add_feature raised {ex!r}")
            else:
                # making the object failed (e.g. new-style copy() of a slice: property C01)
                rep.stats[f"unsupported:{kind}:{c[0]}:{type(ex).__name__}"] += 1
            return
        if new is None and c[1] in tainted:
            tainted_rec[c[5]] = tainted[c[1]]
        if new is not None:
            objs.append(new)
            i = len(objs) - 1
            src = c[1]
            if src in tainted:
                tainted[i] = tainted[src]
            elif c[0] == "ToRna":
                so = rec["objs"][src]
                where = "origin" if min(so["idx"]) == 0 and not so["comp"] else "displaced"
                tainted[i] = f"{kind}:history:to_moltype:{where}:later-queries-disagree"
    rep.stats["history_calls"] += len(hist)
    for i, (o, want) in enumerate(zip(objs, rec["obs"])):
        rep.stats["history_objects"] += 1
        fails = []

        def fail(what, extra, name=None):
            fails.append((what, extra, name))

        for partial in (True, False):
            tag = "partial" if partial else "strict"
            try:
                got = I.query(o, partial=partial)
            except Exception as ex:
                fail(f"{tag}:raised-{type(ex).__name__}", {"exception": repr(ex)})
                continue
            names = [g.name for g in got]
            if len(set(names)) != len(names):
                fail(f"{tag}:duplicates", {"returned": names})
            byname = {g.name: g for g in got}
            for nm in names:
                if nm not in {w["name"] for w in want}:
                    fail(f"{tag}:foreign-record", {"returned": names}, nm)  # e.g. added after this object's db was copied
            for w in want:
                status = w["vis"] if partial else w["inside"]
                g = byname.get(w["name"])
                if g is None:
                    if status == "in":
                        fail(f"{tag}:missing", {"returned": names, "expected": w}, w["name"])
                    continue
                if status == "out":
                    fail(f"{tag}:unexpected", {"returned": names, "expected": w}, w["name"])
                    continue
                pr = I.project(g)
                d = [k for k in ("pos", "rev") if pr[k] != w[k]]
                if d:
                    fail(f"{tag}:" + ",".join(d), {"observed": pr, "expected": w}, w["name"])
                if partial:
                    wanted = I.render(root, w["read"], w["fcomp"], compl)
                    try:
                        s = I.slice_str(g)
                    except Exception as ex:
                        fail(f"get_slice:raised-{type(ex).__name__}", {"exception": repr(ex), "expected": w}, w["name"])
                        continue
                    if s != wanted:
                        fail("get_slice:str", {"observed_slice": s, "expected_slice": wanted, "expected": w}, w["name"])
                    elif w["inside"] != "in":
                        rep.nontrivial.add((kind, str(hist), i, w["name"]))
        if not fails:
            continue
        for what, extra, name in fails:
            # behind to_rna() of a displaced view either side can be the one that is wrong: the observer, or the object the
            # record was added through
            cands = [k for k in (tainted.get(i), tainted_rec.get(name)) if k]
            cands.sort(key=lambda k: ":displaced:" not in k)
            if cands:
                rep.add(cands[0], detail({"object": i, "path": pth[i], "record": name, "disagreement": what, **extra}),
                        f"object {i} ({'.'.join(pth[i]) or 'root'}), record {name}, with to_rna() in the history: {what}")
                continue
            rel = relation(hist, i, name) if name else "-"
            key = f"{kind}:history:{'.'.join(pth[i]) or 'root'}:{rel}:{what}"
            rep.add(key, detail({"object": i, "path": pth[i], "record": name, **extra}),
                    f"object {i} ({'.'.join(pth[i]) or 'root'}) and record {name} ({rel}): {what}")


def replay(d):
    kind, root = d["kind"], d["root"]
    objs = [I.make_seq(kind, root, "s", 0)]
    print(f"{kind} root {root!r}")
    for c in d["hist"]:
        try:
            new = call(objs, c)
        except Exception as ex:
            print(f"  {c} raised {ex!r}")
            return
        if new is not None:
            objs.append(new)
            print(f"  {c} -> object {len(objs) - 1}: {str(new)!r} {new.parent_coordinates()}")
        else:
            print(f"  {c}")
    for i, o in enumerate(objs):
        try:
            print(f"  object {i} {str(o)!r} sees", [(g.name, g.map.get_coordinates(), g.reversed, str(g.get_slice())) for g in I.query(o, partial=True)])
        except Exception as ex:
            print(f"  object {i} query raised {ex!r}")
    for k in ("object", "record", "expected", "observed", "observed_slice", "expected_slice", "exception", "all_disagreements"):
        if k in d:
            print(f"  recorded {k}: {d[k]!r}"[:500])
