"""C17: replay of specs/AnnotDbProv.tla — two related database objects and where they live.

The spec carries, for the database in use and for a second object derived from it, whether it
was made in memory, is bound to a file (write() + Cls(source=path)), or is an in-memory copy
(deepcopy / pickle round trip) of a file-bound object.  Every update / union between the two
objects that TLC reached (every combination of provenances, both directions, also after the
copy was modified) is executed on real objects with that real history: the path of calls from
an empty database is replayed, after each call the records of BOTH objects are compared with
the spec's state, and a mismatch is reported at the first call that produces it.
"""
from __future__ import annotations

import copy
import json
import multiprocessing as mp
import os
import pickle
import random
import tempfile
from collections import deque

import adb_C17 as A
from graph import _worker_init, skey
from tlc import MachineryError, read_emitted, run_tlc

DECISIVE = ("UpdateFromKin", "UpdateKin", "UnionKin")
_P: dict = {}


class Ctx:
    def __init__(self, kind, workdir):
        self.kind = kind
        self.workdir = workdir
        self.db = A.classes()[kind]()
        self.kin = None
        self.paths = []
        self.opened = []

    def reload_of(self, db):
        fd, path = tempfile.mkstemp(prefix="c17p-", suffix=".sqlitedb", dir=self.workdir)
        os.close(fd)
        os.unlink(path)
        self.paths.append(path)
        if A.WRITE_HANGS_IN_TRANSACTION and db.db.in_transaction:
            raise A.WouldHang("write() with an open transaction never returns on this tree")
        db.write(path)
        new = type(db)(source=path)
        self.opened.append(new)
        return new

    def apply(self, act, args):
        if act == "Add":
            a, arg, _ord = args[0]
            A.add(self.db, self.kind, a, arg)
        elif act == "Reload":
            self.db = self.reload_of(self.db)
        elif act == "CopySelf":
            self.db = copy.deepcopy(self.db) if args[0] == "Copy" else pickle.loads(pickle.dumps(self.db))
        elif act == "Fork":
            k = args[0]
            self.kin = copy.deepcopy(self.db) if k == "Copy" else pickle.loads(pickle.dumps(self.db)) if k == "Pickle" else self.reload_of(self.db)
        elif act == "DropKin":
            self.kin = None
        elif act == "KinAdd":
            a, arg, _ord = args[0]
            A.add(self.kin, self.kind, a, arg)
        elif act == "UpdateFromKin":
            self.db.update(self.kin)
        elif act == "UpdateKin":
            self.kin.update(self.db)
        elif act == "UnionKin":
            self.db = self.db.union(self.kin)
        else:
            raise ValueError(act)

    def observed(self):
        return A.project(self.db), (A.project(self.kin) if self.kin is not None else [])

    def cleanup(self):
        for d in self.opened:
            try:
                d.db.close()
            except Exception:
                pass
        for p in self.paths:
            try:
                os.unlink(p)
            except OSError:
                pass


def expected(state):
    return A.bag_of(state["recs"]), A.bag_of(state["kin"])


def step_key(kind, frm, act, args, what):
    """structural key: class, call, provenance of the two objects before the call, what differs"""
    extra = ""
    if act in ("CopySelf", "Fork"):
        extra = f":{args[0]}"
    elif act in ("Add", "KinAdd"):
        extra = f":{args[0][0]}"
    return f"{kind}:prov:{act}{extra}:self={frm['src']}:kin={frm['ksrc']}:{what}"


def _job(job):
    kind, path = job  # path: list of (from_state, act, args, to_state)
    ctx = Ctx(kind, _P["workdir"])
    done = []
    try:
        for frm, act, args, to in path:
            try:
                ctx.apply(act, args)
                got = ctx.observed()
            except Exception as ex:
                return done, (step_key(kind, frm, act, args, f"exception:{type(ex).__name__}"), {"class": kind, "history": [[a, g] for _f, a, g, _t in path[: len(done)]], "from": frm, "act": act, "args": args, "exception": repr(ex)}, f"{act} raised {type(ex).__name__}")
            exp = expected(to)
            if got != exp:
                parts = []
                for name, e, g in (("self", exp[0], got[0]), ("kin", exp[1], got[1])):
                    d, _f = A.diff_class(e, g)
                    if d:
                        parts.append(f"{name}-{d}")
                return done, (
                    step_key(kind, frm, act, args, "result:" + "+".join(parts)),
                    {"class": kind, "history": [[a, g] for _f, a, g, _t in path[: len(done)]], "from": frm, "act": act, "args": args, "expected": {"self": exp[0], "kin": exp[1]}, "observed": {"self": got[0], "kin": got[1]}},
                    f"records after {act} differ from the model (the provenance of an object must never matter)",
                )
            done.append((skey(frm), skey([act, args])))
        return done, None
    finally:
        ctx.cleanup()


def validate(run, scratch, fraction=1.0):
    """returns the number of distinct spec transitions executed on real objects (summed over classes)"""
    emit = scratch / "prov.ndjson"
    res = run_tlc("AnnotDbProv", "MC_AnnotDb_prov.cfg", scratch, workers=8, env={"EMIT_FILE": emit})
    run.add_tlc(res)
    succ = {}
    states = {}
    for v in read_emitted(emit):
        if "from" not in v or "to" not in v:
            continue
        f, t = skey(v["from"]), skey(v["to"])
        states.setdefault(f, v["from"])
        states.setdefault(t, v["to"])
        succ.setdefault(f, {}).setdefault(skey([v["act"], v.get("args", [])]), (v["act"], v.get("args", []), t))
    emit.unlink()
    init = skey({"recs": [], "src": "memory", "kin": [], "ksrc": "none"})
    if init not in succ:
        raise MachineryError("AnnotDbProv: initial state not in the emitted graph")
    # shortest call sequence to every state
    paths = {init: []}
    queue = deque([init])
    while queue:
        f = queue.popleft()
        for _lab, (act, args, t) in sorted(succ.get(f, {}).items()):
            if t not in paths:
                paths[t] = paths[f] + [(states[f], act, args, states[t])]
                queue.append(t)
    rng = random.Random(f"{run.seed}:prov")
    jobs = []
    combos = set()
    for f in sorted(succ):
        if f not in paths:
            continue
        for _lab, (act, args, t) in sorted(succ[f].items()):
            if act not in DECISIVE:
                continue
            frm = states[f]
            combo = (act, frm["src"], frm["ksrc"])
            ext = any(r["via"] == "ext" for r in frm["recs"] + frm["kin"])
            take = combo not in combos or rng.random() < fraction
            combos.add(combo)
            if not take:
                continue
            full = paths[f] + [(frm, act, args, states[t])]
            for kind in ("gff", "gb") if ext else ("basic", "gff", "gb"):
                jobs.append((kind, full))
    missing = {(a, s, k) for a in DECISIVE for s in ("memory", "file", "filecopy") for k in ("memory", "file", "filecopy")} - combos
    if missing:
        raise MachineryError(f"AnnotDbProv: provenance combinations never reached: {sorted(missing)}")
    _P["workdir"] = str(scratch)
    seen = set()
    ctxm = mp.get_context("fork")
    with ctxm.Pool(min(16, os.cpu_count() or 1), initializer=_worker_init) as pool:
        for (kind, _path), (done, failure) in zip(jobs, pool.imap(_job, jobs, chunksize=4)):
            for d in done:
                seen.add((kind,) + d)
            if failure:
                key, detail, what = failure
                run.fail(key, detail, what=what)
    run.note("prov_spec_states", len(states))
    run.note("prov_update_union_cases_run", len(jobs))
    run.note("prov_provenance_combinations", len(combos))
    run.note("prov_distinct_transitions_executed", len(seen))
    if jobs:
        kind, path = jobs[len(jobs) // 2]
        run.cov["samples"].append({"class": kind, "two_objects_history": [[a, g] for _f, a, g, _t in path], "provenance_before_last_call": {"self": path[-1][0]["src"], "kin": path[-1][0]["ksrc"]}, "records_after": {"self": path[-1][3]["recs"], "kin": path[-1][3]["kin"]}})
    return len(seen)
