"""C06 / SeqFormatsGb.tla -> real GenBank parsers.

TLC emits well-formed GenBank flat files (model of the NCBI layout: LOCUS line, ORIGIN block with
60 residues per line in groups of 10, "//"), the oracle records (locus, upper-case sequence) and
the prediction of the transcribed bytes-splitting parser.  Every real parser variant is run on the
text: minimal_parser / rich_parser (bytes, path, .gz, text stream, CRLF), the line based
MinimalGenbankParser, the registry entry get_parser("gb") and the loaders.
"""
from __future__ import annotations

import gzip
import io
import warnings

from formats_C06 import _call, _show, diff_kind


def _s(chars):
    return "".join(chars)


def _up(pairs):
    # projection: sequences are compared up to letter case (GenBank files are lower case; the
    # bytes parser upper-cases by documented design, the line based one does not)
    return [(str(n), str(s).upper()) for n, s in pairs]


def variants(text, path, gz_path, crlf_path, pre_path, pre_k):
    from cogent3 import load_seq, load_unaligned_seqs
    from cogent3.parse import genbank as gb
    from cogent3.parse.sequence import get_parser

    data = text.encode("utf8")
    crlf = text.replace("\n", "\r\n").encode("utf8")

    def mini(src, **kw):
        return _up((r["locus"], r["sequence"]) for r in gb.minimal_parser(src, **kw))

    def rich(src, **kw):
        return _up((n, s) for n, s in gb.rich_parser(src, **kw))

    def old():
        # the deprecation notice of this parser is printed through warnings.showwarning whatever the filters are
        show = warnings.showwarning
        warnings.showwarning = lambda *a, **k: None
        try:
            return _up((r["locus"], r["sequence"]) for r in gb.MinimalGenbankParser(text.splitlines()))
        finally:
            warnings.showwarning = show

    def textio():
        with open(path, "rt") as fh:
            return mini(fh)

    def at_k(parse):
        # an open text handle whose preamble lines were already read: parse the remaining lines
        with open(pre_path, "rt") as fh:
            for _ in range(pre_k):
                fh.readline()
            return parse(fh)

    def coll():
        c = load_unaligned_seqs(path, moltype="dna")
        d = c.to_dict()
        return _up((n, d[n]) for n in c.names)

    return [
        ("minimal_parser(bytes)", "bytes", True, lambda: mini(data)),
        ("minimal_parser(bytes, convert_features=None)", "bytes", True, lambda: mini(data, convert_features=None)),
        ("minimal_parser(Path)", "bytes", True, lambda: mini(path)),
        ("minimal_parser(str path.gz)", "bytes", True, lambda: mini(str(gz_path))),
        ("minimal_parser(text stream)", "bytes", True, textio),
        ("minimal_parser(bytes, CRLF)", "bytes", True, lambda: mini(crlf)),
        ("minimal_parser(Path, CRLF file)", "bytes", True, lambda: mini(crlf_path)),
        ("rich_parser(Path)", "bytes", True, lambda: rich(path)),
        ("rich_parser(Path, just_seq)", "bytes", True, lambda: rich(path, just_seq=True)),
        ("rich_parser(Path.gz, moltype=dna)", "bytes", True, lambda: rich(gz_path, moltype="dna")),
        ("get_parser('gb')(Path)", "bytes", True, lambda: _up(get_parser("gb")(path))),
        ("MinimalGenbankParser(lines)", "lines", False, old),
        ("minimal_parser(text handle after consumed preamble lines)", "bytes", True, lambda: at_k(mini)),
        ("rich_parser(text handle after consumed preamble lines)", "bytes", True, lambda: at_k(rich)),
        ("load_unaligned_seqs(x.gb)", "load", True, coll),
    ], (lambda: _up([(load_seq(path, moltype="dna").name, str(load_seq(path, moltype="dna")))]))


def check_genbank(run, scratch, stats, tlc_emit):
    recs, res = tlc_emit(run, "SeqFormatsGb", f"MC_SeqFormatsGb_{run.tier}.cfg", scratch, "genbank", workers=1)  # a file of three 121-residue records exceeds one atomic append
    stats["SeqFormatsGb"] = {"tlc_states": res.distinct, "tlc_transitions": res.generated, "tlc_wall_s": round(res.wall, 1), "emitted": len(recs)}
    d = scratch / "gb"
    d.mkdir()
    ncalls = bad = drift = 0
    recs.sort(key=lambda r: (len(r["from"]["names"]), [len(s) for s in r["from"]["seqs"]], r["from"]["seqs"]))
    for i, r in enumerate(recs):
        t = r["to"]
        cls = t["cls"]
        exp = [(_s(e["name"]), _s(e["seq"])) for e in t["exp"]]
        text = "".join(_s(l) + "\n" for l in t["lines"])
        path = d / f"r{i}.gb"
        gz_path = d / f"r{i}.gb.gz"
        crlf_path = d / f"r{i}_crlf.gb"
        path.write_text(text)
        with gzip.open(gz_path, "wb") as fh:
            fh.write(text.encode("utf8"))
        crlf_path.write_bytes(text.replace("\n", "\r\n").encode("utf8"))
        m = t["model"]
        pred = exp if m["same"] else ([(_s(e["name"]), _s(e["seq"])) for e in m["res"]["recs"]] if m["res"]["ok"] else None)
        base = {"names": [n for n, _ in exp], "lengths": [len(s) for _, s in exp], "text": text, "expected": exp, "class": cls}
        pre = [_s(l) for l in t.get("preamble", [])]
        pre_k = 1 + i % max(1, len(pre)) if pre else 0
        pre_path = d / f"r{i}_pre.gb"
        pre_path.write_text("".join(l + "\n" for l in pre[:pre_k]) + text)
        vs, first = variants(text, path, gz_path, crlf_path, pre_path, pre_k)
        for vname, group, modelled, thunk in vs:
            got = _call(thunk)
            ncalls += 1
            dk = diff_kind(got, exp)
            if dk:
                bad += 1
                run.fail(f"genbank:parse:{group}:{cls}:{dk}", {**base, "parser": vname, "observed": _show(got)}, what=vname)
            if modelled and group == "bytes":
                agrees = isinstance(got, Exception) if pred is None else (not isinstance(got, Exception) and got == pred)
                if not agrees:
                    drift += 1
                    run.model_drift(f"SeqFormatsGb: {vname} differs from the transcription of iter_genbank_records: {str(_show(got))[:200]}")
        got = _call(first)
        ncalls += 1
        dk = diff_kind(got, exp[:1])
        if dk:
            bad += 1
            run.fail(f"genbank:parse:load_seq:{cls}:{dk}", {**base, "parser": "load_seq(x.gb)", "observed": _show(got)}, what="load_seq(x.gb) returns the first record")
        if i % 97 == 3:
            run.sample({"spec": "SeqFormatsGb", "names": base["names"], "lengths": base["lengths"], "class": cls, "first_lines": text.splitlines()[:4]})
        for p in (path, gz_path, crlf_path, pre_path):
            p.unlink()
    print(f"[C06] SeqFormatsGb: {len(recs)} files, {ncalls} real parser calls, {bad} disagreements with the oracle, {drift} model drifts", flush=True)
    stats["genbank_replay"] = {"files": len(recs), "real_calls": ncalls, "disagreements": bad, "model_drift": drift}
    return len(recs), ncalls
