"""C08 growth: users of the gapped-coordinate maps, replayed against specs/IndelMapUse.tla.

  CIGAR   cogent3.parse.cigar: map_to_cigar, cigar_to_map, aligned_from_cigar, slice_cigar
          (by alignment / by sequence coordinates), CigarParser (full and sliced)
  Aligned cogent3.core.alignment.Aligned (IndelMap + sequence view): str, len, gap_vector,
          with_termini_unknown, iteration, slicing, int index, rc, and the compositions
          slice-of-slice, slice-of-rc, rc-of-slice, slice-of-rc-of-slice, feature-map indexing

TLC enumerates every gapped string up to UseLen and every argument; each record is one real call
whose outcome is compared with the value TLC computed (`ret`).  What an Aligned shows is compared
residue by residue: residue k of the ungapped sequence has letter ACGT[k % 4], the spec says which
residue index (or gap / unknown) every column shows and whether it is complemented.  Python only
renders spec values as text and parses cigar text into (count, letter) pairs.
"""
from __future__ import annotations

import json
import random
import re
import traceback
from collections import Counter, defaultdict

import maps_C08 as M

LETTERS = "ACGT"
COMP = {"A": "T", "C": "G", "G": "C", "T": "A"}
_G = {}


# ------------------------------------------------------------------ formats
def gapped(s):
    """0/1 list -> gapped text, residue k has letter ACGT[k % 4]."""
    out, k = [], 0
    for x in s:
        if x == 0:
            out.append("-")
        else:
            out.append(LETTERS[k % 4])
            k += 1
    return "".join(out)


def ungapped(s):
    return gapped(s).replace("-", "")


def render(ents, comp=0):
    """entry sequence of the spec -> the text an Aligned must show."""
    out = []
    for e in ents:
        if e == -1:
            out.append("-")
        elif e == -2:
            out.append("?")
        else:
            c = LETTERS[e % 4]
            out.append(COMP[c] if comp else c)
    return "".join(out)


def cigar_text(runs, style):
    """run list of the spec -> cigar text (0: '1' omitted, 1: counts explicit, 2: M runs split)."""
    out = []
    for n, c in runs:
        if style == 0:
            out.append(c if n == 1 else f"{n}{c}")
        elif style == 1:
            out.append(f"{n}{c}")
        else:
            out.append(f"{c}{n - 1}{c}" if c == "M" and n >= 2 else (c if n == 1 else f"{n}{c}"))
    return "".join(out)


_RUN = re.compile(r"([0-9]*)([A-Za-z])")


def cigar_runs(text):
    """cigar text -> [[count, letter], ...] without empty runs (format conversion only)."""
    if _RUN.sub("", text):
        return f"unparsable:{text!r}"
    return [[int(n) if n else 1, c] for n, c in _RUN.findall(text) if (int(n) if n else 1) != 0]


def text_of(obj):
    """str() of a real sequence-like object, never materialising an absurd length."""
    M.check_len(len(obj), "len")
    return str(obj)


def im_matches(m, t):
    """fields in which real map m differs from Describe(t)."""
    exp = _G["expected"](t)
    df, obs = M.receiver_diff(m, exp)
    return df, {k: exp[k] for k in df}, {k: obs.get(k) for k in df}


# ------------------------------------------------------------------- CIGAR
def do_cigar(rec, out):
    from cogent3.parse import cigar as C

    act, args, g, ret = rec["act"], rec["args"], tuple(rec["from"]), rec["ret"]
    runs = _G["runs"][g]
    if act == "Cigar":
        for ctor in ("parse", "segments"):
            if 1 not in g and ctor == "segments":
                continue
            m = M.build_indelmap(list(g), ctor, _G["desc"][g])
            got = cigar_runs(C.map_to_cigar(m))
            out.n += 1
            if got != ret:
                out.fail(f"map_to_cigar:ctor={ctor}", "cigar", {"expected": ret, "observed": got})
        for style in (0, 1, 2):
            text = cigar_text(ret, style)
            out.n += 1
            m = C.cigar_to_map(text)
            df, e, o = im_matches(m, g)
            if df:
                out.fail(f"cigar_to_map:style={style}", "map", {"cigar": text, "expected": e, "observed": o})
            out.n += 1
            for seq_style in ("str", "seq"):
                seq = ungapped(g)
                if seq_style == "seq":
                    from cogent3 import make_seq

                    seq = make_seq(seq, moltype="dna")
                got = text_of(C.aligned_from_cigar(text, seq))
                if got != gapped(g):
                    out.fail(f"aligned_from_cigar:style={style}", "text", {"cigar": text, "expected": gapped(g), "observed": got})
        return
    text = cigar_text(runs, 0)
    if act in ("SliceCigarAln", "SliceCigarSeq"):
        out.n += 1
        m, loc = C.slice_cigar(text, args[0], args[1], by_align=act == "SliceCigarAln")
        loc = [int(x) for x in loc]
        if loc != ret["loc"]:
            out.fail("slice_cigar", "location", {"cigar": text, "expected": ret["loc"], "observed": loc})
        df, e, o = im_matches(m, tuple(ret["to"]))
        if df:
            out.fail("slice_cigar", "map", {"cigar": text, "expected": e, "observed": o})
        return
    h = tuple(args[0])
    seqs = {"r": ungapped(g), "o": ungapped(h)}
    cigars = {"r": text, "o": cigar_text(_G["runs"][h], 0)}
    out.n += 1
    if act == "CigarParserFull":
        aln = C.CigarParser(seqs, cigars)
    else:
        aln = C.CigarParser(seqs, cigars, sliced=True, ref_seqname="r", start=args[1], end=args[2])
    M.check_len(len(aln), "alignment length")
    got = {k: str(v) for k, v in aln.to_dict().items()}
    exp = {"r": render(ret["ents"][0]), "o": render(ret["ents"][1])}
    if got != exp:
        out.fail("CigarParser", "rows", {"seqs": seqs, "cigars": cigars, "expected": exp, "observed": got})


# ------------------------------------------------------------------ Aligned
A_CTORS = ("alignment", "direct")


def build_aligned(g, ctor):
    from cogent3 import make_aligned_seqs, make_seq

    text = gapped(g)
    if ctor == "alignment":
        return make_aligned_seqs({"a": text, "b": "A" * len(text)}, moltype="dna", array_align=False).named_seqs["a"]
    from cogent3.core.alignment import Aligned

    imap, seq = make_seq(text, name="a", moltype="dna").parse_out_gaps()
    return Aligned(imap, seq)


def aligned_call(al, act, args):
    from cogent3.core.location import FeatureMap, Span

    if act == "ASlice":
        return al[args[0] : args[1]]
    if act == "AIndex":
        return al[args[0]]
    if act == "ARc":
        return al.rc()
    if act == "ARcRc":
        return al.rc().rc()
    if act == "ARcSlice":
        return al.rc()[args[0] : args[1]]
    if act == "ASliceRc":
        return al[args[0] : args[1]].rc()
    if act == "ASliceSlice":
        return al[args[0] : args[1]][args[2] : args[3]]
    if act == "ASliceRcSlice":
        return al[args[0] : args[1]].rc()[args[2] : args[3]]
    if act == "AFeature":
        return al[FeatureMap(spans=[Span(a, b) for a, b in args[0]], parent_length=len(al))]
    if act == "AUnknownSlice":
        return al[args[0] : args[1]].with_termini_unknown()
    raise ValueError(act)


def round_trip_unknown(m):
    """to_json -> deserialise -> entry per column (-1 lost span, -2 terminal padding)."""
    from cogent3.util.deserialise import deserialise_object

    back = deserialise_object(m.to_json())
    ents = []
    for sp in back.spans:
        n = M.check_len(sp.length, "span length")
        if sp.lost:
            ents.extend([-2 if getattr(sp, "terminal", False) else -1] * n)
        else:
            ents.extend(int(i) for i in sp)
    return ents


def do_aligned(rec, out):
    act, args, g, ret = rec["act"], rec["args"], tuple(rec["from"]), rec["ret"]
    if not g:
        out.stats["unsupported_empty_alignment"] += 1
        return
    ctors = A_CTORS
    if act in ("ASliceSlice", "ASliceRcSlice", "ARcSlice", "AFeature"):
        # the two ways of building the Aligned take turns on the (many) composite calls
        ctors = (A_CTORS[(len(g) + sum(x for x in args if isinstance(x, int))) % 2],)
    for ctor in ctors:
        cache = _G.setdefault("aligned", {})
        if (ctor, g) not in cache:
            cache[(ctor, g)] = build_aligned(g, ctor)
        al = cache[(ctor, g)]
        out.n += 1
        try:
            if act == "AlignedDescribe":
                obs = {
                    "str": text_of(al),
                    "len": len(al),
                    "gapped_seq": text_of(al.get_gapped_seq()),
                    "iter": "".join(str(x) for x in al),
                    "gap_vector": [int(bool(x)) for x in al.gap_vector()],
                    "with_termini_unknown": text_of(al.with_termini_unknown()),
                    "map_len": len(al.map),
                    # serialisation round trips keep lost / unknown-terminus spans
                    "indelmap_json_unknown": round_trip_unknown(al.map.with_termini_unknown()),
                    "featuremap_json_unknown": round_trip_unknown(al.map.with_termini_unknown().to_feature_map()),
                }
                exp = {
                    "str": render(ret["ents"]),
                    "len": ret["len"],
                    "gapped_seq": render(ret["ents"]),
                    "iter": render(ret["ents"]),
                    "gap_vector": ret["gapvec"],
                    "with_termini_unknown": render(ret["unknown"]),
                    "map_len": ret["len"],
                    "indelmap_json_unknown": ret["unknown"],
                    "featuremap_json_unknown": ret["unknown"],
                }
                for k in exp:
                    if obs[k] != exp[k]:
                        out.fail(f"ctor={ctor}", k, {"expected": exp[k], "observed": obs[k]})
            else:
                r = aligned_call(al, act, args)
                got = text_of(r)
                exp = render(ret["ents"], ret["comp"])
                if got != exp:
                    out.fail(f"ctor={ctor}", "text", {"expected": exp, "observed": got})
                elif len(r) != len(exp) or len(r.map) != len(exp):
                    out.fail(f"ctor={ctor}", "len", {"expected": len(exp), "observed": [len(r), len(r.map)]})
        finally:
            # the receiver must still show the same (calls are queries)
            try:
                now = text_of(al)
            except Exception as ex:
                now = f"raised:{type(ex).__name__}"
            if now != gapped(g):
                out.fail(f"ctor={ctor}", "receiver-changed", {"expected": gapped(g), "observed": now})
                cache.pop((ctor, g), None)


# -------------------------------------------------------------------- driver
def klass(rec):
    act, args, g = rec["act"], rec["args"], list(rec["from"])
    if act in ("ASlice", "ARcSlice"):
        return M.im_class("Slice", args, g)
    if act in ("ASliceRc", "AUnknownSlice", "SliceCigarAln"):
        return M.im_class("Slice", args[:2], g)
    if act in ("ASliceSlice", "ASliceRcSlice"):
        inner = "inner-empty" if args[2] >= args[3] else "inner"
        return M.im_class("Slice", args[:2], g) + "," + inner
    if act == "AIndex":
        return M.im_class("Index", args, g)
    if act == "AFeature":
        return M.im_class("Joined", args, g)
    if act == "SliceCigarSeq":
        return ("empty-interval" if args[0] == args[1] else "interval") + ":" + M.layout(g)
    if act in ("CigarParserFull", "CigarParserSliced"):
        return f"ref={M.layout(g)},other={'allgap' if 1 not in args[0] else ('nogap' if 0 not in args[0] else 'gapped')}"
    return M.layout(g)


class Out:
    def __init__(self, rec, fails, stats):
        self.rec, self.fails, self.stats, self.n = rec, fails, stats, 0
        self.family = "Cigar" if "Cigar" in rec["act"] else "Aligned"

    def fail(self, where, what, det):
        rec = self.rec
        key = f"{self.family}:{rec['act']}:{where}:{klass(rec)}:{what}"
        self.fails.add(key, {"spec": "IndelMapUse", "from": gapped(rec["from"]), "from_bits": rec["from"], "act": rec["act"], "args": rec["args"], "spec_ret": rec["ret"], **det})


def use_one(rec, fails, stats):
    out = Out(rec, fails, stats)
    try:
        if out.family == "Cigar":
            do_cigar(rec, out)
        else:
            do_aligned(rec, out)
    except M.AbsurdLength as ex:
        out.fail("call", "result-absurd-length", {"exception": repr(ex)})
    except (M.CaseTimeout, MemoryError):
        raise
    except Exception as ex:
        out.fail("call", f"exception={type(ex).__name__}", {"exception": repr(ex), "traceback": traceback.format_exc()[-1500:]})
    stats["executions"] += out.n
    stats["records"] += 1
    stats["act:" + rec["act"]] += 1
    if 0 in rec["from"] and 1 in rec["from"]:
        stats["nontrivial"] += 1


def _use_job(job):
    lo, hi = job
    infra = _G["infra"]
    fails, stats, samples = infra.Fails(), Counter(), []
    for ln in _G["use_lines"][lo:hi]:
        rec = json.loads(ln)
        infra.guarded_case(lambda: use_one(rec, fails, stats), (f"{'Cigar' if 'Cigar' in rec['act'] else 'Aligned'}:{rec['act']}", rec), fails, stats)
        if len(samples) < 1 and stats["records"] % 97 == 0 and 0 in rec["from"] and 1 in rec["from"]:
            samples.append({"spec": "IndelMapUse", "from": gapped(rec["from"]), "act": rec["act"], "args": rec["args"], "ret": rec["ret"]})
    return fails, stats, samples


def use_phase(run, scratch, infra):
    """infra = the check_C08 module (Fails, run_pool, guarded_case, read_lines, _expected, _G)."""
    from tlc import run_tlc

    cfg = f"MC_IndelMap_use_{run.tier}.cfg"
    emit = scratch / "use.ndjson"
    res = run_tlc("IndelMapUse", cfg, scratch, workers=16, env={"EMIT_FILE": emit}, heap="6g")
    run.add_tlc(res)
    lines = infra.read_lines(emit)
    emit.unlink()
    runs = {}
    for ln in lines:
        if '"act":"Cigar"' in ln:
            r = json.loads(ln)
            runs[tuple(r["from"])] = r["ret"]
    random.Random(run.seed).shuffle(lines)
    _G.update(use_lines=lines, runs=runs, desc=infra._G["desc"], expected=infra._expected, infra=infra, aligned={})
    total, allfails = Counter(), infra.Fails()
    for fails, stats, samples in infra.run_pool(_use_job, len(lines), 300, "IndelMapUse"):
        total.update(stats)
        for k, (n, d) in fails.d.items():
            for _ in range(n):
                allfails.add(k, d)
        for s in samples:
            run.sample(s, limit=9)
    allfails.merge_into(run, "real cigar / Aligned call disagrees with IndelMapUse.tla")
    if total["records"] + total["abandoned_tasks"] * 300 < len(lines) and not total["abandoned_tasks"]:
        raise RuntimeError(f"IndelMapUse: {len(lines)} records emitted, {total['records']} replayed")
    run.cov["traces_validated_against_impl"] += total["executions"]
    run.cov["distinct_nontrivial"] += total["nontrivial"]
    run.note(
        "indelmap_use",
        {
            "tlc_states": res.distinct,
            "tlc_transitions": res.generated,
            "tlc_wall_s": round(res.wall, 1),
            "emitted_records": len(lines),
            "records_by_action": {k[4:]: v for k, v in sorted(total.items()) if k.startswith("act:")},
            "real_calls": total["executions"],
            "unsupported_empty_alignment": total["unsupported_empty_alignment"],
        },
    )
