"""C01 growth: what a view answers (SeqViewRead.tla) replayed on the real classes.

TLC enumerates, for concrete IUPAC root strings, every view reachable by slices
and rc(), checks the laws of the plain-string model, and emits per view one
Observe record with the answer of every reading method.  Here each view is built
on real old-style, new-style and collection-backed sequences through two
different chains of public calls (the shortest one, and one that prefers to end
in rc() / comes from another parent view), every method is called and its
answer compared with the record.  The second operand of ==, !=, <, hash, in is a
single slice of an independent sequence object (other name, other offset).
"""
from __future__ import annotations

import json
import multiprocessing as mp
import time
from collections import Counter, defaultdict

import impl_C01 as I
from tlc import read_emitted, run_tlc

G = {}


def J(x):
    return json.dumps(x, separators=(",", ":"))


def S(chars):
    return "".join(chars)


def view_class(state):
    root, off, idx, comp = state
    if not idx:
        return "empty"
    c = "rev" if comp else "fwd"
    if len(idx) >= 2 and abs(idx[1] - idx[0]) > 1:
        c += ",strided"
    return c


def py(x, none):
    return None if x == none else x


def apply(o, act, args, none):
    if act == "Slice":
        return o[slice(py(args[0], none), py(args[1], none), py(args[2], none))]
    return o.rc()


def paths(frame_states, trans, init):
    """two spanning trees: A = breadth first; B = prefers an rc() edge, else another parent than A's"""
    succ = defaultdict(list)
    for f, act, args, t in trans:
        if f != t:
            succ[f].append((act, args, t))
    pa = {init: None}
    frontier = [init]
    order = [init]
    while frontier:
        nxt = []
        for f in frontier:
            for act, args, t in succ[f]:
                if t not in pa:
                    pa[t] = (f, act, args)
                    nxt.append(t)
                    order.append(t)
        frontier = nxt
    pb = {}
    for f in order:
        for act, args, t in succ[f]:
            if t == init or t not in pa or f == t:
                continue
            cur = pb.get(t)
            if act == "Rc":
                if cur is None or cur[1] != "Rc":
                    pb[t] = (f, act, args)
            elif cur is None and f != pa[t][0]:
                pb[t] = (f, act, args)
    return pa, pb, order


def chain(pa, pb, key, variant):
    """list of (act, args) from the root: variant 1 uses B's last edge on top of A's chain of that parent"""
    out = []
    if variant == 1 and key in pb:
        f, act, args = pb[key]
        out.append((act, args))
        key = f
    while pa.get(key) is not None:
        f, act, args = pa[key]
        out.append((act, args))
        key = f
    return out[::-1]


def job(task):
    root, off, kind, part, nparts = task
    fr = G["frames"][(J(root), off)]
    none = G["none"]
    rootstr = S(root)
    fails = {}
    stats = Counter()

    def fail(key, detail, what):
        if key in fails:
            fails[key][0] += 1
        else:
            fails[key] = [1, detail, what]

    base = I.make(kind, rootstr, "dna", "s", off)
    if base is None:
        return fails, dict(stats)
    fk = "new" if kind == "sdv" else kind
    otherbase = I.make(fk, rootstr, "dna", "other", off + 7)
    others = {}
    has = lambda o, m: hasattr(o, m)
    for key in fr["order"][part::nparts]:
        state = json.loads(key)
        obs = fr["observe"].get(key)
        if obs is None:
            continue
        for variant in (0, 1):
            calls = chain(fr["pa"], fr["pb"], key, variant)
            if variant == 1 and key not in fr["pb"]:
                continue
            try:
                o = base
                for act, args in calls:
                    o = apply(o, act, args, none)
            except Exception as ex:
                fail(f"{kind}:read:build:{view_class(state)}", {"root": rootstr, "calls": calls, "exception": repr(ex)}, "cannot build the view")
                continue
            exp = S(obs["obs"]["str"])
            ctx = {"kind": kind, "root": rootstr, "offset": off, "calls": [[a, [py(x, none) for x in ar]] for a, ar in calls], "view": exp}
            stats["views"] += 1

            def check(name, thunk, want, cmp=None):
                stats["answers"] += 1
                try:
                    got = thunk()
                except Exception as ex:
                    fail(f"{kind}:read:{name}:{view_class(state)}:raised-{type(ex).__name__}", {**ctx, "query": name, "exception": repr(ex), "expected": want}, f"{name} raised {ex!r}")
                    return
                ok = cmp(got, want) if cmp else got == want
                if not ok:
                    fail(f"{kind}:read:{name}:{view_class(state)}", {**ctx, "query": name, "observed": repr(got), "expected": want}, f"{name} answers {got!r}, the string model says {want!r}")

            a = obs["obs"]
            check("str", lambda: str(o), exp)
            check("len", lambda: len(o), a["len"])
            check("iter", lambda: "".join(o), exp)
            for p, n in a["count"]:
                check("count", lambda: o.count(S(p)), n)
            for m, amb, gap, pairs in a["counts"]:
                check("counts", lambda: dict(o.counts(motif_length=m, include_ambiguity=amb, allow_gap=gap)), {S(x): c for x, c in pairs})
            for k, strict, kmers in a["kmers"]:
                check("get_kmers", lambda: list(o.get_kmers(k, strict=strict)), [S(x) for x in kmers])
                check("iter_kmers", lambda: list(o.iter_kmers(k, strict=strict)), [S(x) for x in kmers])
            check("get_in_motif_size", lambda: o.get_in_motif_size(1), exp)
            for m, chunks in a["motifs"]:
                check("get_in_motif_size", lambda: list(o.get_in_motif_size(m)), [S(x) for x in chunks])
            for w, st, s0, e0, wins in a["windows"]:
                def run_windows():
                    out = []
                    for x in o.sliding_windows(w, st, py(s0, none), py(e0, none)):
                        out.append((str(x), x.parent_coordinates(), x.annotation_offset))
                    return out

                def same_windows(got, want):
                    if [g[0] for g in got] != [S(x["str"]) for x in want]:
                        return False
                    for (s_, pc, ao), x in zip(got, want):
                        b = x["bounds"]
                        if pc[0] != "s" or pc[3] != b[0] or not (b[1] <= pc[1] <= b[2]) or not (b[3] <= pc[2] <= b[4]) or ao != pc[1]:
                            return False
                    return True

                check("sliding_windows", run_windows, wins, same_windows)
            check("is_gapped", lambda: bool(o.is_gapped()), a["is_gapped"])
            check("is_degenerate", lambda: bool(o.is_degenerate()), a["is_degenerate"])
            check("is_strict", lambda: bool(o.is_strict()), a["is_strict"])
            check("is_valid", lambda: bool(o.is_valid()), a["is_valid"])
            check("gap_vector", lambda: [bool(x) for x in o.gap_vector()], a["gap_vector"])
            check("gap_indices", lambda: [int(x) for x in o.gap_indices()], a["gap_indices"])
            check("count_gaps", lambda: int(o.count_gaps()), a["count_gaps"], lambda g, w_: g in w_)
            if has(o, "first_gap"):
                check("first_gap", lambda: o.first_gap(), a["first_gap"], lambda g, w_: ([] if g is None else [g]) == w_)
            if has(o, "gap_maps"):
                check("gap_maps", lambda: o.gap_maps(), a["gap_maps"], lambda g, w_: g[0] == {u: v for u, v in w_["gapped"]} and g[1] == {u: v for u, v in w_["ungapped"]})
            check("with_termini_unknown", lambda: str(o.with_termini_unknown()), S(a["termini_unknown"]))
            check("strip_degenerate", lambda: str(o.strip_degenerate()), S(a["strip_degenerate"]))
            check("disambiguate", lambda: str(o.disambiguate("strip")), S(a["strip_degenerate"]))
            check("strip_bad", lambda: str(o.strip_bad()), S(a["strip_bad"]))
            check("strip_bad_and_gaps", lambda: str(o.strip_bad_and_gaps()), S(a["degap"]))
            check("degap", lambda: str(o.degap()), S(a["degap"]))
            check("shuffle", lambda: dict(Counter(str(o.shuffle()))), dict(a["bag"]) if isinstance(a["bag"], dict) else {})
            if has(o, "__array__"):
                import numpy

                check("__array__", lambda: [int(x) for x in numpy.array(o)], a["array"])
                check("__bytes__", lambda: bytes(o).decode("utf8"), exp)
            for b, text in a["fasta"]:
                check("to_fasta", lambda: o.to_fasta(block_size=b), S(text))
            if has(o, "to_phylip"):
                check("to_phylip", lambda: o.to_phylip(), S(a["phylip"]))
            tr = a["translation"]
            if tr["ok"] and state[3] and len(state[2]) >= 4 and len(state[2]) % 3:
                stats["translation_minus_strand_partial_codon"] += 1
            if tr["ok"]:
                def outcome(thunk, proj):
                    try:
                        return proj(thunk())
                    except Exception:
                        return "!"

                for inc, trim, iok, allowed in tr["get_translation"]:
                    if kind == "old" and inc and trim:
                        continue  # old-style include_stop overrides trim_stop on plain strings too: C12's known finding (7), not a view matter
                    check("get_translation", lambda: outcome(lambda: o.get_translation(gc=1, incomplete_ok=iok, include_stop=inc, trim_stop=trim), str),
                          [S(x) for x in allowed], lambda g, w_: g in w_)
                for strict, want in tr["has_terminal_stop"]:
                    check("has_terminal_stop", lambda: outcome(lambda: o.has_terminal_stop(gc=1, strict=strict), lambda v: "TRUE" if v else "FALSE"),
                          want, lambda g, w_: g == ("!" if w_ == "REJECT" else w_))
                for strict, want in tr["trim_stop_codon"]:
                    def trimmed():
                        t = o.trim_stop_codon(gc=1, strict=strict)
                        return (str(t), t.parent_coordinates() if len(t) else None, t.annotation_offset)

                    def same_trim(g, w_):
                        if w_["refused"]:
                            return g == "!"
                        if g == "!" or g[0] != S(w_["str"]):
                            return False
                        b = w_["bounds"]
                        if not b:
                            return True
                        pc = g[1]
                        return pc[0] == "s" and pc[3] == b[0] and b[1] <= pc[1] <= b[2] and b[3] <= pc[2] <= b[4] and g[2] == pc[1]

                    check("trim_stop_codon", lambda: outcome(trimmed, lambda v: v), want, same_trim)
            for ca, cb, ck, eq, lt, cont in (a["cmp"] if variant == 0 else a["cmp"][::7]):
                ok_ = (ca, cb, ck)
                if ok_ not in others:
                    others[ok_] = otherbase[slice(py(ca, none), py(cb, none), py(ck, none))]
                e = others[ok_]
                check("__eq__", lambda: (bool(o == e), bool(o == str(e)), bool(o != e)), (eq, eq, not eq))
                check("__lt__", lambda: bool(o < e), lt)
                check("__contains__", lambda: str(e) in o, cont)
                if eq:
                    check("__hash__", lambda: hash(o) == hash(e) == hash(str(e)), True)
                stats["comparisons"] += 1
            if str(o) != exp:
                fail(f"{kind}:read:mutates-receiver:{view_class(state)}", ctx, "a reading method changed the view")
    return fails, dict(stats)


def tlc_read(scratch, tier):
    emit = scratch / "emit-read.ndjson"
    # one TLC worker: an Observe record is longer than the buffer within which concurrent CSVWrite lines stay intact
    res = run_tlc("SeqViewRead", f"MC_SeqViewRead_{tier}.cfg", scratch, workers=1, env={"EMIT_FILE": emit}, timeout=1800)
    return res, emit


def stage_read(run, scratch, tier, totals, tm, warm=None, pre=None):
    res, emit = pre if pre is not None else tlc_read(scratch, tier)
    run.add_tlc(res)
    tm["read.tlc"] = round(res.wall, 1)
    t0 = time.time()
    frames = {}
    none = None
    nrec = 0
    for r in read_emitted(emit):
        nrec += 1
        root, off = r["from"][0], r["from"][1]
        fr = frames.setdefault((J(root), off), {"trans": [], "observe": {}, "root": root})
        fkey = J(r["from"])
        if r["act"] == "Observe":
            fr["observe"][fkey] = r
            none = r["none"]
        else:
            fr["trans"].append((fkey, r["act"], r["args"], J(r["to"])))
    emit.unlink()
    tasks = []
    for (rk, off), fr in frames.items():
        root = fr["root"]
        init = J([root, off, list(range(len(root))), False])
        fr["pa"], fr["pb"], fr["order"] = paths(None, fr["trans"], init)
        del fr["trans"]
        for kind in I.KINDS:
            if kind == "sdv" and off:
                continue
            for part in range(4):
                tasks.append((root, off, kind, part, 4))
    G.update(frames=frames, none=none)
    I.TABLES.setdefault("none", none)
    if warm is not None:
        warm()  # imports / JIT compilation once, in the parent of the forked workers
    ctx = mp.get_context("fork")
    agg = Counter()
    with ctx.Pool(min(16, len(tasks))) as pool:
        for fails, stats in pool.imap_unordered(job, tasks):
            agg.update(stats)
            for key, (n, detail, what) in fails.items():
                run.fail(key, detail, what=what)
                for _ in range(min(n - 1, 100000)):
                    run.fail(key, {}, what=what)
    if not agg["translation_minus_strand_partial_codon"]:
        raise RuntimeError("vacuous: no reverse-complemented monomer view with an incomplete last codon was translated (check the roots of SeqViewRead)")
    for k, v in agg.items():
        totals[f"read_{k}"] += v
    totals["read_records"] += nrec
    totals["read_states"] += sum(len(fr["observe"]) for fr in frames.values())
    tm["read.replay"] = round(time.time() - t0, 1)
    for fr in list(frames.values())[:1]:
        for key, r in list(fr["observe"].items())[3:4]:
            run.sample({"spec": "SeqViewRead", "view": r["from"], "answers": {k: r["obs"][k] for k in ("str", "gap_indices", "termini_unknown", "kmers")}})
