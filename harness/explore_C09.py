"""C09 spec -> code conformance walk over the TreeOps state graph.

Like graph.explore (breadth first, every reached abstract state is rebuilt on fresh
real objects by replaying the recorded history, every enabled label is applied), but
a transition is judged on three separate things:
  observations : tips / splits / path lengths / root partition of the RESULT must equal
                 those of a successor the spec allows              -> violation otherwise
  receiver     : the tree the call was made on must be unmodified  -> violation otherwise
  structure    : the result's Trees.tla record equals the successor -> needed only to go on
                 exploring from it; a pure structure difference is MODEL-DRIFT, never an alarm.
Every (state, label) is run for every name class; a failure that the plain class does not
show is keyed by the name class.
"""
from __future__ import annotations

import json
import multiprocessing as mp
import os
import random
from collections import defaultdict

import bind_C09 as B


class TGraph:
    """Index of emitted TreeOps transitions."""

    def __init__(self):
        self.succ = defaultdict(dict)  # fkey -> lab -> [(tkey, obs, cls, exp)]
        self.ntrans = 0
        self.states = set()

    def add(self, r):
        f = B.state_key(r["from"])
        t = B.state_key(r["to"])
        lab = json.dumps([r["act"], _canon_args(r["args"])], separators=(",", ":"))
        lst = self.succ[f].setdefault(lab, [])
        obs = B.canon_obs(r["obs"]) if "tips" in r["obs"] else {}
        ent = (t, json.dumps(obs, sort_keys=True), r["cls"], json.dumps(r["exp"], sort_keys=True))
        if ent not in lst:
            lst.append(ent)
            self.ntrans += 1
        self.states.add(f)
        self.states.add(t)


def _canon_args(args):
    return [sorted(a) if isinstance(a, list) else a for a in args]


_G = {}


def _replay(ctx, path):
    for pl in path:
        act, args = json.loads(pl)
        if act == "Make":
            ctx.tree = B.make(ctx, *args)
        else:
            ctx.advance(act, B.call(ctx, act, args))


def _run_variant(variant, fkey, lab, path, allowed, want_observed):
    """-> dict(to, issues, drift, unsupported) for one name class."""
    act, args = json.loads(lab)
    ctx = B.new_ctx(variant)
    out = {"variant": variant, "issues": [], "to": None, "unsupported": False, "drift": None, "not_run": False}
    if (variant in B.FRESH_ONLY_CLASSES and (len(path) > 1 or act not in B.FRESH_ACTS)) or \
            (variant in B.RT_ONLY_CLASSES and act not in B.RT_ACTS) or (variant in B.TWIN_CLASSES and act not in B.TWIN_ACTS) or (act in B.PLAIN_ONLY_ACTS and variant != "plain") \
            or (_G.get("light") and act in B.NAME_BLIND_ACTS and variant != "plain"):
        out["not_run"] = True
        return out
    try:
        _replay(ctx, path)
    except Exception as ex:  # the history itself was validated for the plain class only
        out["issues"].append(("history-raises", {"exception": repr(ex)}))
        return out
    recv = before = after = None
    if act == "Make":
        try:
            res = ctx.tree = B.make(ctx, *args)
        except Exception as ex:
            out["issues"].append((f"raises:{type(ex).__name__}", {"exception": repr(ex)}))
            return out
    else:
        recv = ctx.tree
        before = B.snapshot(ctx, recv)
        names_before = B.namemap(recv) if act in B.NAME_KEEPING else None
        res = None
        try:
            res = B.call(ctx, act, args)
        except B.Unsupported:
            out["unsupported"] = True
            return out
        except Exception as ex:
            import traceback

            out["issues"].append(
                (f"raises:{type(ex).__name__}", {"exception": repr(ex), "traceback": traceback.format_exc()[-1200:]})
            )
        after = B.snapshot(ctx, recv)
        if act not in B.IN_PLACE and after != before:
            out["issues"].append(("receiver-modified", {"before": before, "after": after}))
        if res is None:
            return out
        if res is recv and act not in B.IN_PLACE and act not in B.PLAIN_ONLY_ACTS:
            out["issues"].append(("returned-receiver", {}))
    if act not in ("Bifurcating", "Query"):
        # NamesUnique: every node of a result has its own name
        # (bifurcating() documents name_unnamed= for that; its unnamed nodes are not judged here)
        # (None = unnamed, e.g. what DndParser leaves on unlabelled nodes, is not a name)
        names = [n.name for n in res.traverse() if n.name is not None]
        if len(set(names)) != len(names):
            out["issues"].append(("names-not-unique", {"names": [repr(n) for n in names]}))
    if recv is not None and act in B.NAME_KEEPING and B.namemap(res) != names_before:
        out["issues"].append(("names-changed", {"before": names_before, "after": B.namemap(res)}))
    _judge(ctx, act, res, fkey, allowed, out)
    if act == "Query" and B.snapshot(ctx, recv) != before:
        out["issues"].append(("receiver-modified", {"before": before, "after": B.snapshot(ctx, recv)}))
    if want_observed or out["issues"] or out["drift"]:
        out["observed"]["newick"] = res.get_newick(with_distances=True, with_node_names=True)
    else:
        out.pop("observed", None)
    if recv is not None and act not in B.IN_PLACE and res is not recv:
        # a NEW tree: changing the result afterwards must not reach the receiver either
        # (this task's objects are discarded afterwards)
        for node in res.traverse(include_self=False):
            node.length = 77.0
        again = B.snapshot(ctx, recv)
        if again != after:
            out["issues"].append(
                ("aliases-receiver", {"probe": "every branch length of the RESULT set to 77.0", "receiver_before_probe": after, "receiver_after_probe": again})
            )
    return out


def _judge(ctx, act, res, fkey, allowed, out):
    """Compare the real result with the successors the spec allows."""
    robs = B.obs(ctx, res)
    rst = B.struct(ctx, res)
    rkey = B.state_key(rst)
    out["observed"] = {"obs": robs, "struct": rst}
    if act == "Query":
        t, eo, cls, exp = allowed[0]
        want = B.canon_query(json.loads(exp))
        got = B.query(ctx, res, want)
        out["observed"] = {"query": got}
        bad = sorted(k for k in want if B._j(want[k]) != B._j(got[k]))
        for k in bad:
            w, g = want[k], got[k]
            if isinstance(w, dict) and isinstance(g, dict):
                diff = {kk: {"expected": w[kk], "observed": g.get(kk)} for kk in w if B._j(w[kk]) != B._j(g.get(kk))}
            else:
                diff = {"expected": w, "observed": g}
            out["issues"].append((k, {"differences": dict(list(diff.items())[:8]) if isinstance(diff, dict) and "expected" not in diff else diff}))
        out["to"] = fkey
        return
    if act == "Bifurcating":
        # contract carried by the spec record: same tips, same path lengths, every original split
        # still present (new zero-length edges may add splits), at most two children everywhere
        t, eo, cls, exp = allowed[0]
        eo = json.loads(eo)
        diffs = [k for k in ("tips", "dist") if B._j(robs[k]) != B._j(eo[k])]
        have = {B._j(s) for s in robs["splits"]}
        if any(B._j(s) not in have for s in json.loads(B._j(eo["splits"]))):
            diffs.append("splits")
        if any(len(n.children) > 2 for n in res.traverse()):
            diffs.append("degree")
        if diffs:
            out["issues"].append((",".join(sorted(diffs)), {"expected": eo}))
        out["to"] = fkey
        return
    best = None
    for t, eo, cls, exp in allowed:
        eo = json.loads(eo)
        d = B.obs_diff(robs, eo)
        exp = json.loads(exp)
        if "tiporder" in exp:
            got = [ctx.inv.get(n, n) for n in res.get_tip_names()]
            if got != list(exp["tiporder"]):
                d = d + ["tiporder"]
        if "height2" in exp:
            # midpoint rooting: the farthest tip is half a diameter from the new root (half units: x2, twice: x4)
            if 4 * max(res.distance(tip) for tip in res.tips()) != exp["height2"]:
                d = d + ["height"]
        if not d and t == rkey:
            out["to"] = t
            return
        if best is None or len(d) < len(best[0]):
            best = (d, t, eo)
    d, t, eo = best
    if not d and ctx.twin is not None:
        out["to"] = t       # names of this class are the code's own: only observations are compared
        return
    if d:
        out["issues"].append((",".join(d), {"expected": eo, "expected_struct_key": t}))
    else:
        out["drift"] = {"expected_struct": t, "observed_struct": rkey}


def _task(job):
    fkey, lab, path, want = job
    graph, variants = _G["graph"], _G["variants"]
    allowed = graph.succ[fkey][lab]
    outs = [_run_variant(v, fkey, lab, path, allowed, want and v == variants[0]) for v in variants]
    return fkey, lab, outs


def explore(graph: TGraph, run, variants, *, nproc=None, budget=None, seed=0, sample_every=1499, light=False):
    """Breadth-first conformance walk from EMPTY.  Reports through run.fail / run.model_drift."""
    nproc = nproc or min(16, os.cpu_count() or 1)
    _G["graph"], _G["variants"], _G["light"] = graph, variants, light
    rnd = random.Random(seed)
    paths = {"EMPTY": []}
    frontier = ["EMPTY"]
    stats = defaultdict(int)
    per_act = defaultdict(int)
    drift_by = defaultdict(int)
    drift_ex = {}
    depth = 0
    ctxm = mp.get_context("fork")
    import cogent3  # noqa: F401  (imported before forking so the workers share it)
    import cogent3.util.deserialise  # noqa: F401

    with ctxm.Pool(nproc) as pool:
        while frontier:
            jobs = [[f, lab, paths[f], False] for f in frontier for lab in graph.succ.get(f, {})]
            if budget is not None and stats["transitions"] + len(jobs) > budget:
                keep = max(0, budget - stats["transitions"])
                stats["skipped_by_budget"] += len(jobs) - keep
                rnd.shuffle(jobs)
                jobs = jobs[:keep]
            for i in range(0, len(jobs), sample_every):
                jobs[i][3] = len(run.cov["samples"]) < 6
            nxt = []
            for fkey, lab, outs in pool.imap_unordered(_task, jobs, chunksize=16):
                stats["transitions"] += 1
                act, args = json.loads(lab)
                per_act[act] += 1
                cls = graph.succ[fkey][lab][0][2]
                plain = outs[0]
                plain_issues = {k for k, _ in plain["issues"]}
                for o in outs:
                    if o["not_run"]:
                        continue
                    stats["cases"] += 1
                    if o["unsupported"]:
                        stats["unsupported"] += 1
                        continue
                    for kind, detail in o["issues"]:
                        stats["issues"] += 1
                        if kind == "aliases-receiver":
                            key = f"{act}:aliases-receiver"
                        elif kind == "history-raises":  # an earlier call of the history failed for this name class
                            key = f"history:names={o['variant']}:raises"
                        elif o is plain or kind in plain_issues:
                            key = f"{act}:{cls}:{kind}"
                        else:
                            coarse = "raises" if kind.startswith("raises") else ("receiver-modified" if kind == "receiver-modified" else "differs")
                            key = f"{act}:names={o['variant']}:{coarse}"
                        run.fail(
                            key,
                            {
                                "history": [json.loads(p) for p in paths[fkey]],
                                "call": [act, args],
                                "name_class": o["variant"],
                                "names": {k: v for k, v in B.NAME_CLASSES[o["variant"]].items()},
                                "issue": kind,
                                "observed": o.get("observed"),
                                **detail,
                            },
                            what=f"{kind} at {lab} names={o['variant']}",
                        )
                    if o["drift"] and not o["issues"]:
                        stats["drift"] += 1
                        drift_by[f"{act}:{cls}"] += 1
                        if f"{act}:{cls}" not in drift_ex:
                            drift_ex[f"{act}:{cls}"] = {"history": [json.loads(p) for p in paths[fkey]], "call": [act, args], "name_class": o["variant"], **o["drift"]}
                        run.model_drift(f"{act} {args} names={o['variant']}: result structure differs from the model, observations agree: {o['drift']}")
                t = plain["to"]
                # the result is the modelled successor (a modified receiver does not spoil the result)
                if t is not None and t not in paths and plain_issues <= {"receiver-modified", "returned-receiver", "aliases-receiver"}:
                    paths[t] = paths[fkey] + [lab]
                    nxt.append(t)
                if "observed" in plain and not plain["issues"] and plain["to"] is not None:
                    run.sample({"history": [json.loads(p) for p in paths[fkey]], "call": [act, args], "result": plain.get("observed", {}).get("newick")})
            frontier = nxt
            depth += 1
    stats["impl_states_reached"] = len(paths)
    stats["spec_states"] = len(graph.states)
    stats["spec_transitions"] = graph.ntrans
    stats["bfs_depth"] = depth
    stats["per_action"] = dict(per_act)
    stats["drift_by_class"] = dict(drift_by)
    stats["drift_examples"] = drift_ex
    return dict(stats)
