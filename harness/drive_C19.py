"""C19: execute one (case, destination state, boundary, mode) job on the real code and
project what is left on disk to the abstract state of AtomicWrite.tla."""
from __future__ import annotations

import os
import shutil
import tempfile
from pathlib import Path

import faults_C19 as faults
import writers_C19 as W

SPEC_CALLS = {"mkdtemp", "open_tmp", "write", "close", "unlink_dest", "rename", "rmtree", "open_dest", "store"}
# reading the staged member back is how storing it into an open archive starts
ROLE_TO_CALL = {"read_tmp": "store"}
MULTI_EVENT_CALLS = {"mkdtemp", "rmtree", "write"}  # one abstract call = several raw boundaries

# how Fault(c) of the spec is instantiated on the real code: errors a file system can return for the call
PATH_CALL_ERRNOS = ("EIO", "EACCES", "ENOENT")
FILE_OBJECT_ERRNOS = ("EIO", "ENOSPC")  # write / close


INTERRUPTS = ("KeyboardInterrupt", "SystemExit")  # BaseExceptions that are not Exceptions


def fault_variants(role):
    errs = FILE_OBJECT_ERRNOS if role in ("write", "close") else PATH_CALL_ERRNOS
    return [f"{e}:{rep}" for e in errs for rep in ("once", "persist")]


def interrupt_variants(role):
    return [f"{i}:once" for i in INTERRUPTS]


def is_interrupt(variant):
    return bool(variant) and variant.split(":")[0] in INTERRUPTS


def snapshot_dir(root: Path):
    out = {}
    for p in sorted(root.rglob("*")):
        rel = str(p.relative_to(root))
        out[rel] = "<dir>" if p.is_dir() else p.read_bytes().hex()
    return out


def execute(job):
    """job = (case, pre, k, mode, scratch[, fault variant]) -> raw result (JSON-able)"""
    case, pre, k, mode, scratch = job[:5]
    variant = job[5] if len(job) > 5 else None
    root = Path(tempfile.mkdtemp(prefix="case-", dir=scratch))
    work = root / "d"
    work.mkdir()
    dest = work / case.fname
    if pre == "Old":
        dest.write_bytes(W.old_bytes(case.fname))
    log = root / "log.ndjson"
    try:
        status, events, end = faults.run_in_child(work, dest, k, mode, log, lambda: W.call(case, str(dest)), variant=variant)
        final = snapshot_dir(work)
    finally:
        shutil.rmtree(root, ignore_errors=True)
    return {
        "case": case,
        "pre": pre,
        "k": k,
        "mode": mode,
        "variant": variant,
        "status": status,
        "events": events,
        "end": end,
        "final": final,
    }


# ------------------------------------------------------------------ projection
def classify(fname: str, snap: dict, new_payload):
    """(dest state, tmp state, leftover paths) of a raw directory snapshot"""
    raw = snap.get(fname)
    if raw is None:
        dest = "absent"
    elif raw == "<dir>" or raw == "<unreadable>":
        dest = "Partial"
    else:
        b = bytes.fromhex(raw)
        if b == W.old_bytes(fname):
            dest = "Old"
        elif new_payload is not None and W.payload(fname, b) == new_payload:
            dest = "New"
        elif new_payload is not None and fname.endswith(".zip") and W.payload(fname, b) == W.appended(fname, new_payload):
            dest = "OldNew"  # the archive holds its previous member(s) followed by the new one
        else:
            dest = "Partial"
    others = {k: v for k, v in snap.items() if k != fname}
    if not others:
        tmp = "absent"
    elif all(v == "<dir>" for v in others.values()):
        tmp = "empty"
    else:
        tmp = "Partial"
        if new_payload is not None:
            for k, v in others.items():
                if v not in ("<dir>", "<unreadable>") and W.payload(fname, bytes.fromhex(v)) == new_payload:
                    tmp = "New"
    return dest, tmp, sorted(others)


def coarse(tmp):
    return "absent" if tmp == "absent" else "present"


def outcome(res, new_payload):
    """abstract outcome of one child: how, fcall, role of the injection boundary, dest, tmp"""
    case = res["case"]
    dest, tmp, left = classify(case.fname, res["final"], new_payload)
    if res["status"] == "killed":
        how = "crashed"
    elif res["status"] == "exited":
        how = res["end"]["end"]
    else:
        how = "died"
    role = None
    if res["mode"] in ("kill", "fault"):
        ev = [e for e in res["events"] if e["i"] == res["k"]]
        role = ev[0]["role"] if ev else None
    kill_role = None
    if res.get("variant") and "kill@" in res["variant"]:
        j = int(res["variant"].rsplit("kill@", 1)[1])
        ev = [e for e in res["events"] if e["i"] == j and e["kind"] == "kill"]
        kill_role = ev[0]["role"] if ev else None
    fcall = "none"
    if res["mode"] == "fault":
        role_call = ROLE_TO_CALL.get(role, role)
        fcall = role_call if role_call in SPEC_CALLS else "other"
    return {"how": how, "fcall": fcall, "role": role, "kill_role": kill_role, "dest": dest, "tmp": tmp, "left": left}


def abstract_trace(res, new_payload, out):
    """the child's boundary log as a trace of AtomicWrite.tla, or None if it contains calls the spec does not model"""
    case = res["case"]
    evs = []
    for e in res["events"]:
        if e["role"] not in SPEC_CALLS:
            return None
        d, t, _ = classify(case.fname, e["snap"], new_payload)
        evs.append({"call": e["role"], "kind": e["kind"], "dest": d, "tmp": coarse(t)})
    merged = []
    for e in evs:
        if (
            merged
            and merged[-1]["kind"] == "call"
            and merged[-1]["call"] == e["call"]
            and e["call"] in MULTI_EVENT_CALLS
            and (merged[-1]["dest"], merged[-1]["tmp"]) == (e["dest"], e["tmp"])
        ):
            # several raw boundaries of one abstract call: keep one event (the injected one if any)
            merged[-1] = e
            continue
        merged.append(e)
    return {
        "cfg": case.group,
        "name": case.nameclass,
        "pre": res["pre"],
        "events": merged,
        "end": {"how": out["how"], "dest": out["dest"], "tmp": coarse(out["tmp"])},
    }
