"""C08 code -> spec: record what the real call sites of IndelMap do to gapped
sequences (Aligned / Alignment slicing, rc, concatenation, feature-map
indexing, dotplot gap subtraction) with a seeded random driver and let TLC
validate every recorded event against the string operators of IndelMap.tla
(specs/IndelMapTrace.tla).  Sequences are 10-40 columns, far beyond the
exhaustive bound.  No expected value is computed in Python.
"""
from __future__ import annotations

import json
import os
import random
import re
import signal
from pathlib import Path

from tlc import MachineryError, run_tlc

VERIF = Path(__file__).resolve().parent.parent
CODE = {"-": 0, "A": 1, "C": 2, "G": 3, "T": 4}


class Absurd(Exception):
    pass


def _on_alarm(signum, frame):
    raise TimeoutError("call used more than 20s of CPU")


def enc(text):
    """Gapped text (or an Aligned / sequence object) -> codes; objects claiming an absurd length are
    never rendered."""
    if not isinstance(text, str):
        n = len(text)
        if n < 0 or n > 4096:
            raise Absurd(f"object of claimed length {n}")
    return [CODE[c] for c in str(text)]


def rand_gapped(rnd, n):
    """A random gapped DNA string with gap runs (incl. leading/trailing/all-gap/no-gap)."""
    mode = rnd.random()
    if mode < 0.05:
        return "-" * n
    if mode < 0.12:
        return "".join(rnd.choice("ACGT") for _ in range(n))
    out = []
    gap = rnd.random() < 0.4
    while len(out) < n:
        run = rnd.randint(1, 5)
        out.extend("-" * run if gap else [rnd.choice("ACGT") for _ in range(run)])
        gap = not gap
    return "".join(out[:n])


def rand_segments(rnd, n, k):
    cuts = sorted(rnd.sample(range(n + 1), min(2 * k, n + 1) // 2 * 2))
    return [[cuts[i], cuts[i + 1]] for i in range(0, len(cuts), 2)]


def record(seed, nalign):
    from cogent3 import make_aligned_seqs, make_seq
    from cogent3.core.location import FeatureMap, Span

    rnd = random.Random(seed)
    events = []

    def ev(op, frm, args, call):
        """call() makes the real call; an exception is recorded as the outcome (and will be rejected)."""
        exc = ""
        signal.signal(signal.SIGPROF, _on_alarm)
        signal.setitimer(signal.ITIMER_PROF, 20)  # a call spinning for 20 CPU-s is recorded as a raised one
        try:
            to = call()
            to = enc(to) if isinstance(to, str) else to
        except Exception as ex:
            to, exc = [], f"{type(ex).__name__}: {ex}"[:200]
        finally:
            signal.setitimer(signal.ITIMER_PROF, 0)
        events.append({"op": op, "from": enc(frm), "args": args, "to": to, "ok": not exc, "exc": exc})

    for _ in range(nalign):
        n = rnd.randint(10, 40)
        rows = {f"s{i}": rand_gapped(rnd, n) for i in range(3)}
        aln = make_aligned_seqs(rows, moltype="dna", array_align=False)
        # --- Alignment level: every row goes through Aligned.__getitem__ / rc
        x, y = sorted((rnd.randint(-n, n), rnd.randint(-n, n)), key=lambda v: v + n if v < 0 else v)
        for name, text in rows.items():
            ev("Slice", text, [x, y], lambda: enc(aln[x:y].named_seqs[name]))
        for name, text in rows.items():
            ev("Rc", text, [], lambda: enc(aln.rc().named_seqs[name]))
        # --- Aligned level
        for name, text in rows.items():
            al = aln.named_seqs[name]
            for _ in range(4):
                a, b = rnd.randint(-n, n), rnd.randint(-n, n)
                ev("Slice", text, [a, b], lambda: enc(al[a:b]))
            i = rnd.randint(-n, n - 1)
            ev("Index", text, [i], lambda: enc(al[i]))
            ev("Rc", text, [], lambda: enc(al.rc()))
            ev("Unchanged", text, [], lambda: enc(al))  # the calls above were queries
            # a history on ONE derived object: the reverse complement is sliced repeatedly and must
            # keep reading the same after every call
            try:
                rcd = al.rc()
                rtext = dec(enc(rcd))
            except Exception:
                rcd = None
            if rcd is not None and set(rtext) <= set(CODE):
                for _ in range(4):
                    a, b = rnd.randint(-n, n), rnd.randint(-n, n)
                    ev("Slice", rtext, [a, b], lambda: enc(rcd[a:b]))
                    ev("Unchanged", rtext, [], lambda: enc(rcd))
                ev("Rc", rtext, [], lambda: enc(rcd.rc()))
                ev("Unchanged", text, [], lambda: enc(al))
            # slice of a slice / rc of a slice: the map of a derived object
            a, b = sorted((rnd.randint(0, n), rnd.randint(0, n)))
            if b - a >= 2:
                c, d = sorted((rnd.randint(0, b - a), rnd.randint(0, b - a)))
                try:
                    part = al[a:b]
                    ptext = dec(enc(part))
                except Exception:
                    part = None
                if part is not None and set(ptext) <= set(CODE):
                    ev("Slice", ptext, [c, d], lambda: enc(part[c:d]))
                    ev("Rc", ptext, [], lambda: enc(part.rc()))
                    ev("Unchanged", ptext, [], lambda: enc(part))
            # feature-map indexing: 1..3 ordered segments in alignment coordinates
            segs = rand_segments(rnd, n, rnd.randint(1, 3))
            if segs:
                fm = FeatureMap(spans=[Span(s, e) for s, e in segs], parent_length=n)
                ev("Joined", text, [segs], lambda: enc(al[fm]))
            # concatenation of two aligned sequences holding different data
            # (a different row: Aligned.__add__ of two objects sharing one data object keeps the
            # data of the first only - an Aligned-level matter outside the map layer)
            oname = rnd.choice(sorted(set(rows) - {name}))
            other = aln.named_seqs[oname]
            ev("Concat", text, [enc(rows[oname])], lambda: enc(al + other))
            j = rnd.randint(-n, n)
            ev("SeqIndex", text, [j], lambda: [int(al.map.get_seq_index(j))])
        # --- dotplot: gaps common to two rows are removed from both maps
        from cogent3.core.alignment import Aligned
        from cogent3.draw.dotplot import _prep_seqs
        from cogent3 import get_moltype

        n1, n2 = rnd.sample(sorted(rows), 2)
        s1 = make_seq(rows[n1], name=n1, moltype="dna")
        s2 = make_seq(rows[n2], name=n2, moltype="dna")
        if set(rows[n1]) != {"-"} and set(rows[n2]) != {"-"}:
            def prep(which):
                ig1, ig2, u1, u2 = _prep_seqs(get_moltype("dna"), s1, s2, True)
                return enc(Aligned(ig1, u1)) if which == 1 else enc(Aligned(ig2, u2))

            ev("Minus", rows[n1], [enc(rows[n2])], lambda: prep(1))
            ev("Minus", rows[n2], [enc(rows[n1])], lambda: prep(2))
    return events


def tlc_validate(events, scratch: Path, tag: str):
    tf = scratch / f"trace-{tag}.json"
    tf.write_text(json.dumps(events))
    cfg = scratch / f"IndelMapTrace_{tag}.cfg"
    cfg.write_text(
        "SPECIFICATION TraceSpec\nCONSTANTS\n  MaxLen = 1\n  MaxBin = 1\n  Scales = {1}\n  SegsLen = 1\n  MaxSegs = 1\n  EmptySegsUpTo = 0\n"
        "INVARIANT Report\n"
    )
    res = run_tlc("IndelMapTrace", os.path.relpath(cfg, VERIF / "specs"), scratch, workers=1, env={"TRACE_FILE": tf}, timeout=1200)
    m = re.search(r'<<\s*"TRACE-VERDICT",\s*(\d+),\s*(\{.*?\})\s*>>', res.out, re.S)
    if not m:
        raise MachineryError("no TRACE-VERDICT from TLC:\n" + res.out[-3000:])
    if int(m.group(1)) != len(events):
        raise MachineryError(f"TLC read {m.group(1)} events, {len(events)} were recorded")
    return res, sorted(int(x) for x in re.findall(r"\d+", m.group(2)))


def dec(codes):
    return "".join("-ACGT"[c] for c in codes) if isinstance(codes, list) and all(isinstance(c, int) for c in codes) else codes


def validate(run, scratch: Path):
    nalign = 40 if run.tier == "quick" else 400
    events = record(run.seed, nalign)
    # binding self-test: a corrupted copy of a good event must be rejected
    victim = next(e for e in events if e["op"] == "Slice" and len(e["to"]) >= 2 and all(isinstance(c, int) for c in e["to"]))
    corrupt = json.loads(json.dumps(victim))
    corrupt["to"][0] = (corrupt["to"][0] + 1) % 5
    res, rejected = tlc_validate(events + [corrupt], scratch, "driver")
    run.add_tlc(res)
    if len(events) + 1 not in rejected:
        raise MachineryError("trace validation accepted a corrupted event (binding self-test failed)")
    rejected = [k for k in rejected if k <= len(events)]
    for k in rejected:
        e = events[k - 1]
        frm = dec(e["from"])
        if e["op"] == "Slice":
            n = len(frm)
            a, b = (v + n if v < 0 else v for v in e["args"])
            cls = "empty-interval" if a >= b else "interval"
        elif e["op"] == "Index":
            i = e["args"][0]
            cls = "i=-1" if i == -1 else ("i<-1" if i < 0 else "i>=0")
        else:
            cls = "-"
        key = f"Trace:{e['op']}:{cls}" + ("" if e["ok"] else ":exception=" + e["exc"].split(":")[0])
        run.fail(key, {"event": e, "from_text": frm, "to_text": dec(e["to"]), "args": e["args"]}, what="recorded Aligned/Alignment execution is not the string operation of IndelMap.tla")
    run.cov["traces_validated_against_impl"] += len(events)
    ops = {}
    for e in events:
        ops[e["op"]] = ops.get(e["op"], 0) + 1
    run.note("trace", {"alignments": nalign, "events": len(events), "by_op": ops, "rejected": len(rejected), "corrupted_event_rejected": True, "tlc_wall_s": round(res.wall, 1)})
    run.sample({"spec": "IndelMapTrace", "event": {**victim, "from_text": dec(victim["from"]), "to_text": dec(victim["to"])}}, limit=10)
