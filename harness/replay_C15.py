"""C15 spec -> code replay workers (no oracle logic: instantiate, drive, project, compare).

Every function here takes records emitted by TLC (NJ.tla, UPGMA.tla, Distance.tla) and
runs the real cogent3 API on the same inputs.  The expected values are the `to` part of
the records; the only computation on the Python side is the numeric leaf TLC cannot do:
the published closed forms (ln, det) applied to the integer count matrix TLC emitted.
"""
from __future__ import annotations

import itertools
import math
import random
import warnings

import numpy

warnings.filterwarnings("ignore")
numpy.seterr(all="ignore")

RTOL = 1e-9
ATOL = 1e-12
NAMES = ["b", "a", "e", "d", "c", "f", "h", "g"]  # name order != tip order on purpose


def close(x, y):
    return math.isfinite(x) and math.isfinite(y) and abs(x - y) <= ATOL + RTOL * max(abs(x), abs(y))


# --------------------------------------------------------------------------- trees
def orders_for(n, rnd, how):
    """Tip orders = which real name a spec tip gets and in which order the names enter the input."""
    ident = tuple(range(n))
    if how == "all":
        return list(itertools.permutations(range(n)))
    out = [ident, tuple(reversed(ident))]
    while len(out) < how:
        p = list(ident)
        rnd.shuffle(p)
        out.append(tuple(p))
    return out


def tree_inputs(rec, perm):
    """spec tip k (1-based) is called NAMES[perm[k-1]]; dict entered in the order of the names"""
    n = rec["from"]["n"]
    D = rec["from"]["D"]
    name = {k + 1: NAMES[perm[k]] for k in range(n)}
    tips_in_order = sorted(range(1, n + 1), key=lambda k: perm[k - 1])
    dists = {}
    for i in tips_in_order:
        for j in tips_in_order:
            if i != j:
                dists[(name[i], name[j])] = float(D[i - 1][j - 1])
    return name, dists


def expected_unrooted(rec, name):
    allt = frozenset(name.values())
    exp = {}
    for clade, (num, den) in rec["to"]["edges"]:
        if num == 0:
            continue
        side = frozenset(name[k] for k in clade)
        exp[frozenset([side, allt - side])] = num / den
    return exp


def expected_rooted(rec, name):
    return {frozenset(name[k] for k in clade): num / den for clade, (num, den) in rec["to"]["edges"]}


def project_unrooted(tree):
    """{split: length} of the edges of positive length; a split seen on two edges sums (bifurcating root)"""
    allt = frozenset(tree.get_tip_names())
    out = {}
    for node in tree.postorder(include_self=False):
        ln = node.length
        if ln is None:
            ln = float("nan")
        if ln == 0:
            continue
        side = frozenset(node.get_tip_names())
        sp = frozenset([side, allt - side])
        out[sp] = out.get(sp, 0.0) + ln
    return out


def project_rooted(tree):
    out = {}
    for node in tree.postorder(include_self=False):
        out[frozenset(node.get_tip_names())] = node.length if node.length is not None else float("nan")
    return out


def compare_tree(real_edges, exp_edges, real_dist, D, name):
    """-> name of the first differing observation or None"""
    n = len(name)
    for i in range(1, n + 1):
        for j in range(1, n + 1):
            if i == j:
                continue
            v = real_dist.get((name[i], name[j]))
            if v is None or not close(v, float(D[i - 1][j - 1])):
                return "path-lengths"
    if set(real_edges) != set(exp_edges):
        return "splits"
    for k, v in exp_edges.items():
        if not close(real_edges[k], v):
            return "branch-lengths"
    return None


def nj_entries(tier):
    from cogent3 import get_app
    from cogent3.evolve.fast_distance import DistanceMatrix
    from cogent3.phylo.nj import gnj, nj

    app = get_app("quick_tree")

    def via_app(d):
        r = app(DistanceMatrix(d))
        if not hasattr(r, "get_tip_names"):
            raise RuntimeError(f"app returned {r!r}")
        return r

    def gnj_best(d):
        return gnj(d, show_progress=False)[0][1]

    return [
        ("nj", lambda d: nj(d, show_progress=False)),
        ("gnj_keep1", lambda d: gnj(d, keep=1, show_progress=False)[0][1]),
        ("DistanceMatrix.quick_tree", lambda d: DistanceMatrix(d).quick_tree()),
        ("app.quick_tree", via_app),
        ("gnj_default_best", gnj_best),
    ]


_ENTRIES = {}


def replay_nj(job):
    """job = (records, seed, norders, tier) -> (ncalls, failures[(key, detail)])"""
    recs, seed, norders, tier = job
    if "nj" not in _ENTRIES:
        _ENTRIES["nj"] = nj_entries(tier)
    rnd = random.Random(seed)
    fails = []
    calls = 0
    for rec in recs:
        n = rec["from"]["n"]
        multif = len(rec["from"]["gen"]) < 2 * n - 3
        for perm in orders_for(n, rnd, norders):
            name, dists = tree_inputs(rec, perm)
            exp = expected_unrooted(rec, name)
            for ename, fn in _ENTRIES["nj"]:
                if ename == "gnj_default_best" and (n > 5 or perm != tuple(range(n)) or (tier == "quick" and rnd.random() < 0.75)):
                    continue  # all topologies are kept only while 5n >= number of topologies; slow: first order only
                calls += 1
                try:
                    tree = fn(dict(dists))
                    obs_edges = project_unrooted(tree)
                    obs_dist = tree.get_distances()
                    tips_ok = sorted(tree.get_tip_names()) == sorted(name.values())
                    what = "tips" if not tips_ok else compare_tree(obs_edges, exp, obs_dist, rec["from"]["D"], name)
                    shown = str(tree)
                except Exception as ex:  # the property promises a tree
                    what, shown = "raised", repr(ex)
                if what:
                    key = f"NJ:{ename}:{'multifurcating' if multif else 'binary'}-generator:{what}"
                    fails.append((key, {"entry": ename, "names": name, "input": [[list(k), v] for k, v in dists.items()],
                                        "generator_edges": rec["from"]["gen"], "spec_result": rec["to"]["edges"],
                                        "observed": shown}))
    return calls, _thin(fails)


def replay_upgma(job):
    recs, seed, norders, tier = job
    from cogent3.cluster.UPGMA import upgma

    rnd = random.Random(seed)
    fails = []
    calls = 0
    for rec in recs:
        n = rec["from"]["n"]
        for perm in orders_for(n, rnd, norders):
            name, dists = tree_inputs(rec, perm)
            exp = expected_rooted(rec, name)
            calls += 1
            try:
                tree = upgma(dict(dists))
                obs = project_rooted(tree)
                obs_dist = tree.get_distances()
                if sorted(tree.get_tip_names()) != sorted(name.values()):
                    what = "tips"
                elif len(tree.children) != 2:
                    what = "root-degree"
                else:
                    what = compare_tree(obs, exp, obs_dist, rec["from"]["D"], name)
                    if what == "splits":
                        what = "clades"
                shown = str(tree)
            except Exception as ex:
                what, shown = "raised", repr(ex)
            if what:
                fails.append((f"UPGMA:upgma:{what}", {"names": name, "input": [[list(k), v] for k, v in dists.items()],
                                                      "generator_edges": rec["from"]["gen"],
                                                      "spec_result": rec["to"]["edges"], "observed": shown}))
    return calls, _thin(fails)


# ------------------------------------------------------- histories of calls on one matrix
def _make_object(form, dists):
    from cogent3.evolve.fast_distance import DistanceMatrix
    from cogent3.util.dict_array import DictArray

    if form == "dict":
        return dict(dists)
    if form == "DictArray":
        return DictArray(dict(dists))
    return DistanceMatrix(dict(dists))


def _matrix_view(obj):
    """what a matrix object (or a dict of pairs) shows: {(a, b): d}, diagonal included when it has one"""
    if isinstance(obj, dict):
        return {k: float(v) for k, v in obj.items()}
    names = [str(x) for x in obj.template.names[0]]
    arr = numpy.asarray(obj.array, dtype=float)
    return {(a, b): float(arr[i, j]) for i, a in enumerate(names) for j, b in enumerate(names)}


def _same_matrix(view, D, name):
    """view shows exactly the distances D over the names (zero diagonal where it has one)"""
    n = len(name)
    want = {(name[i], name[j]): float(D[i - 1][j - 1]) for i in range(1, n + 1) for j in range(1, n + 1)}
    for k, v in view.items():
        if k not in want or v != want[k]:
            return False
    return all(k in view for k in want if k[0] != k[1])


def _builder(b, obj):
    from cogent3.cluster.UPGMA import upgma
    from cogent3.phylo.nj import gnj, nj

    if b == "upgma":
        return upgma(obj)
    if b == "nj":
        return nj(obj, show_progress=False)
    if b == "gnj":
        return gnj(obj, keep=1, show_progress=False)[0][1]
    if b == "quick_tree":
        return obj.quick_tree()
    if b == "app_quick_tree":
        app = _ENTRIES.get("qt_app")
        if app is None:
            from cogent3 import get_app

            app = _ENTRIES["qt_app"] = get_app("quick_tree")
        r = app(obj)
        if not hasattr(r, "get_tip_names"):
            raise RuntimeError(f"app returned {r!r}")
        return r
    if b == "take_dists":
        return obj.take_dists(list(reversed(list(obj.names))))
    if b == "drop_invalid":
        return obj.drop_invalid()
    if b == "to_dict":
        return obj.to_dict()
    raise ValueError(b)


def replay_calls(job):
    """DistanceCalls.tla transitions: build ONE object, make the calls of `hist` on it, then the call
    under test; the object must still show `held` and the result must be the spec's."""
    recs, seed, tier = job
    fails = []
    calls = unreachable = 0
    for ri, rec in enumerate(recs):
        f, to = rec["from"], rec["to"]
        n, form, hist, b = f["n"], f["form"], f["hist"], rec["act"]
        perm = tuple((k + ri) % n for k in range(n))
        name, dists = tree_inputs({"from": {"n": n, "D": f["held"]}}, perm)
        obj = _make_object(form, dists)
        try:
            for h in hist:
                _builder(h, obj)
        except Exception:
            unreachable += 1  # reported by the transition that made that call
            continue
        calls += 1
        key = f"calls:{b}:{form}:after={'+'.join(hist) or 'nothing'}"
        detail = {"form": form, "history": hist, "call": b, "names": name,
                  "input": [[list(k), v] for k, v in dists.items()], "spec_result": to["ret"]}
        try:
            res = _builder(b, obj)
        except Exception as ex:
            fails.append((key + ":raised", {**detail, "observed": repr(ex)}))
            res = None
        view = _matrix_view(obj)
        if not _same_matrix(view, to["held"], name):
            fails.append((key + ":input-modified", {**detail, "matrix_after": [[list(k), v] for k, v in view.items()]}))
        if res is None:
            continue
        kind = to["ret"]["kind"]
        try:
            if kind == "matrix":
                what = None if _same_matrix(_matrix_view(res), to["ret"]["D"], name) else "matrix-values"
                shown = repr(_matrix_view(res))
            else:
                pseudo = {"to": {"edges": to["ret"]["edges"]}}
                if kind == "rooted":
                    exp, obs = expected_rooted(pseudo, name), project_rooted(res)
                else:
                    exp, obs = expected_unrooted(pseudo, name), project_unrooted(res)
                if sorted(res.get_tip_names()) != sorted(name.values()):
                    what = "tips"
                else:
                    what = compare_tree(obs, exp, res.get_distances(), to["held"], name)
                shown = str(res)
        except Exception as ex:
            what, shown = "result-unreadable", repr(ex)
        if what:
            fails.append((f"{key}:{what}", {**detail, "observed": shown}))
    return calls, unreachable, _thin(fails)


# ----------------------------------------------------------------------- distances
# cnt is the 4x4 count matrix in the order A, C, G, T (rows: first sequence)
A, C, G, T = 0, 1, 2, 3
OPEN = ("open",)
INVALID = ("invalid",)


def _val(x):
    return ("value", float(x)) if math.isfinite(x) else INVALID


EST_OF = {"pdist": "pdist", "hamming": "pdist", "jc69": "jc69", "tn93": "tn93",
          "paralinear": "det", "logdet": "det", "logdet_eqfreq": "det"}


def formula(calc, p):
    """The published estimator applied to TLC's exact statistics (the numeric leaf).

    Whether the pair lies in the estimator's domain is NOT decided here: p["cls"][estimator] is the
    exact classification made by Distance.tla (defined | boundary | outside | undefined | degenerate);
    boundary, outside and undefined pairs are invalid, degenerate ones are left open.
    """
    cnt, total, diff = p["cnt"], p["total"], p["diff"]
    cls = p["cls"][EST_OF[calc]]
    if calc == "hamming":
        return ("value", float(diff)) if total else OPEN  # no comparable column: statement silent
    if cls == "degenerate":
        return OPEN
    if cls != "defined":
        return INVALID
    n = float(total)
    pd = diff / n
    if calc == "pdist":
        return ("value", pd)
    if calc == "jc69":  # Jukes & Cantor 1969: d = -3/4 ln(1 - 4p/3)
        return _val(-0.75 * math.log(1 - 4 * pd / 3))
    M = numpy.array(cnt, dtype=float)
    fx = M.sum(axis=1) / n
    fy = M.sum(axis=0) / n
    if calc == "tn93":  # Tamura & Nei 1993, eq. 7
        g = (fx + fy) / 2
        gR, gY = g[A] + g[G], g[C] + g[T]
        P1 = (M[A, G] + M[G, A]) / n
        P2 = (M[C, T] + M[T, C]) / n
        Q = pd - P1 - P2
        k1 = 2 * g[A] * g[G] / gR
        k2 = 2 * g[C] * g[T] / gY
        k3 = 2 * (gR * gY - g[A] * g[G] * gY / gR - g[C] * g[T] * gR / gY)
        a1 = 1 - P1 / k1 - Q / (2 * gR)
        a2 = 1 - P2 / k2 - Q / (2 * gY)
        a3 = 1 - Q / (2 * gR * gY)
        return _val(-k1 * math.log(a1) - k2 * math.log(a2) - k3 * math.log(a3))
    # LogDet family: J = joint frequency matrix, det J > 0 by the classification
    J = M / n
    det = float(numpy.linalg.det(J))
    r = 4
    if calc == "paralinear":  # Lake 1994
        return _val(-math.log(det / math.sqrt(fx.prod() * fy.prod())) / r)
    if calc == "logdet":  # Tamura & Kumar 2002 (unequal frequencies)
        g = (fx + fy) / 2
        return _val(-((1 - (g**2).sum()) / (r - 1)) * math.log(det / math.sqrt(fx.prod() * fy.prod())))
    if calc == "logdet_eqfreq":  # Lockhart et al. 1994, equal base frequencies
        if diff == 0:
            return OPEN  # not 0 for identical sequences of unequal composition; the implementation returns 0
        return _val(-math.log(det) / r - math.log(r))
    raise ValueError(calc)


CALCS = ["pdist", "hamming", "jc69", "tn93", "paralinear", "logdet", "logdet_eqfreq"]


def agrees(exp, v):
    if exp == OPEN:
        return True
    if exp == INVALID:
        return isinstance(v, float) and math.isnan(v)
    return isinstance(v, float) and close(v, exp[1])


def _matrix_values(dm, names):
    """{(i, j): float} for all ordered pairs incl. diagonal from a DistanceMatrix"""
    out = {}
    got = list(dm.names)
    arr = numpy.asarray(dm.array, dtype=float)
    idx = {nm: k for k, nm in enumerate(got)}
    for i, a in enumerate(names):
        for j, b in enumerate(names):
            if a in idx and b in idx:
                out[(i + 1, j + 1)] = float(arr[idx[a], idx[b]])
    return out


def _run_entry(entry, calc, aln):
    """-> DistanceMatrix | 'ArithmeticError'"""
    from cogent3.evolve.fast_distance import LogDetPair, get_distance_calculator

    real_calc = "logdet" if calc == "logdet_eqfreq" else calc
    if entry == "calculator":
        if calc == "logdet_eqfreq":
            c = LogDetPair(moltype=aln.moltype, use_tk_adjustment=False, alignment=aln)
        else:
            c = get_distance_calculator(real_calc, moltype=aln.moltype, alignment=aln)
        c.run(show_progress=False)
        return c.get_pairwise_distances()
    if entry == "calculator.run(aln)":
        if calc == "logdet_eqfreq":
            c = LogDetPair(moltype=aln.moltype, use_tk_adjustment=False)
        else:
            c = get_distance_calculator(real_calc, moltype=aln.moltype)
        c.run(alignment=aln, show_progress=False)
        return c.dists
    if entry == "aln.distance_matrix":
        try:
            return aln.distance_matrix(calc=real_calc)
        except ArithmeticError:
            return "ArithmeticError"
    if entry == "aln.distance_matrix(drop_invalid)":
        r = aln.distance_matrix(calc=real_calc, drop_invalid=True)
        return "None" if r is None else r
    if entry == "app.fast_slow_dist":
        app = _ENTRIES.get(("fsd", real_calc))
        if app is None:
            app = _ENTRIES[("fsd", real_calc)] = _make_app(real_calc)
        r = app(aln)
        if not hasattr(r, "array"):
            raise RuntimeError(f"app returned {r!r}")
        return r
    raise ValueError(entry)


def _make_app(calc):
    from cogent3 import get_app

    return get_app("fast_slow_dist", fast_calc=calc, moltype="dna")


ENTRY_CALCS = {
    "calculator": CALCS,
    "calculator.run(aln)": CALCS,
    "aln.distance_matrix": [c for c in CALCS if c != "logdet_eqfreq"],
    "aln.distance_matrix(drop_invalid)": [c for c in CALCS if c != "logdet_eqfreq"],
    "app.fast_slow_dist": [c for c in CALCS if c != "logdet_eqfreq"],
}


SMALL_CALCS = ["pdist", "hamming", "jc69", "tn93"]
ENTRIES = list(ENTRY_CALCS)


def replay_distance(job):
    """job = (records, seed, tier, plan).  Returns (ncalls, npairs_compared, nopen, failures).

    plan "full": every estimator through every entry point, as emitted and with shuffled columns.
    plan "small" (exhaustive tiny alignments, where every column order is itself enumerated): the
    estimators defined on a handful of columns, entry point and alignment class rotating by record.
    """
    from cogent3 import make_aligned_seqs

    recs, seed, tier, plan = job
    rnd = random.Random(seed)
    fails = []
    calls = compared = nopen = 0
    for ri, rec in enumerate(recs):
        rows = rec["to"]["seqs"]
        ns = len(rows)
        names = [f"s{k + 1}" for k in range(ns)]
        ncol = len(rows[0])
        pairs = {(p["i"], p["j"]): p for p in rec["to"]["pairs"]}
        colperm = list(range(ncol))
        rnd.shuffle(colperm)
        variants = [("as-emitted", list(range(ncol)))]
        if plan == "full" and colperm != variants[0][1]:
            variants.append(("columns-shuffled", colperm))
        array_align = (ri // len(ENTRIES)) % 4 != 3  # the Alignment class builds an annotation db per sequence: 1 in 4
        for vname, cp in variants:
            data = {names[k]: "".join(rows[k][c] for c in cp) for k in range(ns)}
            aln = make_aligned_seqs(data, moltype="dna", array_align=array_align)
            if plan == "full":
                todo = [(e, c) for e, cs in ENTRY_CALCS.items() for c in cs
                        if vname == "as-emitted" or e == "calculator"]
            else:
                todo = [(ENTRIES[ri % len(ENTRIES)], c) for c in SMALL_CALCS]
            for entry, calc in todo:
                calls += 1
                expd = {k: formula(calc, p) for k, p in pairs.items()}
                for k, p in pairs.items():
                    if p["total"] == 0 and p["same"]:
                        expd[k] = OPEN  # equal sequences without a valid column: 0 by identity or undefined
                detail = {"entry": entry, "calc": calc, "seqs": data, "array_align": array_align, "columns": vname}
                try:
                    dm = _run_entry(entry, calc, aln)
                except Exception as ex:
                    fails.append((f"dist:{calc}:{entry}:raised", {**detail, "observed": repr(ex)}))
                    continue
                anyopen = any(e == OPEN for e in expd.values())
                invalid_pairs = [k for k, e in expd.items() if e == INVALID]
                classes = {f"{k[0]}-{k[1]}": pairs[k]["cls"][EST_OF[calc]] for k in pairs}
                if entry == "aln.distance_matrix":
                    # invalid_raises: ArithmeticError exactly when some distance cannot be computed
                    if isinstance(dm, str):
                        nopen += 1
                        if not invalid_pairs and not anyopen:
                            fails.append((f"dist:{calc}:{entry}:raised-ArithmeticError-for-computable",
                                          {**detail, "classes": classes}))
                        continue
                    if invalid_pairs:
                        fails.append((f"dist:{calc}:{entry}:{_boundary_class(pairs, invalid_pairs, calc)}:did-not-raise",
                                      {**detail, "classes": classes, "observed": repr(_matrix_values(dm, names))}))
                        continue
                if entry == "aln.distance_matrix(drop_invalid)":
                    # every sequence of an invalid pair is dropped; fewer than two left -> None
                    if anyopen:
                        nopen += 1
                        if not isinstance(dm, str):
                            _no_inf(fails, calc, entry, detail, _matrix_values(dm, names))
                        continue
                    gone = set(rec["to"]["dropped"][EST_OF[calc]])
                    keep = [k for k in range(1, ns + 1) if k not in gone]
                    got = [] if isinstance(dm, str) else sorted(names.index(str(x)) + 1 for x in dm.names)
                    if len(keep) <= 1:
                        keep = []
                    compared += 1
                    if got != keep:
                        fails.append((f"dist:{calc}:{entry}:{_boundary_class(pairs, invalid_pairs, calc)}:wrong-sequences-dropped",
                                      {**detail, "classes": classes, "expected_kept": keep, "observed_kept": got}))
                        continue
                    if isinstance(dm, str):
                        continue
                    vals = _matrix_values(dm, names)
                    _no_inf(fails, calc, entry, detail, vals)
                    for (i, j), e in expd.items():
                        if i in keep and j in keep and not agrees(e, vals.get((i, j), float("nan"))):
                            fails.append((f"dist:{calc}:{entry}:value", {**detail, "pair": [i, j], "expected": repr(e),
                                                                        "observed": vals.get((i, j))}))
                    continue
                if isinstance(dm, str):
                    fails.append((f"dist:{calc}:{entry}:raised", {**detail, "observed": dm}))
                    continue
                vals = _matrix_values(dm, names)
                _no_inf(fails, calc, entry, detail, vals)
                for i in range(1, ns + 1):
                    for j in range(1, ns + 1):
                        v = vals.get((i, j))
                        if v is None:
                            fails.append((f"dist:{calc}:{entry}:missing-pair", {**detail, "pair": [i, j]}))
                            continue
                        if i == j:
                            if v != 0:
                                fails.append((f"dist:{calc}:{entry}:nonzero-diagonal", {**detail, "observed": v}))
                            continue
                        w = vals.get((j, i))
                        if not (v == w or (math.isnan(v) and math.isnan(w))):
                            fails.append((f"dist:{calc}:{entry}:asymmetric", {**detail, "pair": [i, j], "observed": [v, w]}))
                        if i > j:
                            continue
                        p = pairs[(i, j)]
                        e = expd[(i, j)]
                        if e == OPEN:
                            nopen += 1
                            continue
                        compared += 1
                        if agrees(e, v):
                            continue
                        d2 = {**detail, "pair": [i, j], "count_matrix_ACGT": p["cnt"], "expected": repr(e), "observed": v}
                        d2["shortcut_source"] = p["src"]  # where run/_expand take this pair's value from (Distance.tla)
                        d2["class"] = p["cls"][EST_OF[calc]]
                        cls = (f"{p['cls'][EST_OF[calc]]}-pair-got-value" if e == INVALID else
                               "expected-value-got-invalid" if math.isnan(v) else "value")
                        cols = "canonical-columns" if rec["to"]["canonical"] else "noncanonical-columns"
                        fails.append((f"dist:{calc}:{entry}:{cols}:{cls}" +
                                      ("" if vname == "as-emitted" else ":column-order"), d2))
    return calls, compared, nopen, _thin(fails)


SCALED_CALCS = ["pdist", "jc69", "tn93", "paralinear", "logdet"]


def replay_scaled(job):
    """ScaleInvariant (Distance.tla): the emitted two-sequence alignment repeated until it has `target`
    columns has the count matrix k * cnt, hence the class and (if defined) the value of the small one.
    The real calculators get the big alignment through the public entry points."""
    from cogent3 import make_aligned_seqs

    rec, target = job
    rows = rec["to"]["seqs"]
    p = rec["to"]["pairs"][0]
    k = -(-target // len(rows[0]))
    data = {f"s{i + 1}": "".join(r) * k for i, r in enumerate(rows)}
    aln = make_aligned_seqs(data, moltype="dna", array_align=True)
    fails = []
    calls = 0
    for calc in SCALED_CALCS:
        e = formula(calc, p)
        cls = p["cls"][EST_OF[calc]]
        detail = {"calc": calc, "small_seqs": ["".join(r) for r in rows], "repeated": k, "columns": len(aln),
                  "count_matrix_ACGT_small": p["cnt"], "class": cls, "expected": repr(e)}
        for entry in ("calculator", "aln.distance_matrix"):
            calls += 1
            try:
                dm = _run_entry(entry, calc, aln)
            except Exception as ex:
                fails.append((f"dist:{calc}:large-counts:{entry}:raised", {**detail, "observed": repr(ex)}))
                continue
            if isinstance(dm, str):
                if e not in (INVALID, OPEN):
                    fails.append((f"dist:{calc}:large-counts:{entry}:{cls}-pair-raised-ArithmeticError", detail))
                continue
            v = _matrix_values(dm, ["s1", "s2"]).get((1, 2), float("nan"))
            if e == INVALID and entry == "aln.distance_matrix":
                fails.append((f"dist:{calc}:large-counts:{entry}:{cls}-pair-did-not-raise", {**detail, "observed": v}))
            elif not agrees(e, v):
                what = "got-invalid" if math.isnan(v) else "got-value" if e == INVALID else "value"
                fails.append((f"dist:{calc}:large-counts:{entry}:{cls}-pair-{what}", {**detail, "observed": v}))
    return calls, _thin(fails)


def _no_inf(fails, calc, entry, detail, vals):
    """an invalid distance is nan; no returned matrix may hold +-inf"""
    bad = [list(k) for k, v in vals.items() if math.isinf(v)]
    if bad:
        fails.append((f"dist:{calc}:{entry}:infinite-entry", {**detail, "pairs": bad}))


def _boundary_class(pairs, invalid_pairs, calc):
    cl = sorted({pairs[k]["cls"][EST_OF[calc]] for k in invalid_pairs})
    return "+".join(cl) or "none"


def _thin(fails, per_key=3):
    """keep a few details per structural key, count the rest (keeps the result small to pickle)"""
    seen = {}
    out = []
    for key, detail in fails:
        seen[key] = seen.get(key, 0) + 1
        out.append((key, detail if seen[key] <= per_key else None))
    return out
