"""C03 code -> spec: record real executions, validate them with Trace_Alignment.tla.

A seeded random driver builds random initial alignments (1-3 rows x 0-6 columns over
DNA / RNA / protein symbols incl. every degenerate symbol, gaps and the missing-data symbol '?'), picks a class
(Alignment / ArrayAlignment), and applies random operations with ANY valid arguments
(not only the small argument families TLC enumerates for the spec -> code direction),
continuing on whatever object the real code returned, for up to `depth` operations.
After each call the result is projected (names, to_dict, len, get_gapped_seq) and logged.
TLC (Trace_Alignment) accepts an event iff the Alignment.tla action with the logged
arguments produces exactly the logged rows from the state the trace has reached.

For a rejected event the spec's expected successor (emitted by TLC) names what differs;
the finding key is built as in walk_C03: history independent failures (a brand-new
object with the same rows fails the same way) -> class:op:what; otherwise all
sub-histories are recorded and validated in a second TLC batch and the smallest one
that still fails names the finding.
"""
from __future__ import annotations

import itertools
import json
import multiprocessing as mp
import os
import random
import re

import binding_C03 as B
from tlc import MachineryError, read_emitted, run_tlc
from walk_C03 import diff_kind, history_key, opclass

SYMS = {
    "dna": ("ACGT", "RYKMSWBDHVN"),
    "rna": ("ACGU", "RYKMSWBDHVN"),
    "protein": ("ACDEFGHIKLMNPQRSTVWY", "BZX"),
}
CFG = "MC_Alignment_trace.cfg"


def random_initial(rng):
    mol = rng.choice(["dna", "dna", "rna", "protein"])
    nr = rng.choice([1, 2, 2, 3, 3])
    nc = rng.choice([0, 1, 2, 3, 4, 4, 5, 5, 6, 6])
    pg, pd = rng.choice([(0.2, 0.1), (0.4, 0.15), (0.6, 0.1), (0.0, 0.3)])
    pm = rng.choice([0.0, 0.15, 0.3])  # the missing-data symbol '?' (in moltype.gaps, not the gap character)
    canon, degen = SYMS[mol]
    rows = []
    for r in range(nr):
        chars = []
        for _ in range(nc):
            x = rng.random()
            chars.append("-" if x < pg else rng.choice(degen) if x < pg + pd else "?" if x < pg + pd + pm else rng.choice(canon))
        rows.append([B.NAMES[r], chars])
    return {"kind": "aln", "mol": mol, "rows": rows}


def choose(rng, st):
    """a random operation with random valid arguments for an object showing state st"""
    n = len(st["rows"][0][1]) if st["rows"] else 0
    names = [r[0] for r in st["rows"]]
    nucleic = st["mol"] in ("dna", "rna")
    if st["kind"] == "coll":
        ops = ["TakeSeqs", "TakeSeqs", "Degap", "DeepCopy", "CallerReuses"] + (["Rc", "ToRna", "ToDna"] if nucleic else [])
    else:
        ops = ["Slice", "Slice", "Slice", "Index", "Stride", "TakePositions", "TakeSeqs", "OmitGapPos", "NoDegenerates",
               "Filtered", "DegapRel", "SampleRepl", "SamplePerm", "Concat", "ConcatSlices", "ConcatSlices", "ToType", "Degap", "DeepCopy", "CallerReuses", "CallerReuses"]
        ops += ["Rc", "Rc", "ToRna", "ToDna"] if nucleic else []
    for _ in range(50):
        op = rng.choice(ops)
        if op == "Slice":
            a, b = rng.randint(0, n), rng.randint(0, n)
            forms = ["plain"]
            if a <= b and (a == 0 or b == n):
                forms.append("open")
            if a <= b and a < n and b < n:
                forms.append("neg")
            if a <= b and b == n:
                forms.append("over")
            return op, [a, b, rng.choice(forms)]
        if op == "Index" and n:
            return op, [rng.randrange(n), rng.choice(["plain", "neg"])]
        if op == "Stride":
            return (op, [0, 0]) if rng.random() < 0.3 else (op, [rng.randint(0, n), rng.choice([2, 3])])
        if op == "TakePositions":
            neg = rng.random() < 0.4
            k = rng.randint(0, n + 1 if n else 0)
            cols = [rng.randrange(n) for _ in range(k)] if n else []
            if n >= 3 and rng.random() < 0.4:
                # an index window whose ends are in place and whose interior is permuted / repeated
                lo = rng.randint(0, n - 3)
                hi = rng.randint(lo + 2, n - 1)
                cols = [lo] + [rng.randint(lo, hi) for _ in range(hi - lo - 1)] + [hi]
            return op, [cols, neg, rng.choice(["list", "tuple", "array"])]
        if op == "TakeSeqs":
            if rng.random() < 0.35:
                return op, [[x for x in names if rng.random() < 0.4], True]
            k = rng.randint(1, len(names))
            return op, [rng.sample(names, k), False]
        if op == "OmitGapPos":
            den = rng.choice([1, 2, 3, 4, 6])
            thr = rng.choice([(999999, 1000000, "exact"), (rng.randint(0, den), den, "exact"), (rng.randint(1, den), den, rng.choice(["below", "below", "above"]))])
            return op, [thr[0], thr[1], thr[2], rng.choice([1, 1, 2, 3])]
        if op == "NoDegenerates":
            return op, [rng.choice([1, 1, 2, 3]), rng.random() < 0.5]
        if op == "Filtered":
            return op, [rng.choice(["nogap", "row1nogap", "true"]), rng.choice([1, 2, 3])]
        if op == "DegapRel":
            return op, [rng.choice(names)]
        if op in ("SampleRepl", "SamplePerm"):
            ml = rng.choice([1, 1, 2, 3])
            p = n // ml
            if not p:
                continue
            if op == "SampleRepl":
                return op, [[rng.randrange(p) for _ in range(rng.randint(1, min(p + 1, 8)))], ml]
            perm = list(range(p))
            rng.shuffle(perm)
            return op, [perm, rng.randint(1, p), ml]
        if op == "Concat" and n <= 12:
            ws = ["self", "fresh", "reorder"] + (["rc"] if nucleic else []) + (["first", "last"] if n else [])
            return op, [rng.choice(ws)]
        if op == "ConcatSlices" and n:
            # two slices of the same object: any pair, with extra weight on pairs meeting at a cut (either order)
            a, b = sorted((rng.randint(0, n), rng.randint(0, n)))
            x = rng.random()
            if x < 0.3:
                c, d = sorted((rng.randint(0, n), a))      # right piece ends where the left one starts (swapped)
            elif x < 0.45:
                c, d = sorted((b, rng.randint(0, n)))      # in display order
            elif x < 0.6:
                c, d = sorted((rng.randint(0, n), min(n, a + 1)))
            else:
                c, d = sorted((rng.randint(0, n), rng.randint(0, n)))
            if (b - a) + (d - c) <= 24:
                return op, [a, b, c, d]
            continue
        if op == "ToType":
            return op, [rng.random() < 0.5]
        if op == "DeepCopy":
            return op, [rng.random() < 0.5]
        if op == "CallerReuses":
            return op, [rng.choice(["args", "args", "returned"])]
        if op in ("Rc", "ToRna", "ToDna", "Degap"):
            return op, []
    return "DeepCopy", [True]


def run_ops(initial, array_align, ops):
    """Execute ops on a new real object -> list of events (stops after a void / raised / anomalous result)."""
    obj = B.build(initial, array_align)
    proj, an = B.project(obj)
    events = [{"op": "Init", "args": [], "post": _post(proj, an, None), "anom": an, "cls": type(obj).__name__}]
    st = proj
    for op, args in ops:
        n = len(st["rows"][0][1]) if st["rows"] else 0
        cls = type(obj).__name__
        try:
            fresh_other = B.build(st, B_is_array(obj)) if op == "Concat" and args[0] == "fresh" else None
            res = B.apply(obj, op, args, n, fresh_other)
            proj, an = B.project(res)
            exc = None
        except B.Unsupported:
            return events, "unsupported"
        except Exception as ex:
            res, proj, an, exc = None, None, [], type(ex).__name__
        events.append({"op": op, "args": args, "post": _post(proj, an, exc), "anom": an, "cls": cls})
        if exc or an or proj["kind"] not in ("aln", "coll"):
            break
        obj, st = res, proj
    return events, "done"


def B_is_array(obj):
    from cogent3.core.alignment import ArrayAlignment

    return isinstance(obj, ArrayAlignment)


def _post(proj, anomalies, exc):
    if exc:
        return {"kind": f"raised:{exc}", "mol": "None", "rows": []}
    return {"kind": proj["kind"], "mol": proj["mol"] or "None", "rows": proj["rows"]}


def record_one(args):
    seed, i, depth = args
    rng = random.Random(seed * 1000003 + i)
    initial = random_initial(rng)
    array_align = rng.random() < 0.4
    obj = B.build(initial, array_align)
    proj, an = B.project(obj)
    events = [{"op": "Init", "args": [], "post": _post(proj, an, None), "anom": an, "cls": type(obj).__name__}]
    st = proj
    steps = 0
    unsupported = 0
    while steps < depth and not an and st["kind"] in ("aln", "coll"):
        op, a = choose(rng, st)
        n = len(st["rows"][0][1]) if st["rows"] else 0
        cls = type(obj).__name__
        try:
            fresh_other = B.build(st, B_is_array(obj)) if op == "Concat" and a[0] == "fresh" else None
            res = B.apply(obj, op, a, n, fresh_other)
            proj, an = B.project(res)
            exc = None
        except B.Unsupported:
            unsupported += 1
            if unsupported > 20:
                break
            continue
        except Exception as ex:
            res, proj, an, exc = None, None, [], type(ex).__name__
        events.append({"op": op, "args": a, "post": _post(proj, an, exc), "anom": an, "cls": cls})
        steps += 1
        if exc or an or proj["kind"] not in ("aln", "coll"):
            break
        obj, st = res, proj
    return {"initial": initial, "array": array_align, "events": events, "unsupported": unsupported}


def record(seed, ntraces, depth, nproc):
    jobs = [(seed, i, depth) for i in range(ntraces)]
    ctx = mp.get_context("fork")
    with ctx.Pool(nproc) as pool:
        return pool.map(record_one, jobs, chunksize=8)


def _replay_job(job):
    initial, array_align, ops = job
    try:
        ev, status = run_ops(initial, array_align, ops)
    except Exception:
        return None
    return ev if status == "done" else None


_VERDICT = re.compile(r'<<\s*"TRACE-VERDICT"\s*,\s*(\d+)\s*,\s*(\{.*?\})\s*>>', re.S)


def tlc_validate(event_lists, scratch, tag):
    """-> (set of rejected (tid,l) 1-based, {(tid,l): [expected states]}, TlcResult)"""
    tf = scratch / f"traces_{tag}.json"
    ef = scratch / f"diag_{tag}.ndjson"
    with open(tf, "w") as fh:
        json.dump([[{"op": e["op"], "args": e["args"], "post": e["post"], "anom": e["anom"]} for e in evs] for evs in event_lists], fh)
    res = run_tlc("Trace_Alignment", CFG, scratch, workers=1, env={"TRACE_FILE": tf, "EMIT_FILE": ef}, timeout=1500)
    m = None
    for m in _VERDICT.finditer(res.out):
        pass
    if m is None or int(m.group(1)) != len(event_lists):
        raise MachineryError("Trace_Alignment printed no verdict:\n" + res.out[-3000:])
    bad = {(int(a), int(b)) for a, b in re.findall(r"<<\s*(\d+)\s*,\s*(\d+)\s*>>", m.group(2))}
    exp = {}
    for r in read_emitted(ef):
        exp.setdefault((r["tid"], r["l"]), []).append(r["expected"])
    os.unlink(tf)
    if ef.exists():
        os.unlink(ef)
    return bad, exp, res


def event_kind(ev, expected):
    k = ev["post"]["kind"]
    if k.startswith("raised:"):
        return "exc=" + k[7:]
    proj = {"kind": k, "mol": None if ev["post"]["mol"] == "None" else ev["post"]["mol"], "rows": ev["post"]["rows"]}
    exp = [{"kind": e["kind"], "mol": e["mol"], "rows": e["rows"]} for e in expected]
    return diff_kind(proj, ev["anom"], exp) or "?"


def validate(run, scratch, ntraces, depth, nproc=None):
    nproc = nproc or min(16, os.cpu_count() or 1)
    recs = record(run.seed, ntraces, depth, nproc)
    lists = [r["events"] for r in recs]
    # binding self-test: a corrupted copy of a good trace must be rejected at the corrupted event
    probe = None
    for evs in lists:
        if len(evs) >= 3 and evs[2]["post"]["kind"] == "aln" and evs[2]["post"]["rows"] and evs[2]["post"]["rows"][0][1]:
            probe = json.loads(json.dumps(evs[:3]))
            c = probe[2]["post"]["rows"][0][1]
            c[0] = "-" if c[0] != "-" else "A"
            break
    if probe:
        lists = lists + [probe]
    bad, exp, res = tlc_validate(lists, scratch, "main")
    run.add_tlc(res)
    if probe:
        if (len(lists), 3) not in bad:
            raise MachineryError("Trace_Alignment accepted a corrupted trace (binding self-test)")
        bad.discard((len(lists), 3))
        lists = lists[:-1]
    nevents = sum(len(e) for e in lists)
    accepted_traces = len(lists) - len({t for t, _ in bad})
    # ---- name the rejected events
    pending = []  # history dependent: need minimisation
    findings = []
    for tid, l in sorted(bad):
        evs = lists[tid - 1]
        ev = evs[l - 1]
        rec = recs[tid - 1]
        if (tid, l) not in exp:
            raise MachineryError(f"trace {tid} event {l} ({ev['op']} {ev['args']}) is not a step of the spec at all: driver produced invalid arguments")
        kind = event_kind(ev, exp[(tid, l)])
        pre = evs[l - 2]["post"]
        pre_state = {"kind": pre["kind"], "mol": pre["mol"], "rows": pre["rows"]}
        n = len(pre["rows"][0][1]) if pre["rows"] else 0
        oc = opclass(ev["op"], ev["args"], n)
        detail = {
            "initial": rec["initial"], "start_class": "ArrayAlignment" if rec["array"] else "Alignment",
            "history": [[e["op"], e["args"]] for e in evs[1:l]], "receiver_class": ev["cls"],
            "receiver_rows": pre_state, "observed": ev["post"], "spec_allows": exp[(tid, l)], "differs": kind,
        }
        # history independent?  a new object with the receiver's rows, same call
        fresh_events, status = run_ops(pre_state, ev["cls"] == "ArrayAlignment", [(ev["op"], ev["args"])])
        if status == "done" and len(fresh_events) == 2 and event_kind(fresh_events[1], exp[(tid, l)]) == kind:
            fcls = fresh_events[1]["cls"]
            findings.append((f"{fcls}:{oc}:{kind}", detail))
        else:
            pending.append((tid, l, kind, detail))
    # ---- minimise history dependent failures with a second TLC batch over all sub-histories
    if pending:
        cand_jobs, owner = [], []
        seen = {}
        for pi, (tid, l, kind, detail) in enumerate(pending):
            evs = lists[tid - 1]
            ops = [(e["op"], e["args"]) for e in evs[1:l]]
            sig = json.dumps([recs[tid - 1]["initial"], recs[tid - 1]["array"], ops])
            if sig in seen:
                owner.append(("dup", seen[sig]))
                continue
            seen[sig] = pi
            prefix, last = ops[:-1], ops[-1]
            mine = []
            for size in range(0, len(prefix)):
                for keep in itertools.combinations(range(len(prefix)), size):
                    mine.append(len(cand_jobs))
                    cand_jobs.append((recs[tid - 1]["initial"], recs[tid - 1]["array"], [prefix[i] for i in keep] + [last]))
            owner.append(("own", mine))
        ctx = mp.get_context("fork")
        with ctx.Pool(nproc) as pool:
            cand_events = pool.map(_replay_job, cand_jobs, chunksize=8)
        idx = [i for i, e in enumerate(cand_events) if e is not None and len(e) == len(cand_jobs[i][2]) + 1]
        bad2, exp2, res2 = tlc_validate([cand_events[i] for i in idx], scratch, "min") if idx else (set(), {}, None)
        if res2 is not None:
            run.add_tlc(res2)
        pos = {ci: k + 1 for k, ci in enumerate(idx)}
        keys = {}
        for pi, (tid, l, kind, detail) in enumerate(pending):
            how, val = owner[pi]
            if how == "dup":
                continue
            best = None
            for ci in val:  # ordered by size
                t2 = pos.get(ci)
                if t2 is None:
                    continue
                evs2 = cand_events[ci]
                if (t2, len(evs2)) in bad2 and (t2, len(evs2)) in exp2 and event_kind(evs2[-1], exp2[(t2, len(evs2))]) == kind:
                    best = evs2
                    break
            evs_full = lists[tid - 1][:l]
            chosen = best or evs_full
            classes = []
            for j in range(1, len(chosen)):
                pre = chosen[j - 1]["post"]
                n = len(pre["rows"][0][1]) if pre["rows"] else 0
                classes.append(opclass(chosen[j]["op"], chosen[j]["args"], n))
            keys[pi] = (history_key(chosen[-1]["cls"], classes, kind), [[e["op"], e["args"]] for e in chosen[1:]])
        for pi, (tid, l, kind, detail) in enumerate(pending):
            how, val = owner[pi]
            key, mh = keys[val] if how == "dup" else keys[pi]
            detail["minimal_history"] = mh
            findings.append((key, detail))
    for key, detail in findings:
        run.fail(key, detail, what=detail["differs"])
    ops_count = {}
    for evs in lists:
        for e in evs[1:]:
            ops_count[e["op"]] = ops_count.get(e["op"], 0) + 1
    for evs in lists[:2]:
        run.sample({"recorded_trace": [[e["op"], e["args"], "".join(e["post"]["rows"][0][1]) if e["post"]["rows"] else e["post"]["kind"]] for e in evs]})
    return {
        "traces": len(lists), "events": nevents, "accepted_traces": accepted_traces, "rejected_events": len(bad),
        "history_dependent_rejections": len(pending), "max_depth": depth, "ops": ops_count,
        "unsupported_calls_skipped": sum(r["unsupported"] for r in recs),
        "tlc_states": res.distinct,
    }
