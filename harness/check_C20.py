"""C20 — tables follow the list-of-rows model and survive delimited round-trips.

spec -> code, two specifications:
  Table.tla      the list-of-rows model of sorted / filtered / count / count_unique /
                 distinct_values / inner, natural and cross joins / appended / transposed /
                 get_columns / with_new_column.  TLC enumerates every small table (and pair of
                 tables) x every argument, checks the algebraic laws of the model, and emits
                 input + answer; the harness builds the real Table, makes the real call and
                 compares header and rows.
  TableText.tla  character-level models of the two delimited writers (csv.writer used by
                 Table.write, format.table.separator_format used by to_csv/to_tsv/to_string)
                 and of the csv.excel reader.  TLC proves both writer models lossless (the
                 separator_format one only since its repair); the harness writes real
                 tables to tsv/csv (plain, gz), json and pickle, reloads them with load_table
                 and compares header, cell text and numeric restoration with the spec.
  TableObject.tla  histories of calls on ONE Table object (index_name = c / None, column
                 assignment and deletion, interleaved with array / to_dict / sum_rows / write+load);
                 every history up to the bound is replayed on a fresh real Table and every way of
                 reading the object is compared with the list-of-rows model (object_C20.py).
"""
from __future__ import annotations

import gc
import multiprocessing as mp
import os
import sys
import time

from common import Run, main_wrapper
from tlc import Scratch, read_emitted, run_tlc

import replay_C20 as rp

NPROC = min(16, os.cpu_count() or 1)


def _init_worker():
    import multiprocessing.process as mpp

    mpp._parent_process = None


def replay(run: Run, records, fn, label):
    """run fn(rec) -> None | (key, what, detail) over records in a fork pool"""
    n = 0
    bad = 0
    mid = max(1, len(records) // 2)
    sampled = False
    t0 = time.time()
    ctx = mp.get_context("fork")
    with ctx.Pool(NPROC, initializer=_init_worker) as pool:
        for rec, out in zip(records, pool.imap(fn, records, chunksize=64)):
            n += 1
            if out is None:
                if n >= mid and not sampled:
                    sampled = True
                    run.sample({"spec": label, "act": rec["act"], "args": rec["args"], "from": rec["from"], "to": rec["to"]})
                continue
            key, what, detail = out
            if key == "__drift__":
                run.model_drift(f"{label}: {what} {str(detail)[:300]}")
                continue
            bad += 1
            run.fail(key, {"case": rec, **detail}, what=f"{rec['act']} {what}")
    print(f"[C20] {label}: {n} cases on the real code, {bad} disagreements, {time.time() - t0:.1f}s", flush=True)
    return n, bad


EXPECTED_ACTIONS = {
    "unary": {"Sorted", "Filtered", "Unique", "GetColumns", "WithNewColumn", "Transposed"},
    "binary": {"InnerJoin", "NaturalJoin", "NaturalJoinRenamed", "CrossJoin", "AppendedRenamed"},
    "big": {"Sorted"},
}


class TlcJobs:
    """all TLC runs of the check, started together (they are independent); results are
    collected in the main thread in the order the replays need them"""

    def __init__(self, run, scratch, tier):
        from concurrent.futures import ThreadPoolExecutor

        self.run, self.scratch = run, scratch
        w = 4 if tier == "quick" else 8
        # the records of the big tables exceed the size of an atomic append: one writer only
        self.specs = {
            "unary": ("Table", f"MC_Table_unary_{tier}.cfg", w, True),
            "binary": ("Table", f"MC_Table_binary_{tier}.cfg", w, True),
            "big": ("Table", f"MC_Table_big_{tier}.cfg", 1, True),
            "design": ("TableText", f"MC_Table_text_design_{tier}.cfg", w, True),
            "io": ("TableText", f"MC_Table_text_io_{tier}.cfg", 4, True),
            "object": ("TableObject", f"MC_Table_object_{tier}.cfg", 4, True),
            "long": ("Table", f"MC_Table_long_{tier}.cfg", 1, True),
        }
        self.pool = ThreadPoolExecutor(len(self.specs))
        self.futs = {name: self.pool.submit(self._job, name) for name in self.specs}

    def _job(self, name):
        spec, cfg, workers, must_pass = self.specs[name]
        emit = self.scratch / f"{name}.ndjson"
        res = run_tlc(spec, cfg, self.scratch, workers=workers, heap="2g", env={"EMIT_FILE": emit}, must_pass=must_pass)
        return emit, res

    def get(self, name):
        # hand the records over and forget them: the parent must stay small, every replay forks it
        emit, res = self.futs.pop(name).result()
        recs = list(read_emitted(emit)) if self.specs[name][3] else []
        emit.unlink(missing_ok=True)
        if self.specs[name][3]:
            self.run.add_tlc(res)
            if not recs:
                raise RuntimeError(f"vacuous: no transitions emitted by {self.specs[name][1]}")
        print(f"[C20] {self.specs[name][1]}: {res.distinct} states, {res.generated} transitions, {len(recs)} emitted, tlc {res.wall:.1f}s", flush=True)
        return recs, res

    def close(self):
        self.pool.shutdown(wait=True, cancel_futures=True)


def check(run: Run):
    tier = run.tier
    # import the library once in the parent so that forked workers share it
    import cogent3  # noqa: F401
    from cogent3 import load_table, make_table  # noqa: F401
    import cogent3.format.table  # noqa: F401
    import cogent3.maths.stats.number  # noqa: F401
    import long_C20
    import object_C20
    import text_C20

    stats = {}
    total = 0
    with Scratch("C20") as scratch:
        os.environ["VERIF_C20_SCRATCH"] = str(scratch)
        jobs = TlcJobs(run, scratch, tier)
        try:
            for group in ("unary", "binary", "big"):
                recs, res = jobs.get(group)
                acts = {}
                for r in recs:
                    acts[r["act"]] = acts.get(r["act"], 0) + 1
                missing = EXPECTED_ACTIONS[group] - set(acts)
                if missing:
                    raise RuntimeError(f"vacuous: group {group} never took action(s) {sorted(missing)}")
                n, bad = replay(run, recs, rp.run_relational, f"Table/{group}")
                stats[group] = {"tlc_states": res.distinct, "tlc_transitions": res.generated, "tlc_wall_s": round(res.wall, 1),
                                "cases": n, "disagreements": bad, "by_action": acts}
                total += n
                del recs
                gc.collect()
            total += text_C20.check_text(run, stats, replay, jobs)
            gc.collect()
            total += object_C20.check_object(run, stats, jobs)
            gc.collect()
            total += long_C20.check_long(run, stats, jobs)
        finally:
            jobs.close()
    run.note("groups", stats)
    run.cov["traces_validated_against_impl"] = total
    run.cov["evaluations"] = total
    run.cov["distinct_nontrivial"] = total
    run.cov["exhaustive"] = True
    run.cov["rule"] = (
        "every (table, operation, arguments) / (pair of tables, join or append arguments) / (table, output path) "
        "transition of the exhaustive Table and TableText models, each executed once on the real Table API; "
        "every history of calls on one Table object up to the depth bound of TableObject, x 2 read orders"
    )
    run.assumptions += [
        "cells are compared as python values: None, bool, str exactly; int and float by value (1 == 1.0 as in a list of tuples)",
        "the header of a result is not compared when the receiver has zero rows (cogent3 keeps no column for an empty column; the statement speaks of rows)",
        "sorting is required for tables with at least one row and on columns without missing values (a list of tuples cannot order None either)",
        "model numbers are non-negative with at most one decimal; strings use the characters of the Code table in Table.tla",
        "index_name, titles/legends inside files, display formats (markdown, latex, html) are outside the statement",
    ]


if __name__ == "__main__":
    sys.exit(main_wrapper(check, "C20"))
