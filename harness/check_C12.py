"""C12 — translation and complementing follow the genetic-code tables (GeneticCode.tla).

spec -> code.  TLC enumerates the bounded input families of specs/GeneticCode.tla
(all 64 codons x all 27 NCBI codes; every base string up to MaxLen and a
stop-rich codon family x genetic codes; pairs of sequences; all IUPAC symbols,
base sets and short IUPAC strings per molecular type), checks the design-level
laws on the model (Rc o Rc = id, complement involution = set complement,
Encode o Resolve = id, six frames = 3 plus frames + 3 frames of the reverse
complement = anticodon reading, stop rules) and emits, per input and public
operation, the expected result(s).  Every emitted case is fed to EVERY real entry
point (entry_C12.py) and the observation must be one of the outcomes the spec
lists.  The oracle tables are written in the spec from the NCBI / IUPAC
definitions and share nothing with the repository's two copies.
"""
from __future__ import annotations

import multiprocessing as mp
import os
import random
import sys
import time

from common import Run, main_wrapper
from tlc import Scratch, read_emitted, run_tlc

import entry_C12 as E

WORKERS = int(os.environ.get("VERIF_C12_WORKERS", "8"))

TIERS = {
    # cfg, L2 (sequence objects / old sixframes / app.translate_frames): all strings up to this length
    # plus a seeded sample of the longer ones
    "quick": dict(cfgs=["MC_GeneticCode_quick.cfg", "MC_GeneticCode_long_quick.cfg"], l2_len=3, l2_sample=240),
    "thorough": dict(cfgs=["MC_GeneticCode_thorough.cfg", "MC_GeneticCode_thorough_codes.cfg", "MC_GeneticCode_thorough_pairs.cfg", "MC_GeneticCode_long_thorough.cfg"], l2_len=4, l2_sample=2000),
}


def _work(item):
    layer, rec = item
    out = E.Out()
    try:
        if layer == "L1":
            E.check_frames_gc(rec, out, rna=rec["kind"] in ("seqB", "seqL"))
        elif layer == "L2L":
            E.check_frames_long(rec, out)
        elif layer == "L2":
            E.check_frames_seq(rec, out)
        elif layer == "L3G":  # the operations on one input, sharing the real objects built from it
            for r in rec:
                E.DISPATCH[r["act"]](r, out)
        else:
            E.DISPATCH[rec["act"]](rec, out)
    except Exception as ex:  # harness bug: surface as machinery failure
        import traceback

        return ("error", traceback.format_exc(), rec if isinstance(rec, dict) else rec[0])
    return ("ok", out.n, out.fails, out.unsupported, out.per_entry)


def _chunk(items):
    res = []
    for it in items:
        res.append(_work(it))
    return res


def _init_worker():
    try:
        import graph

        graph._worker_init()
    except Exception:
        pass


def available_codes():
    from cogent3.core import genetic_code as og
    from cogent3.core import new_genetic_code as ng

    old = sorted(int(k) for k in og.available_codes().columns["Code ID"])
    new = sorted(int(k) for k in ng.available_codes().columns["Code ID"])
    return old, new


def histories(run: Run, scratch):
    """GeneticCodeHistory.tla: every maximal history in its own pristine forked child."""
    import numpy

    import history_C12 as H

    cfg = f"MC_GeneticCode_history_{run.tier}.cfg"
    emit = scratch / "history.ndjson"
    res = run_tlc("GeneticCodeHistory", cfg, scratch, workers=WORKERS, env={"EMIT_FILE": emit})
    run.add_tlc(res)
    recs = list(read_emitted(emit))
    if len(recs) != res.distinct - 1:
        raise RuntimeError(f"history: emitted {len(recs)} records for {res.distinct} states")
    max_hist = max(len(r["hist"]) for r in recs) + 1
    todo = H.paths(recs, max_hist)
    # The parent imports the library and compiles the k-mer kernel through the alphabet (no molecular type,
    # sequence or genetic code is asked anything), so every child starts from a process where nothing was asked.
    api = E.Api.get()
    api.ngc(1).codons.to_indices(numpy.array([0, 1, 2, 3, 0, 1], dtype=numpy.uint8))
    t0 = time.time()
    nobs = 0
    ctx = mp.get_context("fork")
    with ctx.Pool(WORKERS, initializer=_init_worker, maxtasksperchild=1) as pool:
        for n, fails in pool.imap_unordered(H.run_history, todo, chunksize=1):
            nobs += n
            for key, detail, what in fails:
                run.fail(key, detail, what=what)
    run.note(f"tlc_{cfg}", {"distinct": res.distinct, "generated": res.generated, "wall_s": round(res.wall, 1)})
    run.note("histories", {"questions": len({H.qkey(r["q"]) for r in recs}), "length": max_hist, "histories_replayed_each_in_a_pristine_process": len(todo), "observations": nobs, "wall_s": round(time.time() - t0, 1)})
    if todo:
        run.sample({"history": [{"op": q["op"], "mt": q["mt"], "s": "".join(q["s"]), "set": q["set"], "expected": H.expected(q, a)} for q, a in todo[len(todo) // 2]]}, limit=9)
    return len(recs), nobs


def check(run: Run):
    tier = TIERS[run.tier]
    rng = random.Random(run.seed)
    with Scratch("C12h") as hscratch:
        # first, while this process has not asked the library anything
        hist_cases, hist_obs = histories(run, hscratch)
    items = []
    counts = {}
    table_codes = set()
    with Scratch("C12") as scratch:
        recs = []
        for i, cfg in enumerate(tier["cfgs"]):
            emit = scratch / f"emit{i}.ndjson"
            # the long family emits lines far beyond the pipe-atomic size: one worker, so lines cannot interleave
            res = run_tlc("GeneticCode", cfg, scratch, workers=1 if "_long_" in cfg else WORKERS, env={"EMIT_FILE": emit}, heap="6g")
            run.add_tlc(res)
            n0 = len(recs)
            recs.extend(read_emitted(emit))
            if res.generated - res.distinct != len(recs) - n0:
                raise RuntimeError(f"emitted {len(recs) - n0} records but TLC took {res.generated - res.distinct} transitions ({cfg})")
            run.note(f"tlc_{cfg}", {"distinct": res.distinct, "generated": res.generated, "wall_s": round(res.wall, 1)})
    # de-duplicate cases produced by more than one cfg
    seen = set()
    uniq = []
    for r in recs:
        k = (r["kind"], r["code"], r["mt"], "".join(r["seq"]), "".join(r["seq2"]), tuple(sorted(r["set"])), r["act"], tuple(r["args"]))
        if k in seen:
            continue
        seen.add(k)
        uniq.append(r)
    recs = uniq
    long_frames = []
    grouped = {}
    for r in recs:
        counts[r["act"]] = counts.get(r["act"], 0) + 1
        if r["act"] == "Codon":
            table_codes.add(r["code"])
        if r["act"] == "Frames":
            items.append(("L1", r))
            if r["kind"] == "seqL":
                items.append(("L2L", r))
                if len(r["seq"]) <= 4000:
                    items.append(("L2", r))
            elif r["kind"] in ("seqB", "seqU") or len(r["seq"]) <= tier["l2_len"]:
                items.append(("L2", r))
            else:
                long_frames.append(r)
        elif r["act"] in ("GetTranslation", "StopOps", "Select", "PairGetTranslation", "PairStopOps"):
            grouped.setdefault((r["kind"], r["code"], "".join(r["seq"]), "".join(r["seq2"])), []).append(r)
        else:
            items.append(("L3", r))
    items.extend(("L3G", g) for g in grouped.values())
    # seeded, length-stratified sample of the longer strings for the slow entry points
    by_len = {}
    for r in long_frames:
        by_len.setdefault(len(r["seq"]), []).append(r)
    skipped = 0
    if by_len:
        per = max(1, tier["l2_sample"] // len(by_len))
        for L in sorted(by_len):
            pool = by_len[L]
            pick = pool if len(pool) <= per else rng.sample(pool, per)
            skipped += len(pool) - len(pick)
            items.extend(("L2", r) for r in pick)
    run.note("emitted_by_action", counts)
    run.note("slow_entry_points_skipped_by_budget", skipped)

    # codes offered by the library vs codes in the oracle
    old_codes, new_codes = available_codes()
    oracle = sorted(table_codes)
    run.note("codes", {"oracle_tables": oracle, "old_available": old_codes, "new_available": new_codes})
    for entry, have in (("old-gc", old_codes), ("new-gc", new_codes)):
        missing = sorted(set(oracle) - set(have))
        extra = sorted(set(have) - set(oracle))
        if missing:
            run.fail(f"Codes:{entry}:ncbi-code-not-available", {"missing": missing}, what=f"NCBI codes {missing} not offered")
        if extra:
            # a code the oracle has no published table for: cross-implementation agreement only
            run.note(f"codes_without_oracle_{entry}", extra)

    # shuffle so slow and fast cases are spread over the workers
    rng.shuffle(items)
    nchunk = max(1, min(len(items) // 50, WORKERS * 40))
    chunks = [items[i::nchunk] for i in range(nchunk)]
    t0 = time.time()
    total = 0
    unsupported = 0
    per_entry = {}
    E.Api.get().warm_up()
    ctx = mp.get_context("fork")
    with ctx.Pool(WORKERS, initializer=_init_worker) as pool:
        for results in pool.imap_unordered(_chunk, chunks):
            for r in results:
                if r[0] == "error":
                    raise RuntimeError(f"harness error on {r[2]}:\n{r[1]}")
                _, n, fails, unsup, pe = r
                total += n
                unsupported += unsup
                for k, v in pe.items():
                    per_entry[k] = per_entry.get(k, 0) + v
                for key, detail, what in fails:
                    run.fail(key, detail, what=what)
    run.note("replay_wall_s", round(time.time() - t0, 1))
    run.note("observations_per_entry_point", dict(sorted(per_entry.items())))
    run.note("refusals_allowed_by_spec", unsupported)
    # spec transitions executed on the real code (a Frames transition counts once even if both the
    # genetic-code layer and the sequence-object layer ran it)
    l1 = {id(r) for layer, r in items if layer == "L1"}
    run.cov["traces_validated_against_impl"] = sum(
        len(r) if layer == "L3G" else (0 if layer in ("L2", "L2L") and id(r) in l1 else 1) for layer, r in items
    )
    run.cov["traces_validated_against_impl"] += hist_cases
    total += hist_obs
    run.cov["evaluations"] = total
    run.cov["distinct_nontrivial"] = hist_cases + len(recs) - sum(1 for r in recs if r["act"] in ("Frames", "GetTranslation", "StopOps") and len(r["seq"]) < 3)
    run.cov["exhaustive"] = skipped == 0
    run.cov["rule"] = (
        "every (input, operation) transition of the exhaustive GeneticCode model is one case; each case is executed on every real "
        "entry point that offers the operation (evaluations = real-API observations compared with the spec); "
        "non-trivial = the input holds at least one codon (sequence operations) or is a table / symbol case; "
        "sequence-object / old sixframes / app.translate_frames entry points see every stop-rich string, every string up to "
        f"length {tier['l2_len']} and a seeded length-stratified sample of the longer ones (skipped count in slow_entry_points_skipped_by_budget)"
    )
    def show(r):
        def j(v):
            if isinstance(v, list) and v and all(isinstance(x, str) and len(x) == 1 for x in v):
                return "".join(v)
            if isinstance(v, list):
                return [j(x) for x in v]
            if isinstance(v, dict):
                return {k: j(x) for k, x in v.items()}
            return v

        return {k: j(v) for k, v in r.items() if v not in ([], "", 0) or k in ("act", "ret")}

    wanted = [
        lambda r: r["act"] == "Frames" and len(r["seq"]) >= 7 and r["code"] == 2,
        lambda r: r["act"] == "Frames" and len(r["seq"]) >= 5,
        lambda r: r["act"] == "GetTranslation" and len(r["ret"]["allowed"]) == 2 and len(r["seq"]) >= 7,
        lambda r: r["act"] == "GetTranslation" and r["args"][:3] == [True, True, False] and len(r["seq"]) == 6 and r["ret"]["diag"]["trimmed_twice"] != r["ret"]["allowed"][0],
        lambda r: r["act"] == "Codon" and r["ret"]["stop"] and r["code"] == 22,
        lambda r: r["act"] == "PairGetTranslation" and r["args"][:2] == [False, True],
        lambda r: r["act"] == "Sym" and r["seq"] == ["B"] and r["mt"] == "rna",
        lambda r: r["act"] == "RcStr" and len(r["seq"]) == 2 and "".join(r["seq"]) == "RK",
    ]
    for w in wanted:
        for r in recs:
            if w(r):
                run.sample(show(r), limit=8)
                break
    run.assumptions += [
        "oracle = NCBI gc.prt tables written in specs/GeneticCode.tla as the standard table + per-code differences; IUPAC-IUB nucleotide codes; independent of the repository's tables",
        "only canonical (T/U,C,A,G) sequences are translated; gapped / ambiguous codon conventions ('?' vs 'X') are out of scope and never generated",
        "aligned collections pad a trimmed stop codon with gaps (documented): trailing '-' of their members is stripped in the projection",
        "a frame offset at or beyond the end of a non-empty sequence may be refused (old GeneticCode.translate raises ValueError by design): counted as refusals_allowed_by_spec",
        "a trailing incomplete codon with trim_stop and not incomplete_ok may be refused or dropped (the statement leaves it open)",
        "'-' and '?' are checked for complement / rc / degeneracy only (their resolution depends on allow_gap); protein X is not checked (alphabet-dependent), B and Z are",
        "long family (lengths around 2^8 codons in quick; 2^8 / 2^16 bases and codons, 300 and 1000 codons in thorough): the sequence is generated and its six expected proteins are computed by TLC with the same per-codon Translate of the spec (emitted by a single-worker TLC run, lines exceed the atomic write size); strings above 4000 bases skip the old-style sequence / collection objects",
        "histories (GeneticCodeHistory.tla): each maximal sequence of questions is replayed in its own child forked from a parent that has only imported cogent3 and compiled the k-mer kernel through the alphabet; the degenerate codons used have amino-acid sets that are neither a single residue nor Asx/Glx, where old ('symbol of the set') and new ('X') conventions coincide",
        "best_frame / select_translatable are checked on the single-ORF family only (exactly one, or no, acceptable frame of six): the ranking of several acceptable frames and require_stop are not covered",
    ]


if __name__ == "__main__":
    sys.exit(main_wrapper(check, "C12"))
