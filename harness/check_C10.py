"""C10 — every serialisable object round-trips, whatever state it is in.

Serialise.tla: a round trip (rich dict -> JSON -> deserialise_object, or pickle) is a STUTTERING
step of every object's state machine; TLC enumerates every behaviour (operation histories with a
round trip inserted anywhere) within the depth bound.  The harness replays each behaviour on a
real object and compares its observable projection (strings, names, coordinates, annotations,
parameter values, lnL, ...) with that of a reference object which performed the same operations
and was never serialised.  A registry-completeness report lists registered deserialisers no
kind exercises.
"""
from __future__ import annotations

import json
import os
import sys
from pathlib import Path

import kinds_C10 as K
from common import Run, main_wrapper
from graph import Adapter, Graph, explore, skey
from tlc import SPECS, Scratch, read_emitted, run_tlc


def pj(x):
    return json.dumps(x, sort_keys=True, default=str)


class Ctx:
    pass


class KindAdapter(Adapter):
    def __init__(self, kind):
        self.kind = kind
        self.factory, self.ops, self.proj = K.KINDS[kind]

    def fresh(self, variant):
        ctx = Ctx()
        ctx.obj = self.factory()
        ctx.ref = self.factory()
        ctx.hist = []
        ctx.copy = False
        ctx.anom = []
        ctx.dead = None
        ctx.method = None
        return ctx

    def apply(self, ctx, act, args):
        if act == "Apply":
            op = args[0]
            ctx.hist.append(op)
            if ctx.dead:
                return None
            try:
                ctx.ref = self.ops[op](ctx.ref)
            except Exception as ex:
                ctx.dead = f"{op}:{type(ex).__name__}"  # the operation itself is unsupported in this state
                return None
            try:
                ctx.obj = self.ops[op](ctx.obj)
            except Exception as ex:
                ctx.last_exc = repr(ex)
                ctx.anom.append(f"operation-raised-on-copy:{op}:{type(ex).__name__}")
                ctx.dead = "copy-broken"
        else:
            ctx.copy = True
            ctx.method = args[0]
            if ctx.dead:
                return None
            try:
                ctx.obj = K.roundtrip(ctx.obj, args[0])
            except Exception as ex:
                ctx.last_exc = repr(ex)
                ctx.anom.append(f"roundtrip-raised:{type(ex).__name__}")
                ctx.dead = "copy-broken"
        return None

    def project(self, ctx):
        st = {"kind": self.kind, "hist": list(ctx.hist), "copy": ctx.copy}
        anom = list(ctx.anom)
        if not ctx.dead and ctx.copy:
            try:
                a = self.proj(ctx.obj)
            except Exception as ex:
                a = None
                anom.append(f"observation-raised-on-copy:{type(ex).__name__}")
            if a is not None:
                b = self.proj(ctx.ref)
                diff = sorted(k for k in set(a) | set(b) if pj(a.get(k)) != pj(b.get(k)))
                if type(ctx.obj) is not type(ctx.ref):
                    diff.append("python-type")
                if diff:
                    anom.append(f"differs[{ctx.method}]:" + ",".join(diff))
                    ctx.detail = {k: {"copy": a.get(k), "reference": b.get(k)} for k in diff if k != "python-type"}
        if anom:
            st["anomalies"] = anom
        ctx.unsupported = ctx.dead if ctx.dead and ctx.dead != "copy-broken" else None
        return st

    def finding_key(self, status, detail):
        act, args = detail["label"]
        f = detail["from"]
        if status != "mismatch":
            return f"{self.kind}:{status}"
        obs = detail["observed"]["state"]
        hist = obs.get("hist", [])
        method = args[0] if act == "RoundTrip" else "after-roundtrip"
        pre = "+".join(f["hist"]) or "fresh"
        post = args[0] if act == "Apply" else ""
        anoms = obs.get("anomalies", ["state"])
        anom = ";".join(anoms)
        if self.kind == "seq_new" and anoms == ["differs[json]:features"]:
            # documented in Sequence.to_rich_dict: the annotation db is not part of the new-style sequence's serialisation
            return "seq_new:json:annotation_db-not-serialised"
        if self.kind == "seq_new" and act == "Apply" and args[0] == "to_rna" and "to_rna" in f["hist"] and anoms and anoms[0].startswith("differs[pickle]") and "str" not in anoms[0]:
            # a no-op conversion (rna -> rna) on an unpickled copy takes the converting path (its moltype is not the
            # singleton any more) and re-bases the view: same string, different coordinates / feature mapping
            return "seq_new:pickle:noop-conversion-rebases-the-copy"
        if self.kind.startswith("lf_") and anoms and anoms[0].startswith("differs[json]"):
            # root causes visible in the observed values themselves (not in the history that produced them)
            ad = detail.get("adapter_detail") or {}
            fields = set(anoms[0].split(":", 1)[1].split(","))
            ref_bprobs = (ad.get("bprobs") or {}).get("reference")
            if "bprobs" in fields and ref_bprobs and min(ref_bprobs) < 1e-6:
                # Setting.get_param_rule_dict lifts every probability of a partition to >= 1e-6 when exporting rules
                return f"{self.kind}:json:partition-probability-below-1e-6-lifted-at-export:" + ",".join(sorted(fields))
            if self.kind == "lf_rate_free" and "rates" in fields and "bprobs" not in fields and "rules" not in fields:
                # the free rate classes live in a hidden PartitionDefn (rate_partition, user_param=False): never exported
                return "lf_rate_free:json:fitted-free-rates-not-exported:" + ",".join(sorted(fields))
        if self.kind == "tree" and "bifurcating" in hist and anoms and anoms[0].startswith("differs[json]"):
            return "tree:json:unnamed-node-from-bifurcating:" + anoms[0].split(":", 1)[1]
        return f"{self.kind}:{method}:state={pre}:{('then=' + post + ':') if post else ''}{anom}"


def registry_report(run):
    """Registered deserialisers vs. the kinds exercised (informational)."""
    try:
        from cogent3.util import deserialise as D

        reg = sorted(getattr(D, "_deserialise_func_map", {}).keys())
    except Exception:
        reg = []
    run.note("registered_deserialisers", reg)
    run.note("kinds_exercised", list(K.KINDS))


def check(run: Run):
    want = K.mc_module_text()
    have = (SPECS / "MC_Serialise.tla").read_text()
    if want != have:
        raise RuntimeError("specs/MC_Serialise.tla is out of date with harness/kinds_C10.py: run `python harness/kinds_C10.py`")
    cfg = "MC_Serialise_quick.cfg" if run.tier == "quick" else "MC_Serialise_thorough.cfg"
    with Scratch("C10") as scratch:
        emit = scratch / "ser.ndjson"
        res = run_tlc("MC_Serialise", cfg, scratch, workers=8, env={"EMIT_FILE": emit}, timeout=1800)
        run.add_tlc(res)
        recs = list(read_emitted(emit))
        stats = {}
        total = 0
        only = os.environ.get("VERIF_C10_KINDS")
        kinds = [k for k in K.KINDS if not only or k in only.split(",")]

        def one(kind):
            g = Graph(r for r in recs if r["from"]["kind"] == kind)
            ad = KindAdapter(kind)
            init = {"kind": kind, "hist": [], "copy": False}
            budget = None
            if kind in ("lf", "model_result"):
                budget = 120 if run.tier == "quick" else 600
            return kind, explore(g, init, ad, run, seed=run.seed, budget=budget, nproc=3)

        from concurrent.futures import ThreadPoolExecutor

        # heavy kinds first; 5 kinds at a time x 3 worker processes each
        order = sorted(kinds, key=lambda k: -len(K.KINDS[k][1]) - (10 if k == "lf" else 0))
        with ThreadPoolExecutor(5) as tp:
            for kind, st in tp.map(one, order):
                stats[kind] = {k: st[k] for k in ("impl_transitions_checked", "impl_states_reached", "mismatches", "skipped_by_budget")}
                total += st["impl_transitions_checked"]
        registry_report(run)
    run.cov["traces_validated_against_impl"] = total
    run.cov["evaluations"] = total
    run.cov["distinct_nontrivial"] = total
    run.cov["rule"] = (
        "for each kind, every behaviour of Serialise.tla: operation histories up to MaxOps with one round trip (json | pickle) inserted at "
        "any point; the copy's projection is compared with a never-serialised reference after the round trip and after every later operation"
    )
    run.note("per_kind", stats)
    run.assumptions += [
        "observational equality is judged on the projection functions of harness/kinds_C10.py (strings, names, coordinates, features, rules, lnL to 1e-8, ...)",
        "operations that raise on the never-serialised reference object are outside this property (counted as unsupported)",
    ]


def replay_case(detail):
    from graph import replay_detail

    return replay_detail(KindAdapter(detail["from"]["kind"]), detail)


if __name__ == "__main__":
    sys.exit(main_wrapper(check, "C10"))
