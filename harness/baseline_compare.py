#!/venv/bin/python
"""Compare a junit xml of the repository's test-suite (guard off) with /root/.vp/BASELINE.json:
every test in stable_pass must still pass.  usage: baseline_compare.py <junit.xml>"""
import json
import sys
import xml.etree.ElementTree as ET

base = json.load(open("/root/.vp/BASELINE.json"))
want = set(base["stable_pass"])
root = ET.parse(sys.argv[1]).getroot()
status = {}
for tc in root.iter("testcase"):
    tid = f"{tc.get('classname')}::{tc.get('name')}"
    bad = [c.tag for c in tc if c.tag in ("failure", "error", "skipped")]
    status[tid] = bad[0] if bad else "passed"
missing = sorted(t for t in want if t not in status)
notpass = sorted(t for t in want if t in status and status[t] != "passed")
print(f"baseline stable_pass: {len(want)}; seen now: {len(status)}; still passing: {len(want) - len(missing) - len(notpass)}")
print(f"not passing now: {len(notpass)}; not seen: {len(missing)}")
for t in notpass[:40]:
    print("  ", status[t], t)
for t in missing[:10]:
    print("   missing", t)
sys.exit(1 if notpass or missing else 0)
