#!/venv/bin/python
"""Re-confirm and re-evaluate every kept seeded change against the current /repo and the current checks
(with the repository tests).  Seeds of one property never run concurrently (shared replays/evidence files)."""
import json, subprocess, sys, time
from concurrent.futures import ThreadPoolExecutor
from pathlib import Path

VERIF = Path(__file__).resolve().parent.parent
# seeds whose patch edits lines that a later fix: commit rewrote: applied to the parent of that fix
BASES = {"C15-4": "cb9df21e3", "C17-5": "b294978b8~1", "C09-5": "12665fb0c~1"}
LANES = int(sys.argv[1]) if len(sys.argv) > 1 else 4
skip_tests = "--skip-tests" in sys.argv
seeds = sorted(d.name for d in (VERIF / "seeded").iterdir() if d.is_dir() and not d.name.startswith("_"))
excl = [x for a in sys.argv if a.startswith("--exclude=") for x in a.split("=", 1)[1].split(",")]
only = [x for a in sys.argv if a.startswith("--only=") for x in a.split("=", 1)[1].split(",")]
seeds = [s for s in seeds if s.split("-")[0] not in excl and (not only or s.split("-")[0] in only)]
done = set()
for a in sys.argv:
    if a.startswith("--skip-done="):
        for f in a.split("=", 1)[1].split(","):
            done |= {l.split()[0] for l in open(f) if "(True, True)" in l}
seeds = [s for s in seeds if s not in done]
lanes = {}
for s in seeds:
    lanes.setdefault(int(s[1:3]) % LANES, []).append(s)


def lane(items):
    out = []
    for s in items:
        cmd = ["/venv/bin/python", str(VERIF / "harness/eval_seed.py"), s]
        if s in BASES:
            cmd += ["--base", BASES[s]]
        if skip_tests:
            cmd.append("--skip-tests")
        t = time.time()
        p = subprocess.run(cmd, capture_output=True, text=True, timeout=7200, cwd=VERIF)
        try:
            m = json.loads((VERIF / "seeded" / s / "meta.json").read_text())
            ok = (m.get("confirmed"), any(m.get("detected_by_checks", {}).values()))
        except Exception as ex:
            ok = ("?", repr(ex))
        out.append((s, ok, round(time.time() - t)))
        print(s, ok, round(time.time() - t), flush=True)
    return out


with ThreadPoolExecutor(LANES) as ex:
    res = [r for rs in ex.map(lane, lanes.values()) for r in rs]
bad = [r for r in res if r[1] != (True, True)]
print(len(res), "seeds;", len(bad), "not (confirmed and detected):", bad)
