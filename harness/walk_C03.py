"""C03 spec -> code: walk histories (paths of the TLC-emitted transition graph of
Alignment.tla) on real Alignment / ArrayAlignment objects in lock-step.

The graph gives, for every abstract state and label, the successor(s) the spec allows.
A *history* is a path from the start state; the hidden representation of the real
objects (indel maps, sliced / reversed sequence views) depends on the whole history,
so histories -- not (state, label) pairs -- are what is enumerated:
every label at the first `full_depth` levels, a seeded sample of `sample_k` labels
per node below, down to the depth TLC explored.

On a disagreement the history is minimised (operations are dropped while the same
kind of disagreement remains) and the finding key is built from the classes of the
remaining operations: <receiver class>:<op>...<op>:<what differs>.
"""
from __future__ import annotations

import json
import multiprocessing as mp
import os
import random
import traceback
import zlib

import binding_C03 as B

_W = {}


def skey(o) -> str:
    return json.dumps(o, separators=(",", ":"))


class SpecGraph:
    """from-state -> label -> [to-state ids]; states are interned."""

    def __init__(self):
        self.ids = {}
        self.states = []
        self.succ = []
        self.ntrans = 0
        self.acts = set()

    def sid(self, st):
        k = skey(st)
        i = self.ids.get(k)
        if i is None:
            i = len(self.states)
            self.ids[k] = i
            self.states.append(st)
            self.succ.append({})
        return i

    def add(self, rec):
        f = self.sid(rec["from"])
        t = self.sid(rec["to"])
        lab = skey([rec["act"], rec["args"]])
        tos = self.succ[f].setdefault(lab, [])
        if t not in tos:
            tos.append(t)
            self.ntrans += 1
        self.acts.add(rec["act"])

    @property
    def start(self):
        return self.ids[skey({"kind": "start", "mol": "dna", "rows": []})]


# ------------------------------------------------------------ finding keys
def opclass(act, args, n=None):
    """class of a call: the operation plus the argument classes that select a code path"""
    if act == "Slice":
        a, b, f = args
        return f"Slice/{f}" + ("/empty" if a >= b else "")
    if act == "Index":
        return f"Index/{args[1]}" + ("/last" if n is not None and args[0] == n - 1 else "")
    if act == "Stride":
        return "Stride/rev" if args[1] == 0 else "Stride/step"
    if act == "TakePositions":
        return act + ("/neg" if args[1] else "") + ("/array" if args[2] == "array" else "")
    if act == "TakeSeqs":
        return act + ("/neg" if args[1] else "")
    if act == "OmitGapPos":
        return act + ("" if args[2] == "exact" else f"/{args[2]}") + ("/ml2" if args[3] == 2 else "")
    if act in ("NoDegenerates", "Filtered", "SampleRepl"):
        return act + ("/ml2" if args[-1 if act != "NoDegenerates" else 0] == 2 else "")
    if act == "SamplePerm":
        return act + ("/ml2" if args[2] == 2 else "")
    if act == "Concat":
        return f"Concat/{args[0]}"
    if act == "ConcatSlices":
        a, b, c, d = args
        how = "empty" if a == b or c == d else "inorder" if b == c else "swapped" if d == a else "overlap" if max(a, c) < min(b, d) else "apart"
        return f"ConcatSlices/{how}"
    if act == "ToType":
        return "ToType/" + ("array" if args[0] else "aln")
    if act == "DeepCopy":
        return "DeepCopy/" + ("sliced" if args[0] else "unsliced")
    if act in ("ToRna", "ToDna"):
        return "ToMol"
    if act == "CallerReuses":
        return f"CallerReuses/{args[0]}"
    return act


def history_key(cls, classes, kind):
    """<receiver class>:<set of op classes before the failing call>><failing call>:<what differs>"""
    prefix = "+".join(sorted(set(classes[:-1])))
    return f"{cls}:" + (prefix + ">" if prefix else "") + classes[-1] + f":{kind}"


def diff_kind(proj, anomalies, allowed):
    """which observation differs from the closest allowed successor"""
    best = None
    for st in allowed:
        d = []
        if proj["kind"] != st["kind"]:
            d.append("kind=" + proj["kind"])
        elif proj["kind"] != "void":
            if [r[0] for r in proj["rows"]] != [r[0] for r in st["rows"]]:
                d.append("names")
            elif proj["rows"] != st["rows"]:
                d.append("rows")
            if proj["mol"] != st["mol"]:
                d.append("mol")
        if best is None or len(d) < len(best):
            best = d
    best = list(best or [])
    best += [f"obs={a}" for a in anomalies]
    return best[0] if best else None      # the primary difference names the finding


def matches(proj, st):
    if proj["kind"] != st["kind"]:
        return False
    if proj["kind"] == "void":
        return True
    return proj["mol"] == st["mol"] and proj["rows"] == st["rows"]


# ------------------------------------------------------------------ stepping
def ncols(st):
    return len(st["rows"][0][1]) if st["rows"] else 0


def is_array(obj):
    from cogent3.core.alignment import ArrayAlignment

    return isinstance(obj, ArrayAlignment)


def step(g, sid, obj, lab):
    """Apply label lab to real obj standing at spec state sid.
    -> (status, to_sid|None, result, diffkind, detail)   status in ok/unsupported/fail"""
    act, args = json.loads(lab)
    st = g.states[sid]
    tos = g.succ[sid][lab]
    allowed = [g.states[t] for t in tos]
    fresh_other = None
    if act == "Concat" and args[0] == "fresh":
        fresh_other = B.build(st, is_array(obj))
    try:
        res = B.apply(obj, act, args, ncols(st), fresh_other)
    except B.Unsupported as ex:
        return "unsupported", None, None, None, {"unsupported": str(ex)}
    except Exception as ex:
        return "fail", None, None, f"exc={type(ex).__name__}", {
            "exception": repr(ex),
            "traceback": traceback.format_exc()[-1200:],
            "allowed": allowed,
        }
    try:
        proj, anomalies = B.project(res)
    except Exception as ex:
        return "fail", None, None, f"observer-exc={type(ex).__name__}", {
            "exception": repr(ex),
            "traceback": traceback.format_exc()[-1200:],
            "allowed": allowed,
        }
    if not anomalies:
        for t in tos:
            if matches(proj, g.states[t]):
                return "ok", t, res, None, None
    dk = diff_kind(proj, anomalies, allowed) or "?"
    return "fail", None, res, dk, {"observed": proj, "anomalies": anomalies, "allowed": allowed}


def make(g, make_lab, array_align):
    """-> (sid, real object) of the initial alignment named by a Make label"""
    (t,) = g.succ[g.start][make_lab]
    return t, B.build(g.states[t], array_align)


def ro_check(g, sid, obj, methods=None):
    """read-only observers of obj vs a new object built from the spec rows"""
    st = g.states[sid]
    if st["kind"] not in ("aln", "coll"):
        return []
    fresh = B.build(st, is_array(obj))
    diffs = B.compare_readonly(obj, fresh, st["kind"], methods)
    return diffs


def outcome(g, sid, obj, lab, kind):
    """does applying lab to obj (standing at sid) show the failure `kind`? -> (status, to, res, shows)"""
    status, t, res, dk, _ = step(g, sid, obj, lab)
    if status == "fail":
        return status, t, res, dk == kind
    if status == "ok" and kind.startswith("ro="):
        m = kind[3:]
        return status, t, res, any(d[0] == m for d in ro_check(g, t, res, [m]))
    return status, t, res, False


def replay(g, make_lab, track, ops, kind):
    """Run a whole history on a new object.  -> (True, receiver class) if the LAST op shows
    failure `kind`; (False, None) if it conforms, is not a history of the spec, or fails earlier."""
    sid, obj = make(g, make_lab, track)
    for i, lab in enumerate(ops):
        if lab not in g.succ[sid]:
            return False, None
        if i == len(ops) - 1:
            status, t, res, shows = outcome(g, sid, obj, lab, kind)
            cls = type(res).__name__ if (kind.startswith("ro=") and status == "ok") else type(obj).__name__
            return shows, cls
        status, t, res, dk, _ = step(g, sid, obj, lab)
        if status != "ok":
            return False, None
        sid, obj = t, res
    return False, None


def minimise(g, make_lab, track, ops, kind):
    """smallest sub-history (the last op is kept) that still shows the same kind of failure"""
    import itertools

    prefix, last = list(ops[:-1]), ops[-1]
    for size in range(0, len(prefix)):
        for keep in itertools.combinations(range(len(prefix)), size):
            cand = [prefix[i] for i in keep] + [last]
            try:
                shows, cls = replay(g, make_lab, track, cand, kind)
            except Exception:
                continue
            if shows:
                return cand, cls
    return list(ops), None


def label_class(g, sid, lab):
    act, args = json.loads(lab)
    return opclass(act, args, ncols(g.states[sid]))


def history_classes(g, make_lab, ops):
    """op classes along a history (spec states give the column counts)"""
    sid = g.succ[g.start][make_lab][0]
    out = []
    for lab in ops:
        out.append(label_class(g, sid, lab))
        tos = g.succ[sid].get(lab) or [sid]
        sid = tos[-1]   # the non-void successor when the spec allows two outcomes
    return out


def finding(g, make_lab, track, ops, kind, rcls, detail, sid=None, obj_is_array=None):
    """-> (structural key, detail).  If a NEW object holding the receiver's rows fails the same
    way the failure does not depend on the history: key = class:op:what.  Otherwise the key
    carries the smallest sub-history that still fails: class:op>...>op:what."""
    mops = None
    if ops and sid is not None and g.states[sid]["kind"] in ("aln", "coll"):
        try:
            fresh = B.build(g.states[sid], bool(obj_is_array))
            if outcome(g, sid, fresh, ops[-1], kind)[3]:
                mops = [ops[-1]]
                key = f"{type(fresh).__name__}:{label_class(g, sid, ops[-1])}:{kind}"
        except Exception:
            mops = None
    if mops is None:
        try:
            mops, mcls = minimise(g, make_lab, track, ops, kind) if ops else ([], None)
        except Exception:
            mops, mcls = list(ops), None
        key = history_key(mcls or rcls, history_classes(g, make_lab, mops), kind) if mops else f"{rcls}::{kind}"
    d = {
        "initial": g.states[g.succ[g.start][make_lab][0]],
        "start_class": "ArrayAlignment" if track else "Alignment",
        "history": [json.loads(l) for l in ops],
        "minimal_history": [json.loads(l) for l in mops],
        "differs": kind,
    }
    d.update(detail or {})
    return key, d


# ---------------------------------------------------------------------- walk
def _rng(seed, path):
    return random.Random(zlib.crc32(("|".join(path)).encode()) ^ (seed * 2654435761 & 0xFFFFFFFF))


def _is_index_tuple(lab):
    """a take_positions label of the ordered / repeating tuple family (not a monotone list)"""
    cols, neg = json.loads(lab)[1][:2]
    if neg or len(cols) < 3:
        return False
    inc = all(x < y for x, y in zip(cols, cols[1:]))
    dec = all(x > y for x, y in zip(cols, cols[1:]))
    return not (inc or dec)


class Stats:
    def __init__(self):
        self.steps = 0  # real calls compared with the spec
        self.nodes = 0
        self.unsupported = 0
        self.ro = 0
        self.fails = []
        self.samples = []
        self.by_act = {}
        self.maxdepth = 0


def walk(g, make_lab, first_labels, policy, seed, stats):
    full_depth, sample_k, p_ro = policy["full_depth"], policy["sample_k"], policy["p_ro"]
    max_depth = policy["max_depth"]  # histories of at most this many operations (and only while the graph has the state expanded)
    cs_cap = policy.get("cs_cap")  # at most this many ConcatSlices labels per node (seeded sample); None = all
    tp_cap = policy.get("tp_cap")  # below the first level: at most this many index-TUPLE take_positions labels per node

    def visit(sid, objs, path):
        # objs: {track: real object}; all stand at spec state sid
        depth = len(path)
        stats.nodes += 1
        stats.maxdepth = max(stats.maxdepth, depth)
        labels = list(g.succ[sid])
        if depth == 0 and first_labels is not None:
            labels = [l for l in labels if l in first_labels]
        elif depth >= full_depth:
            k = sample_k if depth == full_depth else 1
            if len(labels) > k:
                labels = _rng(seed, [make_lab] + path).sample(sorted(labels), k)
        if cs_cap is not None:
            cs = sorted(l for l in labels if l.startswith('["ConcatSlices"'))
            if len(cs) > cs_cap:
                drop = set(cs) - set(_rng(seed, [make_lab, "cs"] + path).sample(cs, cs_cap))
                labels = [l for l in labels if l not in drop]
        leaf_only = set()  # executed and compared, but not extended into longer histories
        if tp_cap is not None:
            # decided on ALL labels of the node (a job may hold only a chunk of the first level)
            tp = sorted(l for l in g.succ[sid] if l.startswith('["TakePositions"') and _is_index_tuple(l))
            if len(tp) > tp_cap:
                drop = set(tp) - set(_rng(seed, [make_lab, "tp"] + path).sample(tp, tp_cap))
                if depth >= 1:
                    labels = [l for l in labels if l not in drop]
                else:
                    leaf_only = drop
        for lab in labels:
            groups = {}
            act = lab[2 : lab.index('"', 2)]
            for track, obj in objs.items():
                status, t, res, dk, detail = step(g, sid, obj, lab)
                stats.steps += 1
                stats.by_act[act] = stats.by_act.get(act, 0) + 1
                if status == "unsupported":
                    stats.unsupported += 1
                    continue
                if status == "fail":
                    stats.fails.append(finding(g, make_lab, track, path + [lab], dk, type(obj).__name__, detail, sid, is_array(obj)))
                    continue
                groups.setdefault(t, {})[track] = res
                rr = _rng(seed, [make_lab, str(track)] + path + [lab, "ro"])
                if rr.random() < (p_ro if not is_array(res) else min(1.0, 3 * p_ro)) * (2 if depth == 0 else 1):
                    table = B.READONLY_ALN if g.states[t]["kind"] == "aln" else B.READONLY_COLL
                    names = [m for m in table if table[m] is not None]
                    methods = names if is_array(res) or res is None else rr.sample(names, min(5, len(names)))
                    stats.ro += 1
                    for m, got, exp in ro_check(g, t, res, methods):
                        stats.fails.append(
                            finding(g, make_lab, track, path + [lab], f"ro={m}", type(res).__name__, {"method": m, "got": got, "fresh_object_says": exp, "rows": g.states[t]}, sid, is_array(obj))
                        )
            if len(groups) > 1:
                stats.fails.append(
                    finding(g, make_lab, 0, path + [lab], "classes-disagree", "both", {"successors": [g.states[t] for t in groups]})
                )
            for t, sub in groups.items():
                if len(stats.samples) < 3 and depth >= 1:
                    stats.samples.append({"initial": g.states[g.succ[g.start][make_lab][0]]["rows"], "history": [json.loads(l) for l in path + [lab]], "result": g.states[t]})
                if g.succ[t] and depth + 1 < max_depth and lab not in leaf_only:
                    visit(t, sub, path + [lab])
        # the receivers must still show the rows they had before the calls
        for track, obj in objs.items():
            try:
                proj, an = B.project(obj)
                bad = bool(an) or not matches(proj, g.states[sid])
            except Exception:
                bad = True
            if bad:
                stats.fails.append(finding(g, make_lab, track, path, "receiver-changed-by-later-calls", type(obj).__name__, {}))

    t0 = g.succ[g.start][make_lab][0]
    objs = {}
    for track in (0, 1):
        objs[track] = B.build(g.states[t0], bool(track))
        proj, an = B.project(objs[track])
        if an or not matches(proj, g.states[t0]):
            stats.fails.append(("%s:Make:rows" % type(objs[track]).__name__, {"initial": g.states[t0], "observed": proj, "anomalies": an}))
            del objs[track]
    if objs:
        visit(t0, objs, [])


def _job(job):
    make_lab, first_labels, policy, seed = job
    st = Stats()
    try:
        walk(_W["g"], make_lab, first_labels, policy, seed, st)
    except Exception:
        return {"error": traceback.format_exc()}
    return st.__dict__


def run_walk(g, roots, run, nproc=None, chunk=6):
    """roots: list of (make_label, policy). Splits each root's first-level labels into jobs."""
    _W["g"] = g
    jobs = []
    for make_lab, policy in roots:
        t0 = g.succ[g.start][make_lab][0]
        labs = sorted(g.succ[t0])
        if policy["full_depth"] >= 2 and len(labs) > chunk:
            for i in range(0, len(labs), chunk):
                jobs.append((make_lab, set(labs[i : i + chunk]), policy, run.seed))
        else:
            jobs.append((make_lab, None, policy, run.seed))
    random.Random(run.seed).shuffle(jobs)
    tot = {"steps": 0, "nodes": 0, "unsupported": 0, "ro": 0, "by_act": {}, "maxdepth": 0, "jobs": len(jobs)}
    nproc = nproc or min(16, os.cpu_count() or 1)
    ctx = mp.get_context("fork")
    with ctx.Pool(nproc) as pool:
        for r in pool.imap_unordered(_job, jobs, chunksize=1):
            if "error" in r:
                raise RuntimeError("walk worker failed:\n" + r["error"])
            for k in ("steps", "nodes", "unsupported", "ro"):
                tot[k] += r[k]
            tot["maxdepth"] = max(tot["maxdepth"], r["maxdepth"])
            for a, n in r["by_act"].items():
                tot["by_act"][a] = tot["by_act"].get(a, 0) + n
            for s in r["samples"]:
                run.sample(s)
            for key, detail in r["fails"]:
                run.fail(key, detail, what=detail.get("differs", ""))
    return tot
