"""C20, LONG family: the model instances of Table.tla (group "long") scaled to tables of more than
1000 rows.

Scaling rule (stated in Table.tla): model row i is repeated m_i times; column r carries the model
row number, so a result of a row-by-row operation is scaled by repeating, in input order, the block
of result rows that carry r = i exactly m_i times.  Nothing is computed about the operation here.
The multiplicities put the odd-typed cell on real rows 0 / inside the first 1000 / 999 / 1000 /
1200 / last of tables with 1001, 2500 (thorough: also 1500 and 5000) rows.
"""
from __future__ import annotations

import traceback

import replay_C20 as rp
import text_C20 as tx

SIZES = {"quick": (1001, 2500), "thorough": (1001, 1500, 5000)}
TARGET = {1: 0, 2: 500, 3: 999, 4: 1000, 5: 1200, 6: None}  # model position of the odd cell -> real row (None = last)


def distribute(total, k):
    if k == 0:
        assert total == 0
        return []
    m = [1] * k if total >= k else [1] * total + [0] * (k - total)
    m[0] += max(0, total - k)
    return m


def multiplicities(p, nmodel, n):
    after_rows = nmodel - p
    t = n - 1 if TARGET[p] is None else min(TARGET[p], n - 1 - after_rows)
    return distribute(t, p - 1) + [1] + distribute(n - 1 - t, after_rows), t


def scale(rows, mult, idcol):
    """repeat the block of rows carrying model id i, m_i times, in id order"""
    blocks = {}
    for r in rows:
        blocks.setdefault(int(rp.text(r[idcol][1])), []).append(r)
    out = []
    for i, m in enumerate(mult, start=1):
        out.extend(blocks.get(i, []) * m)
    return out


def odd_position(rec):
    tags = [r[1][0] for r in rec["from"]["tab"]["rows"]]
    return 1 + next(i for i, t in enumerate(tags) if tags.count(t) == 1)


def long_case(job):
    rec, n = job
    act, args, to = rec["act"], rec["args"], rec["to"]
    tab, oth = rec["from"]["tab"], rec["from"]["oth"]
    tags = [r[1][0] for r in tab["rows"]]
    p = 1 + next(i for i, t in enumerate(tags) if tags.count(t) == 1)
    mult, where = multiplicities(p, len(tab["rows"]), n)
    what = None
    detail = {}
    try:
        big_in = scale(tab["rows"], mult, 0)
        assert len(big_in) == n
        t = rp.make(dict(tab, rows=big_in, title=[]))  # a title would be written into the tsv file

        def same(real, model_table, tag=""):
            exp = rp.spec_rows(scale(model_table["rows"], mult, model_table["header"].index("r")))
            obs = rp.norm_rows(rp.rows_of(real))
            if list(real.header) != list(model_table["header"]):
                raise rp.Diff(f"{tag}header", {"expected": model_table["header"], "observed": list(real.header)})
            if obs != exp:
                i = next((i for i, (a, b) in enumerate(zip(obs, exp)) if a != b), min(len(obs), len(exp)))
                raise rp.Diff(f"{tag}rows", {"first_differing_row": i, "expected": exp[i : i + 1], "observed": obs[i : i + 1],
                                             "n_expected": len(exp), "n_observed": len(obs)})

        if act == "GetColumns":
            # the table itself, read back three ways, and through a tsv file
            same(t, tab, tag="to_list:")
            if rp.norm_rows(t.array.tolist()) != rp.spec_rows(big_in):
                raise rp.Diff("array:rows", {})
            same(t.get_columns(list(args[0])), to, tag="get_columns:")
            got, _ = tx.write_and_load(t, "tsv", tx._workdir())
            grows = rp.rows_of(got)
            ok = len(grows) == n and all(
                all(tx.cell_ok(c, v, True, {"", "None"})[0] for v, c in zip(r, e)) for r, e in zip(grows, big_in)
            )
            if list(got.header) != list(tab["header"]) or not ok:
                raise rp.Diff("tsv:rows", {})
        elif act == "Sorted":
            same(t.sorted(columns=args[0][0]), to)
        elif act == "Filtered":
            (pr,) = args
            for form, (cb, columns) in zip(("callable", "expr"), rp.predicate_forms(pr)):
                same(t.filtered(cb, columns=columns), to["table"], tag=f"{form}:")
                exp_n = len(scale(to["table"]["rows"], mult, 0))
                if int(t.count(cb, columns=columns)) != exp_n:
                    raise rp.Diff(f"{form}:count", {"expected": exp_n, "observed": int(t.count(cb, columns=columns))})
        elif act == "Unique":
            dv = t.distinct_values("v")
            got = rp.canon(rp.key_list(k, 1) for k in dv)
            exp = rp.canon([rp.norm_cell(c) for c in k] for k in to["distinct"])
            if got != exp:
                raise rp.Diff("distinct", {"expected": exp, "observed": got})
            counts = t.count_unique("v")
            got = rp.canon([rp.key_list(k, 1), int(c)] for k, c in counts.items())
            # a count scales with the multiplicities of the model rows that hold the key
            exp = rp.canon(
                [[rp.norm_cell(k[0])], sum(m for r, m in zip(tab["rows"], mult) if r[1] == k[0])] for k, _ in to["counts"]
            )
            if got != exp:
                raise rp.Diff("counts", {"expected": exp, "observed": got})
        elif act == "WithNewColumn":
            new, f = args
            for form, (cb, columns) in zip(("callable", "expr"), rp.derivation_forms(f)):
                same(t.with_new_column(new, cb, columns=columns), to, tag=f"{form}:")
        elif act == "InnerJoin":
            o = rp.make(oth)
            same(t.inner_join(o, columns_self="v", columns_other="v"), to)
            same(t.joined(o, columns_self="v", columns_other="v"), to, tag="joined:")
        else:
            raise ValueError(act)
    except rp.Diff as d:
        what, detail = d.what, d.detail
    except Exception as ex:
        what = f"exception:{type(ex).__name__}"
        detail = {"exception": repr(ex), "traceback": traceback.format_exc()[-1200:]}
    if what is None:
        return None
    base, odd = ("".join(x) for x in sorted({tg for tg in tags}, key=tags.count, reverse=True))
    place = "row<1000" if where < 1000 else "row>=1000"
    key = f"Long:{act}:{base}-column-one-{odd}-cell:{place}:{what}"
    detail.update({"rows": n, "odd_cell_at_row": where, "multiplicities": mult})
    return key, what, detail


def check_long(run, stats, jobs):
    import multiprocessing as mp
    import os
    import time

    from graph import _worker_init

    recs, res = jobs.get("long")
    acts = {r["act"] for r in recs}
    need = {"Sorted", "Filtered", "Unique", "GetColumns", "WithNewColumn", "InnerJoin"}
    if need - acts:
        raise RuntimeError(f"vacuous: long group lacks {sorted(need - acts)}")
    sizes = SIZES[run.tier]
    # quick: every operation on the smallest size, the larger one for reading the table back (to_list, array, tsv)
    work = [(r, n) for r in recs for n in sizes
            if run.tier != "quick" or n == sizes[0] or (r["act"] == "GetColumns" and odd_position(r) in (4, 5))]
    t0 = time.time()
    n_done = bad = 0
    with mp.get_context("fork").Pool(min(16, os.cpu_count() or 1), initializer=_worker_init) as pool:
        for (rec, n), out in zip(work, pool.imap(long_case, work, chunksize=4)):
            n_done += 1
            if out is None:
                continue
            bad += 1
            key, what, detail = out
            run.fail(key, {"case": {"act": rec["act"], "args": rec["args"], "model_table": rec["from"]["tab"]}, **detail},
                     what=f"{rec['act']} on {n} rows: {what}")
    print(f"[C20] Table/long: {n_done} scaled cases ({'/'.join(map(str, SIZES[run.tier]))} rows) on the real code, {bad} disagreements, {time.time() - t0:.1f}s", flush=True)
    stats["long"] = {"tlc_states": res.distinct, "tlc_transitions": res.generated, "cases": n_done, "disagreements": bad,
                     "sizes": list(SIZES[run.tier])}
    run.assumptions += [
        "LONG family: model instances are scaled by repeating rows (rule stated in Table.tla); a column holds one odd-typed cell; sorting is by the constant column (stable, nothing moves)",
    ]
    return n_done
