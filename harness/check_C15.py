"""C15 — distance estimation and distance-based trees are exact on exact data.

Specs: NJ.tla, UPGMA.tla (algorithms in exact integer/rational arithmetic; TLC proves
`Additive => Recovered` / `Ultrametric => Recovered` for every generator within the bounds and
every tie-break), Distance.tla (pairwise count matrices; symmetry, zero diagonal, column-order
independence, duplicate shortcut vs direct computation), DistanceCalls.tla (histories of builder / view
calls on ONE dict / DictArray / DistanceMatrix object: the object is left unchanged and every call
returns the spec's tree), NJTrees.tla / UPGMATrees.tla (tree enumeration, rationals, generators).

spec -> code: every generator / alignment TLC explored is fed to the real entry points
(nj, gnj, DistanceMatrix.quick_tree, app quick_tree, upgma; the *Pair calculators,
Alignment.distance_matrix, app fast_slow_dist) under several tip orders / column orders and
the result is compared with the spec's (path lengths, split or clade sets, branch lengths;
estimator values).  code -> spec: real nj() runs on seeded random NON-additive integer
matrices are recorded at PartialTree.join and validated by Trace_NJ.tla (each join is a
minimal-Q join of the spec, the final lengths are the spec's).
"""
from __future__ import annotations

import json
import multiprocessing as mp
import os
import sys
from concurrent.futures import ThreadPoolExecutor

from common import Run, main_wrapper
from tlc import MachineryError, Scratch, read_emitted, run_tlc

import replay_C15 as R

NPROC = int(os.environ.get("VERIF_C15_NPROC", "8"))

TIERS = {
    "quick": dict(
        nj=["MC_NJ_quick3.cfg", "MC_NJ_quick4.cfg", "MC_NJ_quick5.cfg"],
        upgma=["MC_UPGMA_quick3.cfg", "MC_UPGMA_quick4.cfg", "MC_UPGMA_quick5.cfg"],
        dist=["MC_Distance_quick_all.cfg", "MC_Distance_quick_pair.cfg", "MC_Distance_quick_s4.cfg",
              "MC_Distance_quick_blocks.cfg", "MC_Distance_quick_boundary.cfg", "MC_Distance_quick_singular.cfg"],
        calls=["MC_DistanceCalls_quick.cfg"],
        orders={3: "all", 4: 3, 5: 2, 6: 2},
        sample={},
        traces=150,
        scaled=dict(targets=[4_000_000], cases=["defined", "tn93:boundary"]),
    ),
    "thorough": dict(
        nj=["MC_NJ_quick3.cfg", "MC_NJ_quick4.cfg", "MC_NJ_thorough5.cfg", "MC_NJ_thorough5z.cfg",
            "MC_NJ_thorough6.cfg", "MC_NJ_thorough6z.cfg"],
        upgma=["MC_UPGMA_quick3.cfg", "MC_UPGMA_quick4.cfg", "MC_UPGMA_thorough5.cfg", "MC_UPGMA_thorough6.cfg"],
        dist=["MC_Distance_thorough_all.cfg", "MC_Distance_thorough_pair.cfg", "MC_Distance_thorough_l3.cfg",
              "MC_Distance_thorough_s4.cfg", "MC_Distance_thorough_blocks.cfg", "MC_Distance_thorough_boundary.cfg"],
        calls=["MC_DistanceCalls_thorough4.cfg", "MC_DistanceCalls_thorough5.cfg"],
        orders={3: "all", 4: "all", 5: 3, 6: 3},
        sample={"MC_NJ_thorough6.cfg": 4000, "MC_NJ_thorough6z.cfg": 1500},
        traces=1500,
        scaled=dict(targets=[1_000_000, 4_000_000, 10_000_000],
                    cases=["defined", "defined2", "tn93:boundary", "tn93:outside", "jc69:boundary", "det:boundary"]),
    ),
}
SPEC_OF = {"nj": "NJ", "upgma": "UPGMA", "dist": "Distance", "calls": "DistanceCalls"}


def model_jobs(conf):
    jobs = [(kind, cfg) for kind in ("nj", "upgma", "dist", "calls") for cfg in conf[kind]]
    big = lambda j: ("thorough" in j[1], "6" in j[1] or "all" in j[1] or "s4" in j[1])
    jobs.sort(key=big, reverse=True)  # big models first
    return jobs


def run_model(scratch, job):
    """One TLC run (the design-level invariants of the cfg are checked here)."""
    kind, cfg = job
    emit = scratch / f"emit-{cfg}.ndjson"
    res = run_tlc(SPEC_OF[kind], cfg, scratch, workers=2, heap="2g", env={"EMIT_FILE": emit}, timeout=1500)
    return job, res, emit


def dedup_tree_records(recs, what):
    """one record per generator; every tie-break path must have led to the same result (TLC's Recovered)"""
    by = {}
    for r in recs:
        k = json.dumps(r["from"], sort_keys=True)
        if what.startswith("MC_NJ"):  # clusters -> splits: tie-breaks may see an edge from either side
            allt = set(range(1, r["from"]["n"] + 1))
            norm = sorted(json.dumps([min(sorted(e[0]), sorted(allt - set(e[0]))), e[1]])
                          for e in r["to"]["edges"] if e[1][0] != 0)
        else:
            norm = sorted(json.dumps(e) for e in r["to"]["edges"])
        if k in by:
            if by[k][1] != norm:
                raise MachineryError(f"{what}: two tie-break paths of one generator differ although TLC passed")
            by[k][2] += 1
        else:
            by[k] = [r, norm, 1]
    return [v[0] for v in by.values()], sum(v[2] > 1 for v in by.values())


def chunks(seq, n):
    n = max(1, n)
    return [seq[i:i + n] for i in range(0, len(seq), n)]


def _warm():
    """import everything the workers need before forking"""
    import cogent3  # noqa
    import cogent3.cluster.UPGMA  # noqa
    import cogent3.evolve.fast_distance  # noqa
    import cogent3.phylo.nj  # noqa
    from cogent3 import make_aligned_seqs

    aln = make_aligned_seqs({"a": "ACGT", "b": "ACGA"}, moltype="dna")
    aln.distance_matrix(calc="tn93")  # loads the numba cache
    R.nj_entries("quick")


def check(run: Run):
    conf = TIERS[run.tier]
    import random
    import time

    import trace_C15

    rnd = random.Random(run.seed)
    stats = {}
    _warm()
    t_start = time.time()
    nontrivial = 0
    exhaustive = True
    domain = {}
    pending = []  # (kind, cfg, AsyncResult)
    ctx = mp.get_context("fork")
    with Scratch("C15") as scratch, ctx.Pool(NPROC) as pool, ThreadPoolExecutor(max_workers=4) as ex:
        # TLC runs (4 JVMs x 2 workers) side by side; each model is replayed on the real code
        # by the process pool as soon as its TLC run has finished
        futs = [ex.submit(run_model, scratch, job) for job in model_jobs(conf)]
        tfut = ex.submit(trace_C15.validate_collect, run.seed, scratch, conf["traces"])
        for fut in futs:
            (kind, cfg), res, emit = fut.result()
            run.add_tlc(res)
            recs = list(read_emitted(emit))
            if not recs:
                raise MachineryError(f"{cfg}: TLC emitted nothing")
            st = stats.setdefault(cfg, {"tlc_states": res.distinct, "tlc_wall_s": round(res.wall, 1)})
            if kind == "calls":
                recs.sort(key=lambda r: json.dumps([r["from"], r["act"]], sort_keys=True))
                st["call_transitions"] = len(recs)
                nontrivial += sum(bool(r["from"]["hist"]) for r in recs)
                for i, ch in enumerate(chunks(recs, 1 + len(recs) // (NPROC * 2))):
                    pending.append((kind, cfg, pool.apply_async(R.replay_calls, ((ch, run.seed + i, run.tier),))))
                mid = recs[len(recs) // 2]
                run.sample({"spec": "DistanceCalls", "cfg": cfg, "from": mid["from"], "act": mid["act"],
                            "to_ret_kind": mid["to"]["ret"]["kind"]})
            elif kind in ("nj", "upgma"):
                recs, tied = dedup_tree_records(recs, cfg)
                st["generators"] = len(recs)
                st["generators_with_several_final_states"] = tied
                recs.sort(key=lambda r: json.dumps(r["from"], sort_keys=True))
                cap = conf["sample"].get(cfg)
                if cap and len(recs) > cap:
                    recs = rnd.sample(recs, cap)
                    exhaustive = False
                st["generators_replayed"] = len(recs)
                n = recs[0]["from"]["n"]
                nontrivial += len(recs) if n >= 4 or kind == "upgma" else 0
                fn = R.replay_nj if kind == "nj" else R.replay_upgma
                for i, ch in enumerate(chunks(recs, 1 + len(recs) // (NPROC * 3))):
                    job = (ch, run.seed * 7919 + i, conf["orders"][n], run.tier)
                    pending.append((kind, cfg, pool.apply_async(fn, (job,))))
                run.sample({"spec": SPEC_OF[kind], "cfg": cfg, "record": recs[len(recs) // 2]})
            else:
                recs.sort(key=lambda r: json.dumps(r["to"]["seqs"]))
                st["alignments"] = len(recs)
                nontrivial += sum(any(p["diff"] > 0 for p in r["to"]["pairs"]) for r in recs)
                plan = "full" if "blocks" in cfg or "boundary" in cfg or "singular" in cfg else "small"
                for r in recs:  # how often each estimator's domain classes are met (exact, from TLC)
                    for p in r["to"]["pairs"]:
                        for est, cl in p["cls"].items():
                            domain[f"{est}:{cl}"] = domain.get(f"{est}:{cl}", 0) + 1
                for i, ch in enumerate(chunks(recs, 1 + len(recs) // (NPROC * 3))):
                    job = (ch, run.seed * 104729 + i, run.tier, plan)
                    pending.append((kind, cfg, pool.apply_async(R.replay_distance, (job,))))
                if "boundary" in cfg:  # ScaleInvariant on the real code: the same alignments at genome scale
                    for case in conf["scaled"]["cases"]:
                        pick = _pick_scaled(recs, case)
                        if pick is None:
                            raise MachineryError(f"{cfg}: no alignment for the large-count case {case}")
                        for target in conf["scaled"]["targets"]:
                            pending.append(("scaled", cfg, pool.apply_async(R.replay_scaled, ((pick, target),))))
                mid = recs[len(recs) // 2]
                run.sample({"spec": "Distance", "cfg": cfg, "seqs": ["".join(s) for s in mid["to"]["seqs"]],
                            "pairs": mid["to"]["pairs"][:1]})
        stats["_wall"] = {"all_tlc_done_s": round(time.time() - t_start, 1)}
        stats["estimator_domain_classes"] = dict(sorted(domain.items()))
        for need in ("jc69:boundary", "jc69:outside", "tn93:boundary", "tn93:outside", "det:boundary", "det:outside"):
            if not domain.get(need):
                raise MachineryError(f"no alignment of this tier reaches the estimator domain class {need}")
        for kind, cfg, ar in pending:
            res = ar.get()
            st = stats[cfg]
            st["impl_calls"] = st.get("impl_calls", 0) + res[0]
            run.cov["traces_validated_against_impl"] += res[0]
            if kind == "scaled":
                st["large_count_calls"] = st.get("large_count_calls", 0) + res[0]
            if kind == "calls":
                st["histories_not_reachable_on_the_real_object"] = st.get("histories_not_reachable_on_the_real_object", 0) + res[1]
            if kind == "dist":
                st["pairs_compared"] = st.get("pairs_compared", 0) + res[1]
                st["open_or_degenerate"] = st.get("open_or_degenerate", 0) + res[2]
            for key, detail in res[-1]:
                run.fail(key, {"cfg": cfg, **(detail or {})}, what=_what(key))
        stats["_wall"]["replay_done_s"] = round(time.time() - t_start, 1)
        # code -> spec
        trace_C15.report(run, tfut.result(), stats)
        stats["_wall"]["trace_done_s"] = round(time.time() - t_start, 1)

    run.note("per_model", stats)
    run.cov["evaluations"] = run.cov["traces_validated_against_impl"]
    run.cov["distinct_nontrivial"] = nontrivial
    run.cov["exhaustive"] = exhaustive
    run.cov["rule"] = (
        "cases = generators (labelled binary tree shape x integer edge lengths / node heights; internal length 0 = "
        "multifurcation) and alignments (all NSeq x NCol alignments over the alphabet; two-sequence alignments "
        "given by count matrices) enumerated exhaustively by TLC within the cfg bounds; each is run through every "
        "real entry point under several tip / column orders (evaluations = real API calls compared).  "
        "distinct_nontrivial = distinct generators with >= 4 tips (NJ) or any UPGMA generator, plus distinct "
        "alignments with at least one observed difference, plus DistanceCalls transitions made after at least one "
        "earlier call on the same object."
    )
    run.assumptions += [
        "numeric leaf: TLC supplies the exact integer count matrix / totals; the published closed forms (JC69, TN93 "
        "eq.7, Lake's paralinear, LogDet with and without the Tamura-Kumar correction) are applied to them in float64 "
        "by harness/replay_C15.formula and compared with rtol 1e-9 (observed noise on the unchanged tree <= 1e-15)",
        "estimator outcomes left open and not compared: hamming with no comparable column; TN93 when an average base "
        "frequency is 0; paralinear/LogDet when a diagonal count is 0 (cogent3 substitutes pseudo-counts there), equal "
        "sequences without any valid column; whether a pair is inside, exactly on the boundary of, or outside an estimator's domain is decided by TLC "
        "from exact integer log-argument numerators (no tolerance band); boundary, outside and undefined pairs must be "
        "nan, raise ArithmeticError from distance_matrix(), be dropped by drop_invalid, and no matrix may hold inf",
        "NJ / UPGMA generators: <= 6 tips, lengths / heights from the cfg sets; the 6-tip NJ generators are replayed "
        "on a seeded sample in the thorough tier (TLC checks all of them)",
        "large counts: the ScaleInvariant law is checked exactly by TLC for k in {2, 3}; on the real code the emitted "
        "alignment is repeated to 10**6 .. 10**7 columns (string repetition, public entry points: the calculators and "
        "Alignment.distance_matrix) for a few alignments per tier and must keep the small alignment's class and value",
        "gnj with its default keep (5n candidates) is compared only for n <= 5, where every topology is retained "
        "and the generator is the unique tree of minimal balanced length",
    ]


def _pick_scaled(recs, case):
    """first emitted two-sequence alignment (records are sorted) of the wanted domain class"""
    for r in recs:
        p = r["to"]["pairs"][0]
        cls = p["cls"]
        if case.startswith("defined"):
            ok = all(v == "defined" for v in cls.values()) and p["diff"] > 0 and r["to"]["canonical"]
            if ok and case == "defined2":
                ok = p["total"] >= 12 and p["diff"] >= 4
        else:
            est, want = case.split(":")
            ok = cls[est] == want
        if ok:
            return r
    return None


def _call(a):
    fn, job = a
    return fn(job)


def _what(key):
    if key.startswith("NJ:"):
        return "neighbour joining on an additive matrix did not return the generating tree"
    if key.startswith("UPGMA:"):
        return "UPGMA on an ultrametric matrix did not return the generating tree"
    if key.startswith("calls:"):
        return "a call on a distance-matrix object changed the object or did not return the spec's result"
    if key.startswith("trace:"):
        return "a recorded real NJ run is not a behaviour of NJ.tla"
    return "distance estimate differs from the published formula on TLC's exact counts"


if __name__ == "__main__":
    sys.exit(main_wrapper(check, "C15"))
