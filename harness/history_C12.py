"""C12 — histories (specs/GeneticCodeHistory.tla): every maximal sequence of questions emitted by TLC
is put to the real library IN ONE PRISTINE PROCESS (a child forked from a parent in which nothing has
been asked of any molecular type), in the emitted order, and every answer is compared with the answer
the spec emitted for that (history, question) transition.  Expected values come from the emitted
records only.
"""
from __future__ import annotations

import entry_C12 as E

NAME = E.NAME


def qkey(q):
    return (q["op"], q["mt"], "".join(q["s"]), tuple(sorted(q["set"])))


def hkey(hist):
    return tuple(qkey(q) for q in hist)


def paths(recs, max_hist):
    """maximal histories with the expected answer of every step"""
    ans = {(hkey(r["hist"]), qkey(r["q"])): r for r in recs}
    out = []
    for r in recs:
        if len(r["hist"]) + 1 != max_hist:
            continue
        qs = list(r["hist"]) + [r["q"]]
        steps = []
        for i, q in enumerate(qs):
            steps.append((q, ans[(hkey(qs[:i]), qkey(q))]["ans"]))
        out.append(steps)
    return out


def label(q):
    return f"{q['op']}({q['mt']})" if q["op"] != "TR" else "TR"


def observe(api, q):
    """-> list of (entry, observed) for one question, every flavour that offers it"""
    op, mt = q["op"], q["mt"]
    obs = []

    def add(entry, f, proj=lambda v: v):
        st, got = E.call(f)
        obs.append((entry, proj(got) if st == "ok" else f"raised {got}"))

    if op == "WA":
        S = sorted(q["set"])
        add("old-moltype.what_ambiguity", lambda: api.old_mt[mt].what_ambiguity(tuple(S)))
        add("old-moltype.what_ambiguity(str)", lambda: api.old_mt[mt].what_ambiguity("".join(S)))
        in_alpha = all(c in set(api.new_mt[mt].alphabet) for c in S)
        if in_alpha:  # degenerate_from_seq is defined for sets of the type's own characters
            add("old-moltype.degenerate_from_seq", lambda: api.old_mt[mt].degenerate_from_seq("".join(S)))
            add("new-moltype.degenerate_from_seq", lambda: api.new_mt[mt].degenerate_from_seq("".join(S)))
    elif op == "TR":
        s = "".join(q["s"])
        canonical = set(s) <= set("TCAG")
        kw = dict(gc=1, incomplete_ok=True)
        add("old-seq-dna.get_translation", lambda: str(api.old_seq(s, "dna").get_translation(**kw)))
        add("old-seq-rna.get_translation", lambda: str(api.old_seq(s, "rna").get_translation(**kw)))
        add("new-seq-dna.get_translation", lambda: str(api.new_seq(s, "dna").get_translation(**kw)))
        add("new-seq-rna.get_translation", lambda: str(api.new_seq(s, "rna").get_translation(**kw)))
        for entry in api.old_colls:
            add(f"{entry}.get_translation", lambda: str(api.old_coll(entry, {NAME: s}).get_translation(**kw).to_dict()[NAME]))
        add("new-SequenceCollection.get_translation", lambda: str(api.new_coll({NAME: s}).get_translation(**kw).to_dict()[NAME]))
        add("new-gc.translate", lambda: api.ngc(1).translate(s))
        if canonical:
            add("old-gc.translate", lambda: api.ogc(1).translate(s))
            add("old-gc.sixframes[0]", lambda: api.ogc(1).sixframes(api.old_seq(s, "dna"))[0])
            add("app.translate_seqs", lambda: str(api.translate_seqs(1, True)(api.old_coll("old-SequenceCollection", {NAME: s})).to_dict()[NAME]))
    elif op == "CP":
        s = "".join(q["s"])
        add("old-moltype.complement", lambda: api.old_mt[mt].complement(s))
        add("new-moltype.complement", lambda: api.new_mt[mt].complement(s))
        add("old-seq.complement", lambda: str(api.cogent3.make_seq(s, name=NAME, moltype=mt).complement()))
        add("new-seq.complement", lambda: str(api.new_mt[mt].make_seq(seq=s, name=NAME).complement()))
    elif op == "RS":
        x = q["s"][0]
        add("old-moltype.resolve_ambiguity", lambda: sorted(api.old_mt[mt].resolve_ambiguity(x)))
        add("new-moltype.resolve_ambiguity", lambda: sorted(api.new_mt[mt].resolve_ambiguity(x)))
    return obs


def expected(q, ans):
    return sorted(ans["set"]) if q["op"] == "RS" else "".join(ans["str"])


def run_history(steps):
    """executed in a pristine child: -> (n observations, [(key, detail, what)])"""
    api = E.Api.get()
    fails = []
    n = 0
    before = []
    for q, ans in steps:
        want = expected(q, ans)
        for entry, got in observe(api, q):
            n += 1
            if got != want:
                cls = "degenerate" if q["op"] == "TR" and not set(q["s"]) <= set("TCAG") else "canonical" if q["op"] == "TR" else "set" if q["op"] == "WA" else "symbol"
                after = ",".join(before) or "nothing"
                key = f"History:{label(q)}:{entry}:{cls}:after={after}"
                fails.append(
                    (
                        key,
                        {
                            "entry_point": entry,
                            "history": [{"op": p["op"], "mt": p["mt"], "s": "".join(p["s"]), "set": sorted(p["set"])} for p, _ in steps],
                            "question": {"op": q["op"], "mt": q["mt"], "s": "".join(q["s"]), "set": sorted(q["set"])},
                            "expected": want,
                            "observed": got,
                        },
                        f"answer depends on what was asked before ({after})" if before else "first question of a fresh process",
                    )
                )
        before.append(label(q))
    return n, fails
