"""C14 growth (b): composing, using, disconnecting and re-composing the same app objects -
ComposedAppLinks.tla.  Every transition TLC explores is replayed on six real app objects
(apps_C14.lk_*, write_seqs); the `.input` links are read back from the objects.  Variant 1
first runs the objects through a full pipeline (single calls and an apply_to) and disconnects
them, so a used app must behave like a new one."""
from __future__ import annotations

import re
import shutil
import tempfile
import traceback
from pathlib import Path

from graph import Adapter

NAMES = {"lk_load": "L", "lk_a": "A", "lk_p": "P", "lk_r": "R", "lk_x": "X", "write_seqs": "W"}


class Ctx:
    pass


def status(k):
    return {"k": k, "origin": "-", "msg": "-", "trail": []}


class LinksAdapter(Adapter):
    variants = (0, 1)

    def __init__(self, root, apps="LAPRXW"):
        self.root = str(root)
        self.names = list(apps)

    def fresh(self, variant):
        import apps_C14 as A
        from cogent3.app import io
        from cogent3.app.data_store import DataStoreDirectory

        ctx = Ctx()
        ctx.dir = Path(tempfile.mkdtemp(prefix="c14l-", dir=self.root))
        for name in ("good", "bad"):
            (ctx.dir / f"{name}.fasta").write_text(">id\nACGT\n")
        ctx.store = DataStoreDirectory(ctx.dir / "out", mode="w", suffix="fasta")
        make = {"L": A.lk_load, "A": A.lk_a, "P": A.lk_p, "R": A.lk_r, "X": A.lk_x, "W": lambda: io.write_seqs(ctx.store)}
        ctx.apps = {k: make[k]() for k in self.names}
        if variant == 1:
            # a history: the objects have been part of a pipeline that was used and taken apart
            a = ctx.apps
            pipe = a["L"] + a["P"] + a["A"] + a["R"] + a["W"]
            for name in ("good", "bad"):
                pipe(str(ctx.dir / f"{name}.fasta"))
            pipe.apply_to([str(ctx.dir / "good.fasta"), str(ctx.dir / "bad.fasta")], logger=False)
            pipe.disconnect()
            if "X" in a:
                a["X"].disconnect()
            shutil.rmtree(ctx.dir / "out")
            ctx.store = DataStoreDirectory(ctx.dir / "out", mode="w", suffix="fasta")
            a["W"].data_store = ctx.store
        return ctx

    def cleanup(self, ctx):
        shutil.rmtree(ctx.dir, ignore_errors=True)

    # ---------------------------------------------------------------------------
    def apply(self, ctx, act, args):
        a = ctx.apps
        try:
            if act == "Add":
                r = a[args[0]] + a[args[1]]
                return status("ok" if r is a[args[1]] else "ok-but-returns-another-object")
            if act == "AddJunk":
                a[args[0]] + 5
                return status("ok")
            if act == "Disconnect":
                a[args[0]].disconnect()
                return status("ok")
            if act == "ApplyTo":
                a["W"].apply_to([str(ctx.dir / "good.fasta")], logger=False)
                return status("ok")
            if act == "Call":
                return self._call(ctx, *args)
        except (ValueError, TypeError, RuntimeError) as ex:
            ctx.last_exc = repr(ex)
            return status(type(ex).__name__)
        except Exception as ex:  # noqa
            ctx.last_exc = traceback.format_exc()[-1500:]
            return status(f"raised:{type(ex).__name__}")
        raise ValueError(act)

    def _root(self, app):
        while getattr(app, "input", None) is not None:
            app = app.input
        return app

    def _call(self, ctx, name, flag):
        import apps_C14 as A
        from cogent3.app.composable import NotCompleted
        from cogent3.app.data_store import DataMember

        app = ctx.apps[name]
        path = str(ctx.dir / f"{flag}.fasta")
        val = path if self._root(app) is ctx.apps["L"] else A.lk_value(path)
        r = app(val)
        if isinstance(r, NotCompleted):
            msg = "invalid-type" if str(r.message).startswith("invalid data type") else "exception" if "LkError: bad record" in str(r.message) else "other"
            src_ok = r.source and Path(str(r.source)).name == f"{flag}.fasta"
            return {"k": "nc", "origin": NAMES.get(str(r.origin), str(r.origin)), "msg": msg if src_ok else msg + "+source-lost", "trail": []}
        if isinstance(r, DataMember):
            if Path(str(r.unique_id)).name != f"{flag}.fasta":
                return status("written-under-another-identifier")
            lines = [l.strip() for l in r.read().splitlines() if l.startswith(">")]
            return {"k": "written", "origin": "-", "msg": "-", "trail": self._trail([l[1:] for l in lines])}
        return {"k": "val", "origin": "-", "msg": "-", "trail": self._trail(list(r.names))}

    def _trail(self, names):
        out = []
        for n in sorted((x for x in names if x != "id"), key=lambda x: int(re.match(r"n(\d+)", x).group(1))):
            mark = re.match(r"n\d+(.*)", n).group(1)
            if mark.startswith("recovered"):
                mark = "recovered:" + NAMES.get(mark[len("recovered"):], mark[len("recovered"):])
            out.append(mark)
        return out

    def project(self, ctx):
        link = {}
        by_id = {id(v): k for k, v in ctx.apps.items()}
        for k, app in ctx.apps.items():
            inp = getattr(app, "input", None)
            link[k] = "none" if inp is None else by_id.get(id(inp), "unknown-object")
        return {"link": link}

    def ret_matches(self, spec_ret, real_ret):
        return spec_ret == real_ret

    def finding_key(self, status_, detail):
        act, args = detail["label"]
        role = {"L": "loader", "W": "writer", "R": "optin"}
        what = act
        if act == "Add":
            what = f"Add({role.get(args[0], 'generic')},{role.get(args[1], 'generic')})"
        elif act in ("Call", "Disconnect"):
            what = f"{act}({role.get(args[0], 'generic')})"
        if status_ != "mismatch":
            return f"links:{what}:{status_}"
        obs = detail["observed"]
        exp = detail["allowed"][0]
        d = []
        if exp["ret"] != obs["ret"]:
            d.append(f"ret:{exp['ret']['k']}->{obs['ret']['k']}" + ("" if exp["ret"]["k"] != obs["ret"]["k"] else ":" + "+".join(f for f in ("origin", "msg", "trail") if exp["ret"][f] != obs["ret"][f])))
        if exp["to"] != obs["state"]:
            d.append("links-differ")
        hist = "used-before:" if detail.get("variant") else ""
        return f"links:{hist}{what}:" + ",".join(d or ["?"])
