"""C01 growth: collections whose members are views of one parent (SeqViewColl.tla).

Every transition TLC emits (take_seqs / take_seqs_if / rename_seqs / rc / degap)
is applied to a real old-style and a real new-style SequenceCollection built by
the recorded chain of calls from three views of one parent sequence; the result
is read back through the collection API and compared with the Observe record of
the successor state.  The receiver collection must read the same afterwards.
"""
from __future__ import annotations

import json
import multiprocessing as mp
import random
import time
from collections import Counter, defaultdict

from tlc import read_emitted, run_tlc

G = {}
KINDS = ("old", "new")


def J(x):
    return json.dumps(x, separators=(",", ":"))


def S(chars):
    return "".join(chars)


def make(kind, meta, off):
    none = meta["none"]
    py = lambda x: None if x == none else x
    P = S(meta["parent"])
    if kind == "old":
        import cogent3

        p = cogent3.make_seq(P, name="p", moltype="dna", annotation_offset=off)
        mk = lambda d: cogent3.make_unaligned_seqs(d, moltype="dna")
    else:
        from cogent3.core import new_alignment
        from cogent3.core.new_moltype import get_moltype

        p = get_moltype("dna").make_seq(seq=P, name="p", annotation_offset=off)
        mk = lambda d: new_alignment.make_unaligned_seqs(d, moltype="dna")
    members = {}
    for name, a, b, k, rc in meta["made"]:
        v = p[slice(py(a), py(b), py(k))]
        members[name] = v.rc() if rc else v
    return mk(members)


def apply(c, act, args, meta):
    if act == "Take":
        return c.take_seqs(list(args[0]), negate=bool(args[1]))
    if act == "TakeIf":
        k = args[0]
        return c.take_seqs_if(lambda s: len(s) > k)
    if act == "Rename":
        nn = meta["newname"]
        return c.rename_seqs(lambda n: nn.get(n, n))
    if act == "Rc":
        return c.rc()
    if act == "Degap":
        return c.degap()
    if act == "ToRna":
        return c.to_rna()
    if act == "Add":
        name, a, b = meta["added"]
        seq = S(meta["parent"][a:b])
        if c.moltype.label == "rna":
            seq = seq.replace("T", "U")  # the same residues, written for the collection's molecule type
        if type(c).__module__.endswith("new_alignment"):
            return c.add_seqs({name: seq})
        import cogent3

        return c.add_seqs(cogent3.make_unaligned_seqs({name: seq}, moltype=c.moltype.label))
    raise ValueError(act)


def read_back(c):
    names = list(c.names)
    d = c.to_dict()
    out = {"names": names, "seqs": [], "dict": [str(d[n]) for n in names], "coords": [], "num": int(c.num_seqs)}
    for n in names:
        s = c.get_seq(n)
        out["seqs"].append(str(s))
        out["coords"].append(list(s.parent_coordinates()) if len(s) else None)
    return out


def diffs(got, obs):
    want_seqs = [S(x) for x in obs["seqs"]]
    out = []
    if got["names"] != obs["names"]:
        out.append("names")
    if got["num"] != len(obs["names"]):
        out.append("num_seqs")
    if got["seqs"] != want_seqs:
        out.append("get_seq")
    if got["dict"] != want_seqs:
        out.append("to_dict")
    if not out:
        for pc, alts in zip(got["coords"], obs["where"]):
            if not alts or pc is None:
                continue
            if not any(pc[0] == a[0] and pc[3] == a[1] and a[2] <= pc[1] <= a[3] and a[4] <= pc[2] <= a[5] for a in alts):
                out.append("coords")
                break
    return out


def state_class(state):
    ms = state[2]
    c = []
    if any(m[3] for m in ms):
        c.append("flipped")
    if any(m[4] for m in ms):
        c.append("degapped")
    if any(m[5] for m in ms):
        c.append("renamed")
    if state[1] == "rna":
        c.append("rna")
    if any(m[0] in ("d", "D1") for m in ms):
        c.append("added")
    elif len(ms) < 3:
        c.append("subset")
    return ",".join(c) or "made"


def job(task):
    kind, off, keys = task
    meta, observe, parent = G["meta"], G["observe"], G["parent"]
    succ = G["succ"]
    fails = {}
    stats = Counter()

    def fail(key, detail, what):
        if key in fails:
            fails[key][0] += 1
        else:
            fails[key] = [1, detail, what]

    cache = {}

    def build(key):
        if key in cache:
            return cache[key]
        if key not in parent:
            c = make(kind, meta, off)
        else:
            pk, act, args = parent[key]
            pc = build(pk)
            try:
                c = apply(pc, act, args, meta) if pc is not None else None
                if c is not None and diffs(read_back(c), observe[key]["obs"]):
                    c = None
            except Exception:
                c = None
        cache[key] = c
        return c

    for key in keys:
        c = build(key)
        if c is None:
            stats["unreachable"] += 1
            continue
        state = json.loads(key)
        before = read_back(c)
        d0 = diffs(before, observe[key]["obs"])
        stats["answers"] += 1
        if d0:
            fail(f"{kind}:coll:Observe:{state_class(state)}:" + ",".join(d0), {"kind": kind, "state": state, "observed": before, "expected": observe[key]["obs"]}, f"collection reads back differently: {d0}")
        for act, args, tk in succ[key]:
            stats["answers"] += 1
            ctx = {"kind": kind, "offset": off, "from": state, "act": act, "args": args, "expected": observe[tk]["obs"]}
            try:
                r = apply(c, act, args, meta)
                got = read_back(r)
            except Exception as ex:
                fail(f"{kind}:coll:{act}:{state_class(state)}:raised-{type(ex).__name__}", {**ctx, "exception": repr(ex)}, f"{act}{args} raised {ex!r}")
                continue
            dd = diffs(got, observe[tk]["obs"])
            if dd:
                fail(f"{kind}:coll:{act}:{state_class(state)}:" + ",".join(dd), {**ctx, "observed": got}, f"{act}{args}: {dd} differ")
            if read_back(c) != before:
                fail(f"{kind}:coll:{act}:{state_class(state)}:mutates-receiver", {**ctx, "before": before, "after": read_back(c)}, f"{act}{args} changed the collection it was called on")
                cache.pop(key, None)
                c = build(key)
                if c is None:
                    break
    return fails, dict(stats)


def tlc_coll(scratch, tier):
    emit = scratch / "emit-coll.ndjson"
    res = run_tlc("SeqViewColl", f"MC_SeqViewColl_{tier}.cfg", scratch, workers=1, env={"EMIT_FILE": emit}, timeout=900)
    return res, emit


def stage_coll(run, scratch, tier, totals, tm, pre=None):
    res, emit = pre if pre is not None else tlc_coll(scratch, tier)
    run.add_tlc(res)
    tm["coll.tlc"] = round(res.wall, 1)
    t0 = time.time()
    observe, succ, meta = {}, defaultdict(list), None
    edges = defaultdict(list)
    for r in read_emitted(emit):
        fk = J(r["from"])
        if r["act"] == "Observe":
            observe[fk] = r
            meta = meta or {k: r[k] for k in ("parent", "made", "none", "newname", "added")}
        else:
            edges[fk].append((r["act"], r["args"], J(r["to"])))
    emit.unlink()
    rnd = random.Random(f"C01-coll-{run.seed}")
    tasks = []
    parent = {}
    # initial states: all three members, nothing flipped / degapped / renamed
    inits = [k for k in observe if json.loads(k)[1] == "dna" and [m[0] for m in json.loads(k)[2]] == ["a", "b", "c"] and not any(m[3] or m[4] or m[5] for m in json.loads(k)[2])]
    by_off = defaultdict(list)
    seen = set(inits)
    frontier = list(inits)
    while frontier:
        nxt = []
        for f in frontier:
            by_off[json.loads(f)[0]].append(f)
            for act, args, t in sorted(edges[f], key=J):
                if t not in seen:
                    seen.add(t)
                    parent[t] = (f, act, args)
                    nxt.append(t)
        frontier = nxt
    for f, es in edges.items():
        es = [e for e in es if e[2] != f]
        if tier == "quick":  # quick: two seeded take_seqs selections per state besides the other calls
            keep = [e for e in es if e[0] != "Take"]
            takes = sorted((e for e in es if e[0] == "Take"), key=J)
            rnd.shuffle(takes)
            es = keep + takes[:2]
        succ[f] = es
    if tier == "quick":  # quick: a seeded sample of the states (each still reached by its recorded chain of calls)
        for off in by_off:
            keys = sorted(by_off[off])
            rnd.shuffle(keys)
            by_off[off] = sorted(set(keys[:90]) | {k for k in inits if json.loads(k)[0] == off})
    G.update(meta=meta, observe=observe, parent=parent, succ=succ)
    for off, keys in by_off.items():
        for kind in KINDS:
            n = 4
            for i in range(n):
                tasks.append((kind, off, keys[i::n]))
    agg = Counter()
    ctx = mp.get_context("fork")
    with ctx.Pool(min(16, len(tasks))) as pool:
        for fails, stats in pool.imap_unordered(job, tasks):
            agg.update(stats)
            for key, (n, detail, what) in fails.items():
                run.fail(key, detail, what=what)
                for _ in range(min(n - 1, 100000)):
                    run.fail(key, {}, what=what)
    totals["coll_answers"] += agg["answers"]
    totals["coll_unreachable"] += agg["unreachable"]
    totals["coll_states"] += sum(len(v) for v in by_off.values())
    tm["coll.replay"] = round(time.time() - t0, 1)
    k = inits[0] if inits else None
    if k:
        run.sample({"spec": "SeqViewColl", "state": json.loads(k), "reads": observe[k]["obs"]})
