"""C13 — data stores hold exactly what was written (DataStore.tla).

spec -> code: every transition of the exhaustive DataStore model is replayed on a
real DataStoreDirectory and a real DataStoreSqlite (path replay from a fresh
store, two observation variants: observe-at-end / observe-after-every-step so
that the lazy member caches are exercised both ways).  Projection reads the
store through its public API *and* through a freshly opened read-only store
(disk truth); both must equal the spec successor.
code -> spec: recorded executions of the repository's own data-store tests and
seeded random drivers are validated by Trace_DataStore (see trace_C13).
"""
from __future__ import annotations

import hashlib
import json
import os
import shutil
import sys
import tempfile
from pathlib import Path

from common import Run, main_wrapper
from graph import Adapter, Graph, explore, skey
from tlc import Scratch, read_emitted, run_tlc

SUFFIX = "fasta"
NONE = "None"


def md5(text: str) -> str:
    return hashlib.md5(text.encode("utf8")).hexdigest()


class Ctx:
    pass


class StoreAdapter(Adapter):
    variants = (0, 1)
    kind = "?"

    def __init__(self, ids, logids, root):
        self.ids = list(ids)
        self.logids = list(logids)
        self.root = root

    # ---- store-kind specifics -------------------------------------------
    def open(self, ctx, mode):
        raise NotImplementedError

    def close(self, ctx):
        pass

    def cid(self, i):  # member id of completed record i
        raise NotImplementedError

    def ncid(self, i):
        raise NotImplementedError

    def logid(self, l):
        raise NotImplementedError

    def arg_id(self, i, al):
        return i

    # ---- Adapter API --------------------------------------------------------
    def fresh(self, variant):
        ctx = Ctx()
        ctx.dir = Path(tempfile.mkdtemp(prefix="c13-", dir=self.root))
        ctx.variant = variant
        ctx.lastlog = {}
        ctx.fresh = True
        ctx.ds = self.open(ctx, "w")
        return ctx

    def cleanup(self, ctx):
        try:
            self.close(ctx)
        except Exception:
            pass
        shutil.rmtree(ctx.dir, ignore_errors=True)

    def apply(self, ctx, act, args):
        ds = ctx.ds
        ctx.fresh = act == "Reopen"
        try:
            if act == "Write":
                i, d, al = args
                ds.write(unique_id=self.arg_id(i, al), data=d)
            elif act == "WriteNC":
                i, d, al = args
                ds.write_not_completed(unique_id=self.arg_id(i, al), data=d)
            elif act == "WriteLog":
                l, d = args
                ds.write_log(unique_id=l, data=d)
                if ds.mode.value != "r":
                    ctx.lastlog[l] = d
            elif act == "DropNC":
                i, al = args
                ds.drop_not_completed(unique_id=self.arg_id(i, al))
            elif act == "DropAllNC":
                ds.drop_not_completed()
            elif act == "Reopen":
                self.close(ctx)
                ctx.ds = self.open(ctx, args[0])
            else:
                raise ValueError(act)
            ret = "ok"
        except Exception as ex:
            ctx.last_exc = repr(ex)
            ret = "raised"
        if ctx.variant == 1:
            # observation through the live object populates its member caches
            _ = [m.unique_id for m in ctx.ds.completed]
            _ = [m.unique_id for m in ctx.ds.not_completed]
        return ret

    md5_blind = False

    def observe(self, ds, anomalies, tag):
        comp = {i: NONE for i in self.ids}
        nc = {i: NONE for i in self.ids}
        logs = {l: False for l in self.logids}
        cids = {self.cid(i): i for i in self.ids}
        ncids = {self.ncid(i): i for i in self.ids}
        lids = {self.logid(l): l for l in self.logids}
        seen = set()
        for m in ds.completed:
            u = str(m.unique_id)
            if u in seen:
                anomalies.append(f"{tag}:duplicate-completed-member")
            seen.add(u)
            if u not in cids:
                anomalies.append(f"{tag}:unknown-completed-member")
                continue
            data = ds.read(u)
            comp[cids[u]] = data
            if ds.md5(u) != md5(data):
                anomalies.append(f"{tag}:completed-md5-wrong" if ds.md5(u) else f"{tag}:completed-md5-missing")
            if m.read() != data or u not in ds:
                anomalies.append(f"{tag}:member-api-disagrees")
        seen = set()
        for m in ds.not_completed:
            u = str(m.unique_id)
            if u in seen:
                anomalies.append(f"{tag}:duplicate-nc-member")
            seen.add(u)
            if u not in ncids:
                anomalies.append(f"{tag}:unknown-nc-member")
                continue
            data = ds.read(u)
            nc[ncids[u]] = data
            if ds.md5(u) != md5(data):
                anomalies.append(f"{tag}:nc-md5-wrong" if ds.md5(u) else f"{tag}:nc-md5-missing")
        for m in ds.logs:
            u = str(m.unique_id)
            if u in lids:
                logs[lids[u]] = True
        if len(ds.members) != len(ds.completed) + len(ds.not_completed) or len(ds) != len(ds.members):
            anomalies.append(f"{tag}:members-len")
        return comp, nc, logs

    def project(self, ctx):
        anomalies = []
        comp, nc, logs = self.observe(ctx.ds, anomalies, "live")
        state = {"comp": comp, "nc": nc, "logs": logs, "mode": ctx.ds.mode.value, "fresh": ctx.fresh}
        # validate() must report every member's checksum as correct
        try:
            v = ctx.ds.validate()
            d = dict(v.to_list())
            nmem = sum(x != NONE for x in comp.values()) + sum(x != NONE for x in nc.values())
            if not any("wrong" in a or "missing" in a for a in anomalies):
                if d["Num md5sum correct"] != nmem or d["Num md5sum incorrect"] or d["Num md5sum missing"]:
                    anomalies.append("live:validate-disagrees")
        except Exception as ex:  # noqa
            anomalies.append("live:validate-raised")
        # describe: the three cardinalities of the abstract state (DataStore.tla Describe)
        try:
            dd = dict(ctx.ds.describe.to_list())
            want = {"completed": sum(x != NONE for x in comp.values()), "not_completed": sum(x != NONE for x in nc.values()), "logs": len(ctx.ds.logs)}
            if not any("unknown" in a or "duplicate" in a for a in anomalies) and dd != want:
                anomalies.append("live:describe-disagrees")
        except Exception as ex:  # noqa
            anomalies.append("live:describe-raised")
        # disk truth: what a newly opened read-only store sees
        ro = self.open_ro(ctx)
        try:
            a2 = []
            c2, n2, l2 = self.observe(ro, a2, "disk")
            if (c2, n2, l2) != (comp, nc, logs):
                anomalies.append("live-and-disk-differ")
                state["_disk"] = {"comp": c2, "nc": n2, "logs": l2}
            anomalies.extend(a2)
            for l, d in ctx.lastlog.items():
                if self.read_log(ro, l) != d:
                    anomalies.append("disk:log-content-wrong")
        finally:
            self.close_ro(ro)
        self.extra_views(ctx, comp, nc, logs, anomalies)
        if self.md5_blind:
            # second pass of the directory store: the ONE recorded root cause (a single md5 file per identifier) is taken
            # out of the observation, so that the states it leads to - an identifier that is completed AND not-completed -
            # are explored too instead of ending the history at the known finding
            anomalies = [a for a in anomalies if "completed-md5" not in a]
            ctx.detail = {"md5_blind": True}
        if anomalies:
            state["anomalies"] = sorted(set(anomalies))
        return state

    def extra_views(self, ctx, comp, nc, logs, anomalies):
        pass

    def finding_key(self, status, detail):
        act, args = detail["label"]
        f = detail["from"]
        pre = "-"
        me = None
        if act in ("Write", "WriteNC", "DropNC"):
            me = args[0]
            pre = ("C" if f["comp"][me] != NONE else "") + ("N" if f["nc"][me] != NONE else "") or "-"
            al = args[-1]
            pre += "+alias" if al else ""
            same = act != "DropNC" and (f["comp"][me] == args[1] or f["nc"][me] == args[1])
        if status != "mismatch":
            return f"{self.kind}:{act}:mode={f['mode']}:pre={pre}:{status}"
        obs = detail["observed"]["state"]
        best = None
        for a in detail["allowed"]:
            diffs = set()
            for fld in ("comp", "nc"):
                for i in self.ids:
                    if obs[fld].get(i) != a["to"][fld][i]:
                        diffs.add(f"{fld}[{'self' if i == me else 'other'}]")
                for i in obs[fld]:
                    if i not in a["to"][fld]:
                        diffs.add(f"{fld}[unknown]")
            if obs["logs"] != a["to"]["logs"]:
                diffs.add("logs")
            if obs["mode"] != a["to"]["mode"]:
                diffs.add("mode")
            if a["ret"] != detail["observed"]["ret"]:
                diffs.add("ret=" + str(detail["observed"]["ret"]))
            for an in obs.get("anomalies", []):
                diffs.add(an)
            if best is None or len(diffs) < len(best):
                best = diffs
        best = best or {"?"}
        if self.kind == "dir" and act == "WriteNC" and f["mode"] == "a" and pre.startswith("N") and "ret=ok" in best and best <= {"ret=ok", "nc[self]"}:
            # root cause: write_not_completed in append mode replaces an existing not-completed record
            # (re-running apply_to relies on it); completed records are protected
            return "dir:append-rewrites-not-completed"
        if self.kind == "dir" and all(d.startswith("zip") for d in best) and any(ch in i for i in self.ids for ch in "[]*?"):
            # root cause: ReadOnlyDataStoreZipped looks its members up with Path.match, which reads an identifier as a glob
            # pattern (gene[1] matches gene1, never itself): the zipped view of a store holding such identifiers differs
            return "dir:zipped-view:identifier-read-as-glob-pattern:" + ",".join(sorted(best))
        if self.kind == "dir" and all("completed-md5" in d for d in best):
            # root cause: a directory store keeps ONE md5 file (md5/<id>.txt) for the completed
            # and the not-completed record of an identifier
            ids = [me] if me is not None else self.ids
            coexist = any(
                f["comp"][i] != NONE and (f["nc"][i] != NONE or (act == "WriteNC" and i == me)) for i in ids
            )
            if coexist:
                return f"dir:shared-md5-file:{act}"
        return f"{self.kind}:{act}:mode={f['mode']}:pre={pre}:" + ",".join(sorted(best))


class DirAdapter(StoreAdapter):
    kind = "dir"

    def obs_matches(self, spec_obs, ctx, real_ret):
        return spec_obs in (None, "any", "separate-identifiers")

    def open(self, ctx, mode):
        from cogent3.app.data_store import DataStoreDirectory

        return DataStoreDirectory(ctx.dir / "store", mode=mode, suffix=SUFFIX)

    def open_ro(self, ctx):
        from cogent3.app.data_store import DataStoreDirectory

        return DataStoreDirectory(ctx.dir / "store", mode="r", suffix=SUFFIX)

    def close_ro(self, ro):
        pass

    def read_log(self, ro, l):
        return ro.read(self.logid(l))

    def cid(self, i):
        return f"{i}.{SUFFIX}"

    def ncid(self, i):
        return f"not_completed/{i}.json"

    def logid(self, l):
        return f"logs/{l}.log"

    def arg_id(self, i, al):
        return f"{i}.{SUFFIX}" if al else i


def _zip_view(self, ctx, comp, nc, logs, anomalies):
    """The read-only zipped view of a directory store is another observation of the same dictionary:
    zip the directory (as a user would to share it) and read it through ReadOnlyDataStoreZipped."""
    import hashlib as _h

    if int(_h.md5(skey([comp, nc]).encode()).hexdigest(), 16) % 4:
        return  # every 4th state
    from cogent3.app.data_store import ReadOnlyDataStoreZipped

    base = ctx.dir / "zipped" / "store"
    shutil.rmtree(ctx.dir / "zipped", ignore_errors=True)
    (ctx.dir / "zipped").mkdir()
    arc = shutil.make_archive(str(base), "zip", root_dir=str(ctx.dir), base_dir="store")
    try:
        z = ReadOnlyDataStoreZipped(arc, suffix=SUFFIX)
        a2 = []
        c2, n2, l2 = self.observe(z, a2, "zip")
        if (c2, n2) != (comp, nc):
            anomalies.append("zip-view-differs")
        anomalies.extend(a for a in a2 if "md5" in a or "unknown" in a or "duplicate" in a)
    except Exception as ex:
        ctx.last_exc = repr(ex)
        anomalies.append(f"zip-view-raised:{type(ex).__name__}")


DirAdapter.extra_views = _zip_view


class SqliteAdapter(StoreAdapter):
    kind = "sqlite"

    def obs_matches(self, spec_obs, ctx, real_ret):
        return spec_obs in (None, "any", "shared-identifiers")

    def open(self, ctx, mode):
        from cogent3.app.sqlite_data_store import DataStoreSqlite

        ds = DataStoreSqlite(ctx.dir / "store.sqlitedb", mode=mode)
        _ = ds.db  # connect (creates the file in w/a modes)
        return ds

    def close(self, ctx):
        ds = ctx.ds
        try:
            ds.unlock(force=True)
        except Exception:
            pass
        ds.close()

    def open_ro(self, ctx):
        from cogent3.app.sqlite_data_store import DataStoreSqlite

        return DataStoreSqlite(ctx.dir / "store.sqlitedb", mode="r")

    def close_ro(self, ro):
        ro.close()

    def read_log(self, ro, l):
        # one log row per session: the latest row with that name holds the last content
        rows = ro.db.execute("SELECT data FROM logs WHERE log_name=? ORDER BY log_id", (l,)).fetchall()
        return rows[-1]["data"] if rows else None

    def cid(self, i):
        return i

    def ncid(self, i):
        return i

    def logid(self, l):
        return f"logs/{l}"


def model(run, cfg, scratch, emit_name):
    emit = scratch / emit_name
    res = run_tlc("DataStore", cfg, scratch, workers=16, env={"EMIT_FILE": emit}, coverage=False)
    run.add_tlc(res)
    return list(read_emitted(emit)), res


def check(run: Run):
    tier = run.tier
    # two instantiations of the constants: (1) identifiers related as affixes of one another, two non-empty payloads;
    # (2) identifiers that begin with the names of the store's own tables / sub-directories (results_, logs_) and an
    # EMPTY payload (a legal record whose file has zero bytes)
    # (3) identifiers that contain dots (gene / gene.1: what apply_to derives from gene.fasta, gene.1.fasta)
    cfgs = (["MC_DataStore_quick.cfg", "MC_DataStore_quick_names.cfg", "MC_DataStore_quick_dots.cfg"] if tier == "quick"
            else ["MC_DataStore_thorough.cfg", "MC_DataStore_thorough_names.cfg", "MC_DataStore_thorough_dots.cfg"])
    # (4) ONE identifier: small enough (108 states) that every transition is replayed without a budget in both tiers -
    # every history of one identifier, to any depth: completed and not-completed at once, re-opened in every mode, refused
    cfgs.append("MC_DataStore_single.cfg")
    # (5) identifiers that are legal file names but read as PATTERNS by glob / fnmatch / Path.match (gene[1] matches gene1):
    # an identifier is a name, never a pattern.  Half a share of the quick budget (the first levels are replayed completely)
    cfgs.append("MC_DataStore_glob.cfg")
    if os.environ.get("VERIF_C13_CFGS"):
        cfgs = [c for c in cfgs if any(w in c for w in os.environ["VERIF_C13_CFGS"].split(","))]  # development aid
    logids = ["l1"]
    with Scratch("C13") as scratch:
        stats = {}
        # thorough: the three-identifier instantiations have ~1e5 transitions each and three passes; replaying all of them
        # takes about 100 minutes, so the thorough tier is budgeted too (about 7x the quick budget, stratified by action, the first
        # levels complete); VERIF_C13_BUDGET=0 removes the budget.  The one-identifier instantiation is always exhaustive.
        total = int(os.environ.get("VERIF_C13_BUDGET", "60000" if tier == "thorough" else "9000")) or None
        for ci, cfg in enumerate(cfgs):
            recs, res = model(run, cfg, scratch, f"emit{ci}.ndjson")
            ids = sorted(recs[0]["from"]["comp"])
            init = {"comp": {i: NONE for i in ids}, "nc": {i: NONE for i in ids}, "logs": {l: False for l in logids}, "mode": "w", "fresh": True}
            g_dir = Graph(recs)
            g_sql = Graph(r for r in recs if not (r["act"] in ("Write", "WriteNC", "DropNC") and r["args"][-1]))
            nshares = max(1, sum(1 for c in cfgs if "single" not in c and "glob" not in c))
            budget = None if total is None or cfg == "MC_DataStore_single.cfg" else total // nshares
            if budget is not None and cfg == "MC_DataStore_glob.cfg":
                budget //= 2
            blind = DirAdapter(ids, logids, scratch)
            blind.md5_blind = True
            passes = [("dir", g_dir, DirAdapter(ids, logids, scratch), budget), ("sqlite", g_sql, SqliteAdapter(ids, logids, scratch), budget)]
            if tier == "thorough" or cfg == "MC_DataStore_single.cfg":
                # histories THROUGH the recorded shared-md5-file finding (see project): quick explores them for the one-identifier
                # instantiation only (exhaustively)
                passes.append(("dir-md5-blind", g_dir, blind, None if budget is None else budget // 2))
            for name, g, ad, budget in passes:
                st = explore(g, init, ad, run, seed=run.seed, budget=budget)
                stats[f"{name}:{'+'.join(ids)}"] = st
                run.cov["traces_validated_against_impl"] += st["impl_transitions_checked"]
        run.note("replay", stats)
        # code -> spec
        import trace_C13

        trace_C13.validate(run, scratch)
        import lock_C13

        lock_C13.run_lock(run, scratch)
    run.cov["rule"] = (
        "every transition (state,label) of the exhaustive DataStore model reachable by the real store, "
        "x {directory, sqlite} x {observe at end, observe after every step}; distinct = distinct (state,label,variant)"
    )
    run.cov["exhaustive"] = all(s["skipped_by_budget"] == 0 for s in stats.values())
    run.cov["evaluations"] = run.cov["traces_validated_against_impl"]
    run.cov["distinct_nontrivial"] = run.cov["traces_validated_against_impl"]
    run.assumptions += [
        "identifiers do not contain the store suffix as a substring; they may contain dots and may begin with the store's table names",
        "logs are checked for presence and last content only (sqlite keeps one log row per session by design)",
    ]


def replay_case(detail):
    import tempfile

    from graph import replay_detail

    ids = sorted(detail.get("from", {}).get("comp", {"a": 0, "ba": 0}))
    root = Path(tempfile.mkdtemp(prefix="c13-replay-", dir="/var/tmp"))
    try:
        kind = str(detail.get("key", "dir")).split(":")[0]
        ad = (SqliteAdapter if kind == "sqlite" else DirAdapter)(ids, ["l1"], root)
        ad.md5_blind = bool((detail.get("adapter_detail") or {}).get("md5_blind"))
        return replay_detail(ad, detail)
    finally:
        shutil.rmtree(root, ignore_errors=True)


if __name__ == "__main__":
    sys.exit(main_wrapper(check, "C13"))
