"""C09 — tree transformations preserve tips, topology and path lengths.

spec -> code (TreeOps.tla): TLC explores the closed state graph of tree transformations
(newick/json round trips, copies, sorted, rooted_at, rooted_with_tip, root_at_midpoint,
unrooted, get_sub_tree, prune, bifurcating) from every small initial tree, checks on the
model that every step preserves tips/splits/path lengths (StepPreserves ...), and emits
every transition with the observations its result must show.  explore_C09 rebuilds each
reached state on real PhyloNode objects by replaying its history, makes the real call,
and compares observations, receiver-unmodified, result-independent-of-receiver and
structure, for four name classes (plain; blanks/underscore/quotes inside; newick punctuation; leading/trailing blanks).
spec -> code (TreeDist.tla): the four tree-to-tree distances on all ordered pairs of all
topologies on a small tip set, against definitions by set difference / brute-force matching.
spec -> code (TreeDistHist.tla): the same distances (and subsets(), compare_by_subsets) over
histories: measure, then copy / deepcopy / prune / bifurcating / multifurcating / reassign_names
on the same or a copied object, then measure again on those objects; the expected value is
always the definition on the current topology.
spec -> code (TreeOps.Query): read-only queries of every reached tree (node distances, common
ancestors, connecting edges, get_edge_names with outgroup, distances for endpoint subsets,
farthest tips, same_topology) against Trees.tla operators, with TLC-checked laws.
spec -> code (TreeOpsConsensus.tla): majority_rule / weighted_majority_rule (rooted, unrooted,
strict or greedy) on triples of weighted trees: allowed topologies, support and mean length per edge.
code -> spec (TreeOpsTrace.tla): seeded random compositions on larger random trees with
dyadic branch lengths are recorded (receiver before / result / receiver after) and judged
by the same Trees.tla definitions.
"""
from __future__ import annotations

import os
import re
import sys
import time

from common import Run, main_wrapper
from tlc import SPECS, Scratch, read_emitted, run_tlc

import consensus_C09 as CS
import dist_C09 as D
import explore_C09 as X
import trace_C09 as T

VARIANTS = ["plain", "soft", "meta", "blank", "edgelike", "auto", "reserved", "odd", "leadquote", "tiny", "huge"]
REQUIRED_ACTS = {
    "Make", "NewickRT", "NewickNamesRT", "NewickDefaultRT", "DndRT", "JsonRT", "RichDictRT", "Copy", "DeepCopy",
    "CopyModule", "Sorted", "SortedRev", "RootedAt", "RootedWithTip", "Unrooted", "SubTree", "RootAtMidpoint",
    "Prune", "Bifurcating", "Query",
}


def _count_lines(path):
    n = 0
    with open(path, "rb") as fh:
        for _ in fh:
            n += 1
    return n


def tree_ops(run: Run, scratch, cfg, tag, *, timeout=3000):
    emit = scratch / f"treeops-{tag}.ndjson"
    t0 = time.time()
    res = run_tlc("TreeOps", cfg, scratch, workers=16, env={"EMIT_FILE": emit}, timeout=timeout, heap="8g")
    run.add_tlc(res)
    g = X.TGraph()
    for r in read_emitted(emit):
        g.add(r)
    os.unlink(emit)
    t1 = time.time()
    budget = int(os.environ.get("VERIF_C09_BUDGET", "0")) or None
    st = X.explore(g, run, VARIANTS, seed=run.seed, budget=budget, light=run.tier == "quick")
    st["wall_s"] = {"tlc_and_load": round(t1 - t0, 1), "replay": round(time.time() - t1, 1)}
    st["tlc"] = {"distinct": res.distinct, "generated": res.generated, "depth": res.depth, "wall_s": round(res.wall, 1)}
    run.note(f"treeops_{tag}", st)
    run.cov["traces_validated_against_impl"] += st["cases"]
    run.cov["evaluations"] += st["cases"]
    run.cov["distinct_nontrivial"] += st["transitions"]
    if st["impl_states_reached"] < 2 or st["transitions"] == 0:
        raise RuntimeError(f"TreeOps/{tag}: nothing was replayed (vacuous run)")
    missing = REQUIRED_ACTS - set(st["per_action"])
    if missing:
        raise RuntimeError(f"TreeOps/{tag}: actions never executed on real code (vacuous): {sorted(missing)}")
    return st


def tree_dist(run: Run, scratch, cfg, tag, *, simulate=None):
    emit = scratch / f"treedist-{tag}.ndjson"
    text = (SPECS / cfg).read_text()
    tips = re.findall(r'"(\w+)"', re.search(r"Tips\s*=\s*\{([^}]*)\}", text).group(1))
    res = run_tlc(
        "TreeDist", cfg, scratch, workers=16, env={"EMIT_FILE": emit}, timeout=900,
        simulate=simulate, depth=3 if simulate else None, seed=(run.seed + 11) if simulate else None,
    )
    if simulate:  # simulation prints no state-graph statistics: count what it produced
        n = _count_lines(emit)
        run.cov["states"] += n
        run.cov["transitions"] += n
    else:
        run.add_tlc(res)
    recs = []
    seen = set()
    for r in read_emitted(emit):
        k = repr(r["args"])
        if k in seen:
            continue
        seen.add(k)
        r["tips"] = tips
        recs.append(r)
    os.unlink(emit)
    t1 = time.time()
    st = D.replay(recs, run)
    st["replay_wall_s"] = round(time.time() - t1, 1)
    st["tlc_wall_s"] = round(res.wall, 1)
    st["tips"] = len(tips)
    run.note(f"treedist_{tag}", st)
    run.cov["traces_validated_against_impl"] += st["pairs"]
    run.cov["evaluations"] += st["calls"]
    run.cov["distinct_nontrivial"] += st["pairs"] - st.get("kind_mixed", 0)
    if st["pairs"] == 0:
        raise RuntimeError(f"TreeDist/{tag}: nothing was replayed (vacuous run)")
    return st


def tree_dist_hist(run: Run, scratch, cfg, tag):
    """Distances over histories (TreeDistHist.tla): measure, transform the same / a copied object, measure."""
    emit = scratch / f"treedisthist-{tag}.ndjson"
    text = (SPECS / cfg).read_text()
    tips = re.findall(r'"(\w+)"', re.search(r"Tips\s*=\s*\{([^}]*)\}", text).group(1))
    res = run_tlc("TreeDistHist", cfg, scratch, workers=16, env={"EMIT_FILE": emit}, timeout=1500, heap="6g")
    run.add_tlc(res)
    recs = list(read_emitted(emit))
    os.unlink(emit)
    t1 = time.time()
    st = D.replay_histories(recs, tips, run)
    st["replay_wall_s"] = round(time.time() - t1, 1)
    st["tlc"] = {"distinct": res.distinct, "generated": res.generated, "wall_s": round(res.wall, 1)}
    st["tips"] = len(tips)
    run.note(f"treedisthist_{tag}", st)
    run.cov["traces_validated_against_impl"] += st["cases"]
    run.cov["evaluations"] += st["calls"]
    run.cov["distinct_nontrivial"] += st["transitions"]
    need = {"Start", "Measure", "Copy", "DeepCopy", "Prune", "Bifurcating", "Multifurcating3", "CopyRename", "RenameInPlace"}
    if st["impl_states_reached"] < st["spec_states"] and not st.get("issues"):
        raise RuntimeError(f"TreeDistHist/{tag}: {st['spec_states'] - st['impl_states_reached']} model states were never reached on real objects")
    if need - set(st["per_action"]):
        raise RuntimeError(f"TreeDistHist/{tag}: actions never executed (vacuous): {sorted(need - set(st['per_action']))}")
    return st


def consensus(run: Run, scratch, cfg, tag):
    """Consensus trees (TreeOpsConsensus.tla) replayed on cogent3.phylo.consensus."""
    emit = scratch / f"consensus-{tag}.ndjson"
    res = run_tlc("TreeOpsConsensus", cfg, scratch, workers=16, env={"EMIT_FILE": emit}, timeout=1800, heap="6g")
    run.add_tlc(res)
    recs = list(read_emitted(emit))
    os.unlink(emit)
    t1 = time.time()
    st = CS.replay(recs, run)
    st["replay_wall_s"] = round(time.time() - t1, 1)
    st["tlc"] = {"distinct": res.distinct, "generated": res.generated, "wall_s": round(res.wall, 1)}
    run.note(f"consensus_{tag}", st)
    run.cov["traces_validated_against_impl"] += st["cases"]
    run.cov["evaluations"] += st["calls"]
    run.cov["distinct_nontrivial"] += st["cases"]
    for m in ("majority_rule", "rooted", "unrooted"):
        if not st.get(f"method_{m}"):
            raise RuntimeError(f"consensus/{tag}: {m} never executed (vacuous)")
    if not st.get("cases_with_several_allowed_outcomes"):
        raise RuntimeError(f"consensus/{tag}: no case with ties between greedy outcomes (vacuous nondeterminism)")
    return st


def check(run: Run):
    quick = run.tier == "quick"
    with Scratch("C09") as scratch:
        ops = [tree_ops(run, scratch, f"MC_TreeOps_{run.tier}.cfg", "closed")]
        if not quick:
            # six tips: seeded sample of the initial shapes, histories of two calls
            text = (SPECS / "MC_TreeOps_sample6.cfg").read_text()
            mod = int(re.search(r"ShapeMod\s*=\s*(\d+)", text).group(1))
            text = re.sub(r"ShapeRem\s*=\s*\d+", f"ShapeRem = {run.seed % mod}", text)
            cfg6 = scratch / "MC_TreeOps_sample6_seeded.cfg"
            cfg6.write_text(text)
            ops.append(tree_ops(run, scratch, str(cfg6), "sample6"))
        if quick:
            tree_dist(run, scratch, "MC_TreeDist_quick.cfg", "all4")
            tree_dist(run, scratch, "MC_TreeDist_quick5.cfg", "sample5", simulate="num=30")
        else:
            tree_dist(run, scratch, "MC_TreeDist_thorough.cfg", "all5")
            tree_dist(run, scratch, "MC_TreeDist_sample6.cfg", "sample6", simulate="num=1500")
        if quick:
            tree_dist_hist(run, scratch, "MC_TreeDist_hist_quick.cfg", "sample4")
        else:
            tree_dist_hist(run, scratch, "MC_TreeDist_hist_all4.cfg", "all4")
            tree_dist_hist(run, scratch, "MC_TreeDist_hist_thorough.cfg", "sample5")
        if quick:
            consensus(run, scratch, "MC_TreeOps_consensus_quick.cfg", "sample4")
        else:
            consensus(run, scratch, "MC_TreeOps_consensus_thorough4.cfg", "all4")
            consensus(run, scratch, "MC_TreeOps_consensus_thorough5.cfg", "sample5")
        # code -> spec: recorded executions on larger random trees judged by TreeOpsTrace.tla
        T.validate(run, scratch)
    run.cov["rule"] = (
        "TreeOps: every transition (abstract tree, call) of the closed transformation graph over all plane tree shapes "
        "within the tier's tip bound (plus, thorough, a seeded sample of 6-tip shapes with two-call histories), each reached "
        "on real objects by replaying its history, x 9 name classes (leading/trailing blanks, unusual names (adjacent quotes, digits only, #|*?{} long dotted, non-ascii), a leading quote, and the tip name 'edge' on the round-trip calls only; parser-named and generated-looking internal names on the round-trip, midpoint, rooted_at and rooted_with_tip calls); TreeDist: every ordered pair of all topologies on the "
        "tier's tip set (plus a seeded sample one tip larger), x 2 child orders x all method aliases x both argument orders. "
        "TreeDistHist: every transition of the closed graph (tree A, tree B, measured?) x {measure, copy, deepcopy, prune, "
        "bifurcating, multifurcating(3), rename on a copy / in place} for all A and the tier's sample of B, each followed by a "
        "measurement on the same objects, x 2 child orders. "
        "Query: four read-only query groups on every reached tree of at most 5 tips (plain names). "
        "Consensus: every first tree x pairs from the tier's sample of trees x weights {111, 211} x strict x {majority_rule, rooted, unrooted}. "
        "TreeOpsTrace: every call of seeded random compositions on random trees (6-12 tips, lengths k/8) judged by TLC. "
        "distinct_nontrivial = distinct (abstract tree, call) pairs + distinct same-kind tree pairs + recorded calls executed on real code"
    )
    run.cov["exhaustive"] = all(s.get("skipped_by_budget", 0) == 0 for s in ops)
    run.assumptions += [
        "branch lengths are dyadic (multiples of 1/2 in the exhaustive model, of 1/8 in recorded executions; exact in binary floating point); "
        "two further length classes (unit 1.23456789e-9 and 50.000000000123, not dyadic) run on the newick/json/dnd round trips of freshly made trees, "
        "compared with relative tolerance 1e-9 (float summation noise is ~1e-16)",
        "names do not both start and end with a single quote (get_newick treats those as pre-escaped)",
        "blank-containing names are read back with make_tree(underscore_unmunge=True); the default reader documents that it keeps underscores",
        "child order is not part of the abstract tree; only sorted() is checked for the order of tips",
        "root_at_midpoint is exercised while the diameter is an even number of half units and at most one created edge exists",
        "consensus: where the docstring leaves the order among equally weighted conflicting clusters/splits open, every greedy outcome is allowed; "
        "input trees of the unrooted consensus are read as the equivalent unrooted trees (the two root edges of a bifurcating root are one edge), as get_splits documents",
        "get_connecting_edges: the common ancestor is part of the path unless both ends are tips (docstring); get_edge_names(outgroup_name=) is taken as the clade seen from that tip",
        "same_topology is compared with split equality only for trees with >= 3 root children and no single-child nodes (for rooted drawings the method also compares the root position)",
        "Lin-Rajan-Moret is compared only for equally resolved trees (the code raises ValueError otherwise); mixed rooted/unrooted pairs are not measured",
    ]


if __name__ == "__main__":
    sys.exit(main_wrapper(check, "C09"))
