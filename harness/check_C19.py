"""C19 — file writes are all-or-nothing; interrupted runs resume to the same result.

Oracle: specs/AtomicWrite.tla (file-system protocol of atomic_write and its callers with
Crash / Fault / FormatterRaises; the property is the outcome predicate OutcomeOK = the
invariant Atomic) and specs/AtomicWriteResume.tla (apply_to interrupted and re-run).

TLC runs
  * MC_AtomicWrite_quick    the transcribed CURRENT protocol (src.replace + cleanup on every failure) explored
                            completely with INVARIANT Atomic, every transition emitted with the verdict of OutcomeOK;
  * MC_AtomicWrite_cx       self-test of the property: the configurations the spec lists as rejected (the protocols
                            before the C19 repairs, the partial repairs, an __exit__ that swallows the error of closing
                            the staged file) explored completely; each must have a terminal state OutcomeOK rejects
                            (the property is not vacuous; independent of the code);
  * MC_AtomicWrite_judge    emits OutcomeOK over its whole domain (the verdict table).
spec -> code: every real write case (writer x file type x destination present/absent x
  normal / formatter failure) is dry-run in a child to discover ALL its call boundaries, then
  re-run once per boundary and mode (kill: os._exit before the call; fault: the call raises
  OSError).  What is left on disk is projected to (dest, tmp) and judged by the verdict table.
  Terminal states of the transcribed model that the property rejects (none since the repairs) must be reproduced.
code -> spec: every child's boundary log (calls, states seen before each call, ending) is
  validated by Trace_AtomicWrite as a behaviour of the configuration that transcribes the writer.
Resume clause: resume_C19.
"""
from __future__ import annotations

import json
import multiprocessing as mp
import os
import re
import sys
import threading
import time
from collections import Counter, defaultdict
from pathlib import Path

from common import Run, main_wrapper
from tlc import Scratch, read_emitted, run_tlc

import drive_C19 as D
import writers_C19 as W

WORKERS = int(os.environ.get("VERIF_C19_WORKERS", "12"))
TLC_WORKERS = 8


# ------------------------------------------------------------------------ TLC
def run_models(run: Run, scratch: Path):
    """the four TLC runs, concurrently; returns (model transitions, verdict table)"""
    out = {}

    def go(name, cfg, **kw):
        emit = scratch / f"emit-{name}.ndjson"
        try:
            res = run_tlc("AtomicWrite", cfg, scratch, workers=kw.pop("workers", 2), env={"EMIT_FILE": emit}, **kw)
            out[name] = (res, list(read_emitted(emit)))
        except Exception as ex:  # noqa: BLE001
            out[name] = ex

    ths = [
        threading.Thread(target=go, args=("model", "MC_AtomicWrite_quick.cfg"), kwargs={"workers": TLC_WORKERS}),
        threading.Thread(target=go, args=("cx", "MC_AtomicWrite_cx.cfg")),
        threading.Thread(target=go, args=("judge", "MC_AtomicWrite_judge.cfg")),
    ]
    for t in ths:
        t.start()
    for t in ths:
        t.join()
    for name, v in out.items():
        if isinstance(v, Exception):
            raise v
    for name in ("model", "cx"):
        run.add_tlc(out[name][0])
    # spec self-test: every configuration the spec lists as rejected has a terminal state that OutcomeOK rejects
    rejected, seen = {}, set()
    for r in out["cx"][1]:
        t = r["to"]
        seen.add(t["cfg"])
        if t["how"] != "running" and not r["ok"] and not (t["how"] == "crashed" and t["fcall"] != "none"):
            rejected.setdefault(t["cfg"], set()).add((t["pre"], t["how"], t["fcall"], t["dest"], D.coarse(t["tmp"])))
    not_rejected = sorted(seen - set(rejected))
    if not_rejected or not {"swallow_close", "zip_append", "commit_on_interrupt"} <= set(rejected):
        raise RuntimeError(f"spec self-test: Atomic does not reject the configurations {not_rejected} of RejectedConfigs (seen: {sorted(seen)})")
    run.note("rejected_terminal_states_per_rejected_configuration", {k: len(v) for k, v in sorted(rejected.items())})
    run.note("swallow_close_rejected_outcomes", sorted(map(list, rejected["swallow_close"])))
    run.note("zip_append_rejected_outcomes", sorted(map(list, rejected["zip_append"])))
    run.note("commit_on_interrupt_rejected_outcomes", sorted(map(list, rejected["commit_on_interrupt"])))
    table = {}
    for r in out["judge"][1]:
        if r.get("act") == "Judge":
            table[tuple(r["args"])] = (bool(r["ok"]), sorted(r["broken"]))
    if len(table) != 2 * 3 * 11 * 5 * 4:  # pre x how x (calls + none + other) x dest x tmp
        raise RuntimeError(f"verdict table incomplete: {len(table)} rows")
    run.note(
        "tlc_runs",
        {n: {"states": out[n][0].distinct, "transitions": out[n][0].generated, "wall_s": round(out[n][0].wall, 1)} for n in out},
    )
    return out["model"][1], table


def predicted_bad(model):
    """terminal states of the transcribed model that OutcomeOK rejects"""
    pred = {}
    for r in model:
        t = r["to"]
        if t["how"] == "running" or r["ok"]:
            continue
        if t["how"] == "crashed" and t["fcall"] != "none":
            continue  # kill during the handling of an injected fault: two injections, not driven
        key = (t["cfg"], t["pre"], t["how"], t["fcall"], t["dest"], D.coarse(t["tmp"]), tuple(sorted(r["broken"])))
        pred.setdefault(key, [r["act"]] + list(r["args"]))
    return pred


# ---------------------------------------------------------------------- drive
def _init_worker():
    W.objects()


def kgroup(case):
    if case.group:
        return case.group
    return "open_" if case.writer == "open_" else "writer"


def finding_key(case, res, out, broken):
    """structural key: how atomic_write is used (group), injection mode @ abstract call, which conjunct of
    OutcomeOK fails and how.  Not part of the key: the writer, the file type, temp names."""
    mode = {"dry": "run", "kill": "kill", "fault": "fault"}[res["mode"]]
    if mode == "run" and case.scenario == "fmtfail":
        mode = "formatter-raises"
    if mode == "run" and case.scenario == "interrupt":
        mode = "body-interrupted"
    if mode == "run" and case.scenario == "unstageable":
        mode = "staging-refused"
    if mode == "fault" and D.is_interrupt(res.get("variant")):
        mode = "interrupt"
    at = f"@{out['role']}" if out["role"] else ""
    if out.get("kill_role"):
        at += f"+kill@{out['kill_role']}"
    parts = []
    if out["how"] == "died":
        parts.append("child-died")
    if "dest" in broken:
        if out["dest"] == "Partial":
            parts.append("dest-partial")
        elif out["dest"] == "OldNew":
            parts.append("dest-old+new-members")
        elif res["pre"] == "Old" and out["dest"] == "absent":
            parts.append("dest-lost")
        elif out["how"] == "ok":
            parts.append(f"dest-{out['dest']}-after-success")
        elif res["mode"] == "dry" and case.scenario == "normal":
            parts.append("plain-write-fails")
        else:
            parts.append(f"dest={out['dest']}")
    if "tmp" in broken:
        parts.append("tmp-left")
    if case.nameclass != "ordinary":
        # the class of the destination file name is part of the case's structure
        return f"{kgroup(case)}:name={case.nameclass}:{mode}{at}:" + "+".join(parts)
    if case.target == "zip":
        # zip targets are not transcribed call by call: the key names the mode only
        return f"{kgroup(case)}:zip:{mode}:" + "+".join(parts)
    return f"{kgroup(case)}:{mode}{at}:" + "+".join(parts)


def check_writes(run: Run, scratch: Path, model, table):
    cases = W.cases(run.tier)
    W.objects()
    ctx = mp.get_context("fork")
    work = scratch / "cases"
    work.mkdir()
    traces = Counter()
    trace_sample = {}
    observed_bad = defaultdict(int)
    stats = Counter()
    injected = set()
    zip_append_seen = set()
    tm = {"t0": time.time()}
    with ctx.Pool(WORKERS, initializer=_init_worker) as pool:
        # phase 1: dry runs discover the boundaries and the new content
        dry = pool.map(D.execute, [(c, pre, 0, "dry", str(work)) for c in cases for pre in ("absent", "Old")], chunksize=1)
        newp = {}
        for r in dry:
            c = r["case"]
            if c.scenario == "normal" and r["pre"] == "absent" and r["status"] == "exited" and r["end"]["end"] == "ok":
                raw = r["final"].get(c.fname)
                if raw and raw != "<dir>":
                    newp[c] = W.payload(c.fname, bytes.fromhex(raw))
        jobs = []
        for r in dry:
            n = len(r["events"])
            for k in range(1, n + 1):
                jobs.append((r["case"], r["pre"], k, "kill", str(work)))
                if r["case"].scenario == "unstageable":
                    continue  # the open of the staged file fails by itself: kills only, no second (injected) fault
                variants = D.fault_variants(r["events"][k - 1]["role"])
                if r["case"].light:
                    jobs.append((r["case"], r["pre"], k, "fault", str(work), variants[0]))
                    continue
                if run.tier == "quick" and r["case"].target == "zip":
                    # quick: zip targets with one one-shot and one persistent variant per boundary, no second-level kills
                    variants = [variants[0], variants[-1]]
                intr = D.interrupt_variants(r["events"][k - 1]["role"])
                variants = variants + (intr[:1] if run.tier == "quick" and r["case"].target == "zip" else intr)
                for v in variants:
                    jobs.append((r["case"], r["pre"], k, "fault", str(work), v))
        tm["dry"] = time.time()
        first = pool.map(D.execute, jobs, chunksize=2)
        tm["first"] = time.time()
        # second level: the process dies while an injected (one-shot) fault is being handled, at every boundary
        # the faulted run makes after the fault (handler / fallback / retry calls)
        jobs2 = []
        for r in first:
            if r["case"].light:
                continue
            if run.tier == "quick" and (r["case"].target == "zip" or (r["variant"] or "").split(":")[0] in ("EACCES", "ENOENT")):
                continue  # quick: second-level kills after EIO / ENOSPC faults of the plain targets only
            if r["mode"] == "fault" and r["variant"].endswith(":once") and r["status"] == "exited" and not D.is_interrupt(r["variant"]):
                for e in r["events"]:
                    if e["i"] > r["k"]:
                        jobs2.append((r["case"], r["pre"], r["k"], "fault", str(work), f"{r['variant']}:kill@{e['i']}"))
        results = dry + first + pool.map(D.execute, jobs2, chunksize=2)
        tm["second"] = time.time()
    tm["pool_exit"] = time.time()
    for r in results:
        c = r["case"]
        out = D.outcome(r, newp.get(c))
        stats[r["mode"]] += 1
        if r["mode"] != "dry" and any(e["kind"] in (r["mode"], "interrupt") for e in r["events"]):
            injected.add((c, r["pre"], r["k"], r["mode"], r["variant"]))
            if r["variant"] and "kill@" in r["variant"]:
                stats["fault-then-kill"] += 1
            elif r["variant"]:
                stats["fault:" + r["variant"]] += 1
            if sum(e["kind"] == "fault" for e in r["events"]) > 1:
                stats["persistent_fault_hit_again"] += 1
        if out["how"] == "died":
            ok, broken = False, []
        else:
            ok, broken = table[(r["pre"], out["how"], out["fcall"], out["dest"], out["tmp"])]
        if c.scenario == "normal" and r["mode"] == "dry" and out["how"] != "ok" and c.group:
            # an un-faulted write of supported content must succeed
            ok, broken = False, sorted(set(broken) | {"dest"})
        detail = {
            "writer_call": c.name,
            "scenario": c.scenario,
            "pre": r["pre"],
            "mode": r["mode"],
            "fault_variant": r["variant"],
            "boundary": r["k"],
            "boundary_call": next((e["raw"] for e in r["events"] if e["i"] == r["k"]), None),
            "calls_seen": [e["role"] for e in r["events"]],
            "outcome": out,
            "exception": (r["end"] or {}).get("err"),
            "violated_conjuncts_of_OutcomeOK": broken,
        }
        if not ok:
            key = finding_key(c, r, out, broken)
            run.fail(key, detail, what=f"{c.name} {r['mode']}{'(' + r['variant'] + ')' if r['variant'] else ''} at {detail['boundary_call']}: dest={out['dest']} tmp={out['tmp']} (before: {r['pre']})")
            if c.group:
                observed_bad[(c.group, r["pre"], out["how"], out["fcall"], out["dest"], D.coarse(out["tmp"]), tuple(broken))] += 1
            elif c.writer == "open_" and out["how"] != "died":
                zip_append_seen.add((r["pre"], out["how"], out["fcall"], out["dest"], D.coarse(out["tmp"])))
        if c.group:
            tr = D.abstract_trace(r, newp.get(c), out)
            if tr is None:
                stats["trace_unmodelled_calls"] += 1
                run.model_drift(f"{c.name} makes file-system calls AtomicWrite.tla does not model: {detail['calls_seen']}")
            else:
                tk = json.dumps(tr, sort_keys=True)
                traces[tk] += 1
                trace_sample.setdefault(tk, f"{c.name} pre={r['pre']} {r['mode']}@{r['k']} {r['variant'] or ''}")
        else:
            stats["not_transcribed"] += 1
        if r["mode"] != "dry" and c.writer in ("aln", "tree", "table") and r["k"] in (5, 8):
            run.sample({"call": c.name, "pre": r["pre"], "mode": r["mode"], "fault": r["variant"], "at": detail["boundary_call"], "how": out["how"], "dest": out["dest"], "tmp": out["tmp"], "ok": ok}, limit=8)
    # ---- code -> spec
    tm["judged"] = t_tr = time.time()
    ks = list(tm)
    run.note("wall_s_write_phases", {ks[i]: round(tm[ks[i]] - tm[ks[i - 1]], 1) for i in range(1, len(ks))})
    validate_traces(run, scratch, traces, trace_sample, stats)
    run.note("wall_s_trace_validation", round(time.time() - t_tr, 1))
    # ---- the model's counterexamples must exist in the real code
    pred = predicted_bad([r for r in model if r["from"]["cfg"] in ("seqfmt", "with", "table")])
    missing = [list(k) + [v] for k, v in sorted(pred.items()) if k not in observed_bad]
    unpredicted = [list(k) for k in sorted(observed_bad) if k not in pred]
    run.note("predicted_counterexamples", len(pred))
    run.note("predicted_counterexamples_reproduced", len(pred) - len(missing))
    run.note("predicted_not_reproduced", missing[:20])
    run.note("observed_violations_not_predicted_by_model", unpredicted[:20])
    for m in missing:
        run.model_drift(f"counterexample of the transcribed protocol not reproduced on the real code: {m}")
    if zip_append_seen:
        # open_(x.zip, "w") is the in-place-append protocol (known finding R5): the outcomes the spec rejects for its
        # "zip_append" configuration are the ones observed on the real code
        pred = {tuple(o) for o in run.extra.get("zip_append_rejected_outcomes", [])}
        run.note("zip_append_rejected_outcomes_observed_on_open_zip", [len(pred & zip_append_seen), len(pred)])
    run.note("children", dict(stats))
    run.note("write_cases", len(cases) * 2)
    n = stats["dry"] + stats["kill"] + stats["fault"]
    run.cov["evaluations"] += n
    run.cov["distinct_nontrivial"] += len(injected)
    return n


def validate_traces(run, scratch, traces, trace_sample, stats):
    keys = sorted(traces)
    if not keys:
        return
    tf = scratch / "traces.json"
    tf.write_text("[" + ",".join(keys) + "]")
    res = run_tlc("Trace_AtomicWrite", "MC_AtomicWrite_trace.cfg", scratch, workers=TLC_WORKERS, env={"TRACE_FILE": tf})
    run.add_tlc(res)
    ok = {int(m) for m in re.findall(r"<<\s*\"TRACE-OK\"\s*,\s*(\d+)\s*>>", res.out)}
    nacc = 0
    for i, k in enumerate(keys, start=1):
        if i in ok:
            nacc += traces[k]
        else:
            stats["trace_rejected"] += traces[k]
            run.model_drift(f"trace is not a behaviour of its transcribed configuration: {trace_sample[k]} {k[:400]}")
    run.cov["traces_validated_against_impl"] += nacc
    run.note("distinct_abstract_traces", len(keys))


def _catch(fn, *a):
    try:
        return fn(*a)
    except Exception as ex:  # noqa: BLE001
        return ex


def check(run: Run):
    with Scratch("C19") as scratch:
        import resume_C19

        rmodels = {}
        th = threading.Thread(target=lambda: rmodels.update(r=_catch(resume_C19.run_models, run, scratch)))
        th.start()  # the resume models run while the write models do
        t0 = time.time()
        model, table = run_models(run, scratch)
        t1 = time.time()
        check_writes(run, scratch, model, table)
        t2 = time.time()
        th.join()
        if isinstance(rmodels["r"], Exception):
            raise rmodels["r"]
        resume_C19.check_resume(run, scratch, rmodels["r"])
        run.note("wall_s_parts", {"tlc_models": round(t1 - t0, 1), "write_children_and_traces": round(t2 - t1, 1), "resume": round(time.time() - t2, 1)})
    run.cov["rule"] = (
        "write clause: every (writer call, file type, destination present/absent, normal/formatter-failure) case x every "
        "file-system call boundary the real call makes (audit events in the case directory + write/close on the file "
        "returned by open_) x {kill before the call, call raises OSError}.  Fault(c) of the spec (the call raises, handlers run) "
        "is instantiated per boundary with every error class a file system returns there (path calls: EIO, EACCES=PermissionError, "
        "ENOENT=FileNotFoundError; write/close: EIO, ENOSPC) x {once, persistent = the same call on the same path fails again "
        "when it is re-issued by a retry or fallback}, and for every one-shot fault additionally a kill at each later boundary of "
        "that run (the process dies while the fault is handled).  Interrupt(c) of the spec (a BaseException that is not an Exception) "
        "is instantiated at every boundary by a real SIGINT (KeyboardInterrupt) and by SystemExit, and BodyInterrupted by content whose "
        "production is interrupted inside the with-block (formatter iteration, column formatting callback, tree rendering, to_json); one evaluation = one child process judged by "
        "OutcomeOK of AtomicWrite.tla.  The destination file name is a dimension (NameClasses of the spec: blanks, quotes, brackets/glob, "
        "punctuation, unicode, leading digit, digits only, many dots, long, and a legal name whose staged name is unusable so that the open of "
        "the staged file fails by itself), driven with kills and one fault variant per boundary; distinct non-trivial = distinct (case, destination state, boundary index, mode, fault variant) whose "
        "child logged the injection at that boundary (dry runs are not counted).  resume clause: every prefix of an apply_to run x {KeyboardInterrupt at the k-th "
        "data_store.write, hard kill at every file-system boundary of the run} then re-run in append mode, on two store kinds "
        "(DataStoreDirectory + write_seqs: both interrupt kinds; DataStoreSqlite + write_db: KeyboardInterrupt only) with failing-input sets "
        "that put not-completed records into the interrupted prefix, judged by "
        "RecOK/ResumeOK of AtomicWriteResume.tla (each interrupted+re-run scenario is one distinct non-trivial case)"
    )
    run.cov["exhaustive"] = True
    run.assumptions += [
        "power-loss durability (fsync ordering, page cache) is not covered: a kill is os._exit between two Python-level calls, the kernel completes what was issued",
        "a kill during write()/close() is observed at the boundary before the call; partial flushes inside one C-level write are not enumerated",
        "a failing close() of a file the code opened for writing is instantiated as: the descriptor is released, the file keeps the first half of its bytes "
        "(the unflushed tail is lost), OSError(EIO|ENOSPC) is raised; close() of an already closed file cannot fail and gets no fault (it stays a kill point)",
        "one faulty call site per run (failing once, or again whenever the same call on the same path is re-issued); an OSError injected into the cleanup call itself (rmtree) is allowed to leave the temporary directory",
        "nested directories inside rmtree are not boundaries (their audit events carry relative paths)",
        "new content = what an un-faulted write to an absent destination leaves (content correctness is C06/C20's subject); compressed files are compared by payload",
        "zip targets: the destination state is the member sequence (Old byte-for-byte, New = exactly one member with the new payload, OldNew = previous members + new one); member names are not compared (the staged name is random); judged by outcome only, no trace validation; quick drives them with one one-shot and one persistent fault variant per boundary and without second-level kills",
        "resume: log files of the two runs differ by name and are not compared; inputs are processed serially",
        "resume on DataStoreSqlite (write_db, re-opened in mode 'a'): interrupted by KeyboardInterrupt between store writes only; a process kill inside "
        "sqlite's own file I/O or between the DELETE and INSERT statements of one write is not driven (sqlite raises no audit events for statements; "
        "its journal makes single statements atomic); the log_id column is not compared",
    ]


if __name__ == "__main__":
    sys.exit(main_wrapper(check, "C19"))
