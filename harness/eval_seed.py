#!/venv/bin/python
"""Confirm and evaluate one seeded property-breaking change.

usage: eval_seed.py <seed-name e.g. C13-1> [--src /tmp/seed-out] [--checks C13,C19] [--tier quick] [--tests t1 t2 ...]

Steps (all in a scratch worktree of /repo's HEAD, removed afterwards):
  1. patch applies; cogent3 imports
  2. demo.py exits 0 on the unchanged tree and non-zero with the change
  3. the repository's test files for the touched modules still pass with the change
  4. the registered check(s) are run against the changed tree (VERIF_REPO): detected = exit 1 with a VIOLATION line
The change is kept as /verif/seeded/<name>/{patch.diff, demo.py, meta.json} with the confirmation record.
"""
from __future__ import annotations

import argparse
import json
import os
import re
import shutil
import subprocess
import sys
import time
from pathlib import Path

VERIF = Path(__file__).resolve().parent.parent
PY = "/venv/bin/python"


def sh(cmd, **kw):
    return subprocess.run(cmd, capture_output=True, text=True, **kw)


def derive_tests(wt: Path, files):
    out = []
    for f in files:
        m = re.match(r"src/cogent3/(\w+)/(\w+)\.py", f)
        if m:
            for cand in (f"tests/test_{m.group(1)}/test_{m.group(2)}.py", f"tests/test_{m.group(1)}.py"):
                if (wt / cand).exists():
                    out.append(cand)
        m = re.match(r"src/cogent3/(\w+)\.py", f)
        if m and (wt / f"tests/test_{m.group(1)}.py").exists():
            out.append(f"tests/test_{m.group(1)}.py")
    return sorted(set(out))


def main():
    ap = argparse.ArgumentParser()
    ap.add_argument("name")
    ap.add_argument("--src", default="/tmp/seed-out")
    ap.add_argument("--checks", default=None)
    ap.add_argument("--tier", default="quick")
    ap.add_argument("--tests", nargs="*", default=None)
    ap.add_argument("--skip-tests", action="store_true")
    ap.add_argument("--base", default="HEAD", help="commit of /repo the change is applied to (default HEAD); used when a later fix: commit touches the same lines")
    a = ap.parse_args()
    src = Path(a.src) / a.name
    if not src.exists() and (VERIF / "seeded" / a.name).exists():
        src = VERIF / "seeded" / a.name
    prop = a.name.split("-")[0]
    checks = (a.checks or prop).split(",")
    wt = Path(f"/var/tmp/seedwt-{a.name}")
    sh(["git", "-C", "/repo", "worktree", "remove", "--force", str(wt)])
    sh(["git", "-C", "/repo", "worktree", "prune"])
    r = sh(["git", "-C", "/repo", "worktree", "add", "-q", "--detach", str(wt), a.base])
    rec = {"repo_head": sh(["git", "-C", "/repo", "rev-parse", "--short", a.base]).stdout.strip(), "time": time.strftime("%Y-%m-%d %H:%M")}
    if a.base != "HEAD":
        rec["note"] = "applied to an earlier commit of /repo: a later fix: commit touches the lines this change edits"
    try:
        r = sh(["git", "apply", str(src / "patch.diff")], cwd=wt)
        rec["applies"] = r.returncode == 0
        if r.returncode:
            rec["apply_error"] = r.stderr[-500:]
            print(json.dumps(rec, indent=1))
            return 2
        files = [l[6:] for l in (src / "patch.diff").read_text().splitlines() if l.startswith("+++ b/")]
        rec["files_changed"] = files
        env0 = dict(os.environ, PYTHONPATH="/repo/src", PYTHONWARNINGS="ignore", NUMBA_CACHE_DIR=str(wt / ".nbcache0"))
        env1 = dict(os.environ, PYTHONPATH=str(wt / "src"), PYTHONWARNINGS="ignore", NUMBA_CACHE_DIR=str(wt / ".nbcache"))
        d0 = sh([PY, str(src / "demo.py")], env=env0, cwd="/var/tmp", timeout=1800)
        d1 = sh([PY, str(src / "demo.py")], env=env1, cwd="/var/tmp", timeout=1800)
        rec["demo_without_change_rc"] = d0.returncode
        rec["demo_with_change_rc"] = d1.returncode
        rec["demo_with_change_tail"] = (d1.stdout + d1.stderr)[-400:]
        if not a.skip_tests:
            tests = a.tests if a.tests else derive_tests(wt, files)
            rec["tests"] = tests
            if tests:
                # the repository's own settings (no PYTHONWARNINGS: test_bounds records warnings); the seven tests that need
                # the network fail on the unchanged tree in this sandbox and are not part of the pinned baseline
                envt = {k: v for k, v in env1.items() if k != "PYTHONWARNINGS"}
                offline = ["tests/test_app/test_evo.py::test_get_app_tree_is_url", "tests/test_parse/test_sequence.py::test_line_based_url",
                           "tests/test_util/test_io.py::test_open_url", "tests/test_util/test_io.py::test_open_url_compressed"]
                desel = [x for o in offline for x in ("--deselect", o)]
                t = sh([PY, "-m", "pytest", "-q", "-p", "no:cacheprovider", *desel, *tests], env=envt, cwd=wt, timeout=3600)
                rec["tests_rc"] = t.returncode
                rec["tests_tail"] = t.stdout[-300:]
        det = {}
        for c in checks:
            t0 = time.time()
            envc = dict(os.environ, VERIF_REPO=str(wt), NUMBA_CACHE_DIR=str(wt / ".nbcache"))
            p = sh([str(VERIF / "check"), c, "--tier", a.tier], env=envc, cwd=VERIF, timeout=7200)
            viol = [l[:300] for l in p.stdout.splitlines() if l.startswith("VIOLATION")]
            det[c] = {"rc": p.returncode, "violations": len(viol), "first": viol[:4], "wall_s": round(time.time() - t0, 1), "tier": a.tier}
        rec["checks"] = det
        rec["detected"] = any(v["rc"] == 1 and v["violations"] for v in det.values())
    finally:
        sh(["git", "-C", "/repo", "worktree", "remove", "--force", str(wt)])
        sh(["git", "-C", "/repo", "worktree", "prune"])
        shutil.rmtree(wt, ignore_errors=True)
    dest = VERIF / "seeded" / a.name
    dest.mkdir(parents=True, exist_ok=True)
    if src != dest:
        for f in ("patch.diff", "demo.py"):
            shutil.copy(src / f, dest / f)
    meta = {}
    if (src / "meta.json").exists():
        try:
            meta = json.loads((src / "meta.json").read_text())
        except Exception:
            meta = {"raw": (src / "meta.json").read_text()[:2000]}
    meta.setdefault("property", prop)
    hist = meta.get("confirmation_history", [])
    hist.append(rec)
    meta["confirmation_history"] = hist[-5:]
    meta["confirmed"] = bool(rec.get("applies") and rec.get("demo_without_change_rc") == 0 and rec.get("demo_with_change_rc", 0) != 0 and rec.get("tests_rc", 0) == 0)
    meta["detected_by_checks"] = {c: (v["rc"] == 1 and v["violations"] > 0) for c, v in rec.get("checks", {}).items()}
    (dest / "meta.json").write_text(json.dumps(meta, indent=1))
    print(json.dumps({k: rec.get(k) for k in ("applies", "demo_without_change_rc", "demo_with_change_rc", "tests", "tests_rc", "detected")}, indent=None))
    for c, v in rec.get("checks", {}).items():
        print(c, v["rc"], v["violations"], v["first"][:2])
    return 0


if __name__ == "__main__":
    sys.exit(main())
