"""Spec -> code conformance engine.

TLC emits one record per explored transition (see specs/Emit.tla):
    {from: <abstract state>, act: <name>, args: [...], to: <abstract state>, ret: <outcome>}
`Graph` indexes them; `explore` walks the part of the state graph the *real
implementation* reaches: for each reached abstract state and each label the
spec enables there, a fresh real object is driven along a shortest recorded
path to that state, the real call for the label is made, the result is
projected to an abstract state and must equal one of the successors the spec
allows for (state, label).  The real outcome chooses the successor when the
spec is nondeterministic.  A transition whose real outcome matches no allowed
successor is reported and never used to extend paths.
"""
from __future__ import annotations

import json
import multiprocessing as mp
import os
import random
from collections import defaultdict


def skey(state) -> str:
    return json.dumps(state, sort_keys=True, separators=(",", ":"))


class Graph:
    def __init__(self, records):
        self.succ = defaultdict(lambda: defaultdict(list))  # from -> label -> [(to, ret)]
        self.states = {}
        self.ntrans = 0
        seen = set()
        for r in records:
            f, t = skey(r["from"]), skey(r["to"])
            lab = skey([r["act"], r.get("args", [])])
            sig = (f, lab, t, skey(r.get("ret")))
            if sig in seen:
                continue
            seen.add(sig)
            self.states.setdefault(f, r["from"])
            self.states.setdefault(t, r["to"])
            self.succ[f][lab].append((t, r.get("ret"), r.get("obs")))
            self.ntrans += 1

    def labels(self, f):
        return self.succ.get(f, {})


_G = {}


def _task(job):
    """Worker: replay path, apply label, project, compare. Runs in a forked child."""
    adapter, graph = _G["adapter"], _G["graph"]
    fkey, lab, path, variant = job
    act, args = json.loads(lab)
    ctx = adapter.fresh(variant)
    try:
        for pl in path:
            pa, pargs = json.loads(pl)
            adapter.apply(ctx, pa, pargs)
        if adapter.check_paths:
            got = skey(adapter.project(ctx))
            if got != fkey:
                return (fkey, lab, "path", None, {"expected_state": json.loads(fkey), "observed_state": json.loads(got), "path": path}, variant)
        try:
            ret = adapter.apply(ctx, act, args)
        except Exception as ex:  # adapter.apply maps allowed exceptions itself
            import traceback

            return (fkey, lab, "exception", None, {"exception": repr(ex), "traceback": traceback.format_exc()[-1500:], "path": path}, variant)
        obs = adapter.project(ctx)
        okey = skey(obs)
        exc = getattr(ctx, "last_exc", None)
        allowed = graph.succ[fkey][lab]
        for t, r, o in allowed:
            if t == okey and adapter.ret_matches(r, ret) and adapter.obs_matches(o, ctx, ret):
                return (fkey, lab, "ok", t, None, variant)
        detail = {
            "from": json.loads(fkey),
            "act": act,
            "args": args,
            "allowed": [{"to": json.loads(t), "ret": r, "obs": o} for t, r, o in allowed],
            "observed": {"state": obs, "ret": ret if isinstance(ret, (str, int, float, bool, type(None), list, dict)) else repr(ret)},
            "path": [json.loads(p) for p in path],
            "variant": variant,
            "exception": exc,
            "adapter_detail": getattr(ctx, "detail", None),
        }
        return (fkey, lab, "mismatch", None, detail, variant)
    finally:
        adapter.cleanup(ctx)


def _worker_init(adapter=None, graph=None):
    if adapter is not None:
        _G["adapter"], _G["graph"] = adapter, graph
    # cogent3 treats multiprocessing children as non-master processes and then
    # skips creating data-store directories; our workers are independent drivers,
    # so present each as a master process.
    import multiprocessing.process as mpp

    mpp._parent_process = None


class Adapter:
    """Binding of one spec to the real code; subclass per spec."""

    check_paths = False
    variants = (0,)

    def fresh(self, variant):
        raise NotImplementedError

    def apply(self, ctx, act, args):
        raise NotImplementedError

    def project(self, ctx):
        raise NotImplementedError

    def cleanup(self, ctx):
        pass

    def ret_matches(self, spec_ret, real_ret):
        return spec_ret is None or spec_ret == real_ret

    def obs_matches(self, spec_obs, ctx, real_ret):
        return True

    def finding_key(self, kind, detail):
        return kind


def explore(graph: Graph, init_state, adapter: Adapter, run, *, nproc=None, budget=None, seed=0, max_depth=None):
    """Breadth-first conformance walk.  Returns dict of counts."""
    nproc = nproc or min(16, os.cpu_count() or 1)
    _G["adapter"], _G["graph"] = adapter, graph
    rnd = random.Random(seed)
    init = skey(init_state)
    # up to two histories per reached state (both of minimal length): the state abstraction leaves out detail that
    # must not matter (e.g. whether a directory currently exists); replaying a state's transitions after different
    # histories is what shows when it does.  Everything below is processed in sorted order: runs are reproducible.
    paths = {init: [[]]}
    frontier = [init]
    done = 0
    mismatches = 0
    skipped = 0
    depth = 0
    ctxm = mp.get_context("fork")
    with ctxm.Pool(nproc, initializer=_worker_init, initargs=(adapter, graph)) as pool:
        while frontier:
            jobs = []
            for f in sorted(frontier):
                for i, lab in enumerate(sorted(graph.labels(f))):
                    for v in adapter.variants:
                        jobs.append((f, lab, paths[f][(i + v) % len(paths[f])], v))
            if budget is not None and done + len(jobs) > budget:
                # stratified by action name: rare actions are covered first, common ones share the rest
                keep = max(0, budget - done)
                skipped += len(jobs) - keep
                rnd.shuffle(jobs)
                groups = defaultdict(list)
                for j in jobs:
                    groups[json.loads(j[1])[0]].append(j)
                picked = []
                while len(picked) < keep and groups:
                    for name in sorted(groups):
                        if len(picked) >= keep:
                            break
                        picked.append(groups[name].pop())
                        if not groups[name]:
                            del groups[name]
                jobs = picked
            nxt = []
            pathof = {(j[0], j[1], j[3]): j[2] for j in jobs}
            results = sorted(pool.imap_unordered(_task, jobs, chunksize=8), key=lambda r: (r[0], r[1], r[5], r[2]))
            level_new = set()
            for fkey, lab, status, t, detail, variant in results:
                done += 1
                if status == "ok":
                    if t not in paths:
                        paths[t] = [pathof[(fkey, lab, variant)] + [lab]]
                        nxt.append(t)
                        level_new.add(t)
                    elif t in level_new and len(paths[t]) < 2:
                        alt = pathof[(fkey, lab, variant)] + [lab]
                        if alt != paths[t][0]:
                            paths[t].append(alt)
                    if done % 997 == 0:
                        act, args = json.loads(lab)
                        run.sample({"from": json.loads(fkey), "act": act, "args": args, "to": json.loads(t)})
                else:
                    mismatches += 1
                    detail = detail or {}
                    detail["status"] = status
                    key = adapter.finding_key(status, {"from": json.loads(fkey), "label": json.loads(lab), **detail})
                    run.fail(key, detail, what=f"{status} at {lab}")
            frontier = nxt
            depth += 1
            if max_depth is not None and depth >= max_depth:
                skipped += sum(len(graph.labels(f)) for f in frontier)
                break
    return {
        "impl_transitions_checked": done,
        "impl_states_reached": len(paths),
        "spec_states": len(graph.states),
        "spec_transitions": graph.ntrans,
        "mismatches": mismatches,
        "skipped_by_budget": skipped,
        "bfs_depth": depth,
    }


# --------------------------------------------------------------------------- planned walks
def plan_walks(graph: Graph, init_state, n, depth, seed=0, gram=3):
    """Plan n label paths of length <= depth through the SPEC graph, greedily covering action-name
    n-grams (so rare multi-step scenarios such as Begin -> SetBadAln -> FailedEnd -> SetAln are
    scheduled on purpose rather than hoped for).  Planning needs no real execution."""
    rnd = random.Random(seed)
    seen = defaultdict(int)
    walks = []
    for _ in range(n):
        cur = skey(init_state)
        path, names = [], []
        for _ in range(depth):
            labs = list(graph.labels(cur))
            if not labs:
                break
            rnd.shuffle(labs)
            byname = defaultdict(list)
            for lab in labs:
                byname[json.loads(lab)[0]].append(lab)

            def cost(name):
                g = tuple(names[-(gram - 1):] + [name])
                return (seen[g], seen[(name,)], rnd.random())

            name = min(byname, key=cost)
            lab = rnd.choice(byname[name])
            names.append(name)
            for k in range(1, gram + 1):
                if len(names) >= k:
                    seen[tuple(names[-k:])] += 1
            path.append(lab)
            cur = graph.succ[cur][lab][0][0]
        walks.append(path)
    return walks


def _walk_task(job):
    adapter, graph = _G["adapter"], _G["graph"]
    init_key, path, variant = job
    ctx = adapter.fresh(variant)
    cur = init_key
    done = 0
    try:
        for lab in path:
            if lab not in graph.succ.get(cur, {}):
                break  # the real code took another allowed successor earlier: the planned label is not enabled here
            act, args = json.loads(lab)
            try:
                ret = adapter.apply(ctx, act, args)
            except Exception as ex:
                import traceback

                return (cur, lab, "exception", done, {"exception": repr(ex), "traceback": traceback.format_exc()[-1500:], "path": path[:done]})
            obs = adapter.project(ctx)
            okey = skey(obs)
            allowed = graph.succ[cur][lab]
            nxt = None
            for t, r, o in allowed:
                if t == okey and adapter.ret_matches(r, ret) and adapter.obs_matches(o, ctx, ret):
                    nxt = t
                    break
            if nxt is None:
                detail = {
                    "from": json.loads(cur), "act": act, "args": args,
                    "allowed": [{"to": json.loads(t), "ret": r, "obs": o} for t, r, o in allowed],
                    "observed": {"state": obs, "ret": ret if isinstance(ret, (str, int, float, bool, type(None), list, dict)) else repr(ret)},
                    "path": [json.loads(p) for p in path[:done]], "exception": getattr(ctx, "last_exc", None),
                    "adapter_detail": getattr(ctx, "detail", None),
                }
                return (cur, lab, "mismatch", done, detail)
            cur = nxt
            done += 1
        return (cur, None, "ok", done, None)
    finally:
        adapter.cleanup(ctx)


def run_walks(graph: Graph, init_state, adapter: Adapter, run, walks, *, nproc=None):
    """Execute planned walks on the real code, checking every step against the spec."""
    nproc = nproc or min(16, os.cpu_count() or 1)
    init = skey(init_state)
    steps = 0
    mism = 0
    ctxm = mp.get_context("fork")
    with ctxm.Pool(nproc, initializer=_worker_init, initargs=(adapter, graph)) as pool:
        jobs = [(init, w, adapter.variants[i % len(adapter.variants)]) for i, w in enumerate(walks)]
        for cur, lab, status, done, detail in pool.imap_unordered(_walk_task, jobs, chunksize=2):
            steps += done
            if status != "ok":
                mism += 1
                detail = detail or {}
                detail["status"] = status
                key = adapter.finding_key(status, {"from": json.loads(cur), "label": json.loads(lab), **detail})
                run.fail(key, detail, what=f"{status} at {lab} (planned walk, step {done + 1})")
    return {"walks": len(walks), "steps_checked": steps, "mismatches": mism}



def replay_detail(adapter: Adapter, detail):
    """Re-execute a recorded mismatch (path + label) on a fresh real object; used by `./check <ID> --replay`."""
    ctx = adapter.fresh(detail.get("variant", adapter.variants[0]) if detail.get("variant") in adapter.variants else adapter.variants[0])
    try:
        for step in detail.get("path", []):
            act, args = (step if isinstance(step, list) else json.loads(step))
            adapter.apply(ctx, act, args)
        ret = adapter.apply(ctx, detail["act"], detail["args"])
        obs = adapter.project(ctx)
        ok = any(skey(a["to"]) == skey(obs) and adapter.ret_matches(a.get("ret"), ret) for a in detail.get("allowed", []))
        return {"observed": obs, "ret": ret, "reproduced": not ok}
    finally:
        adapter.cleanup(ctx)
