"""C10: registry of serialisable object kinds: how to build one, the view / mutation operations
of its state machine, and the observable projection compared before / after a round trip.
Names must match specs/MC_Serialise.tla (checked at start-up)."""
from __future__ import annotations

import json
from pathlib import Path

import numpy as np

DNA = "ACGTTGCAAGTCCANRTA-GGCTAAC"


def _num(x):
    if isinstance(x, (np.floating, float)):
        return round(float(x), 10)
    if isinstance(x, (np.integer, int)):
        return int(x)
    return x


def _norm(x):
    if isinstance(x, dict):
        return {str(k): _norm(v) for k, v in sorted(x.items(), key=lambda kv: str(kv[0]))}
    if isinstance(x, (list, tuple)):
        return [_norm(v) for v in x]
    if isinstance(x, np.ndarray):
        return _norm(x.tolist())
    return _num(x)


# ------------------------------------------------------------------ sequences
def _feat_proj(seq):
    out = []
    try:
        feats = list(seq.get_features(allow_partial=True))
    except Exception as ex:  # C04 territory; not a serialisation matter
        return [f"get_features-raised:{type(ex).__name__}"]
    for f in feats:
        try:
            sl = str(f.get_slice())
        except Exception as ex:
            sl = f"raised:{type(ex).__name__}"
        out.append([f.biotype, f.name, _norm(f.map.get_coordinates()), sl])
    return sorted(out, key=json.dumps)


def seq_proj(s):
    pc = s.parent_coordinates() if hasattr(s, "parent_coordinates") else None
    if pc is not None and pc[0] is None:
        pc = (s.name,) + tuple(pc[1:])  # a view that lost its seqid (after to_rna/to_dna) answers with the name once rebuilt
    return {"str": str(s), "name": s.name, "moltype": getattr(s.moltype, "label", None) or getattr(s.moltype, "name", None), "len": len(s), "coords": _norm(pc), "offset": _norm(getattr(s, "annotation_offset", None)), "features": _feat_proj(s)}


def make_seq_old():
    from cogent3 import make_seq

    s = make_seq(DNA.replace("-", ""), name="s1", moltype="dna", annotation_offset=5)
    s.add_feature(biotype="gene", name="g1", spans=[(2, 6), (9, 14)])
    s.add_feature(biotype="exon", name="e1", spans=[(10, 13)], strand="-")
    return s


def make_seq_new():
    from cogent3.core.new_moltype import get_moltype

    s = get_moltype("dna").make_seq(seq=DNA.replace("-", ""), name="s1", annotation_offset=5)
    s.add_feature(biotype="gene", name="g1", spans=[(2, 6), (9, 14)])
    s.add_feature(biotype="exon", name="e1", spans=[(10, 13)], strand="-")
    return s


SEQ_OPS = {
    "slice_mid": lambda s: s[3:16],
    "slice_neg": lambda s: s[1:-2],
    "rc": lambda s: s.rc(),
    "to_rna": lambda s: s.to_rna(),
    "stride2": lambda s: s[::2],
    "add_feature": lambda s: (s.add_feature(biotype="cds", name="c1", spans=[(1, 4)]), s)[1],
}


# ------------------------------------------------------------------ alignments / collections
ALN = {"a": "ACGTTGCA-GTCCA", "b": "--GTTGCAAGT-CA", "c": "AC--TGCAAGTC--", "d": "ACGTTGNAAGTCCA"}


def aln_proj(a):
    d = {"names": list(a.names), "seqs": {k: str(v) for k, v in a.to_dict().items()}, "moltype": getattr(a.moltype, "label", None) or getattr(a.moltype, "name", None), "len": len(a) if hasattr(a, "__len__") else None}
    try:
        feats = []
        for f in a.get_features(allow_partial=True):
            feats.append([f.biotype, f.name, _norm(f.map.get_coordinates())])
        d["features"] = sorted(feats, key=json.dumps)
    except Exception as ex:
        d["features"] = f"raised:{type(ex).__name__}"
    d["info_keys"] = sorted(k for k in (a.info or {}) if k != "source")
    return d


def make_aln(array_align):
    from cogent3 import make_aligned_seqs

    a = make_aligned_seqs(ALN, moltype="dna", array_align=array_align, info={"note": "x"})
    if not array_align:
        a.add_feature(biotype="gene", name="g1", spans=[(2, 8)], seqid="a", on_alignment=False)
    return a


def make_coll():
    from cogent3 import make_unaligned_seqs

    return make_unaligned_seqs({k: v.replace("-", "") for k, v in ALN.items()}, moltype="dna", info={"note": "x"})


def make_new_coll():
    from cogent3.core import new_alignment

    return new_alignment.make_unaligned_seqs({k: v.replace("-", "") for k, v in ALN.items()}, moltype="dna")


def make_new_aln():
    from cogent3.core import new_alignment

    return new_alignment.make_aligned_seqs(ALN, moltype="dna")


ALN_OPS = {
    "slice_cols": lambda a: a[2:11],
    "take_seqs": lambda a: a.take_seqs(["c", "a", "d"]),
    "rc": lambda a: a.rc(),
    "omit_gap_pos": lambda a: a.omit_gap_pos(),
    "to_rna": lambda a: a.to_rna() if hasattr(a, "to_rna") else a.to_moltype("rna"),
    "take_positions": lambda a: a.take_positions([0, 3, 4, 9, 12]),
    "modified_termini": lambda a: a.with_modified_termini(),
}
COLL_OPS = {
    "take_seqs": lambda a: a.take_seqs(["c", "a", "d"]),
    "rc": lambda a: a.rc(),
    "to_rna": lambda a: a.to_rna() if hasattr(a, "to_rna") else a.to_moltype("rna"),
    "rename": lambda a: a.rename_seqs(lambda n: n.upper()),
}


# ------------------------------------------------------------------ trees
def tree_proj(t):
    d = t.get_distances() if any(n.length is not None for n in t.preorder()) else {}
    return {"newick": t.get_newick(with_distances=True, with_node_names=True), "tips": sorted(t.get_tip_names()), "dists": _norm({f"{a}|{b}": v for (a, b), v in d.items()}), "params": _norm({n.name: {k: v for k, v in n.params.items()} for n in t.preorder() if getattr(n, "params", None)})}


def make_tree_():
    from cogent3 import make_tree

    return make_tree("((a:1.0,'b c':2.0)ab:0.5,(c:3.0,(d:0.25,e_1:4.0)de:1.5)cde:0.75)root;")


TREE_OPS = {
    "rooted_at": lambda t: t.rooted_at("de"),
    "sorted": lambda t: t.sorted(),
    "sub_tree": lambda t: t.get_sub_tree(["a", "c", "d", "e_1"]),
    "bifurcating": lambda t: t.bifurcating(),
}


def make_tree_plain():
    from cogent3 import make_tree

    t = make_tree("((Human:0.1,Chimp:0.2)apes:0.3,(Mouse:0.4,(Rat:0.25,Vole:0.5)rv:0.15)rodents:0.6)root;")
    t.get_node_matching_name("rv").params["support"] = 0.9
    return t


def _rename(t, old, new):
    t = t.deepcopy()
    t.get_node_matching_name(old).name = new
    return t


# names that are legal but unusual, on CLADES only / on a tip: blanks, quotes, doubled quotes, brackets, colon, unicode, digits
TREE_NAME_OPS = {
    "clade_blank": lambda t: _rename(t, "apes", "Great apes"),
    "clade_blank2": lambda t: _rename(t, "rodents", "Order Rodentia"),
    "clade_quotes": lambda t: _rename(t, "rv", 'r""v'),
    "tip_odd": lambda t: _rename(t, "Vole", "K12 [wild]: #1|é"),
    "tip_digits": lambda t: _rename(t, "Mouse", "007"),
    "sorted": lambda t: t.sorted(),
}


# ------------------------------------------------------------------ tables / dict arrays
def table_proj(t):
    return {"header": list(t.header), "rows": _norm(t.to_list()), "title": t.title, "legend": t.legend, "index": t.index_name, "types": [str(t.columns[c].dtype.kind) for c in t.header]}


def make_table_():
    from cogent3 import make_table

    return make_table(header=["id", "n", "x", "s"], data=[["a", 2, 0.5, "p,q"], ["b", 1, 1.5, ""], ["c", 2, 2.5, 'q"r']], title="T", legend="L", index_name="id")


TABLE_OPS = {
    "sorted": lambda t: t.sorted(columns="n"),
    "filtered": lambda t: t.filtered(lambda n: n > 1, columns="n"),
    "get_columns": lambda t: t.get_columns(["id", "x"]),
    "with_new_column": lambda t: t.with_new_column("y", lambda x: x * 2, columns="x"),
    "transposed": lambda t: t.get_columns(["id", "n", "x"]).transposed("k", select_as_header="id"),
}


def darr_proj(d):
    return {"names": _norm(d.template.names), "array": _norm(d.array), "type": type(d).__name__}


def make_dists():
    from cogent3.evolve.fast_distance import DistanceMatrix

    names = ["a", "b", "c", "d"]
    vals = {(x, y): abs(i - j) * 0.25 + (0.1 if (i + j) % 2 else 0) for i, x in enumerate(names) for j, y in enumerate(names) if i != j}
    return DistanceMatrix(vals)


def make_darr():
    from cogent3.util.dict_array import DictArrayTemplate

    return DictArrayTemplate(["r1", "r2"], ["A", "C", "G"]).wrap([[1, 2, 3], [4, 5, 6]])


def _dist_set_cells(d):
    # in-place edits of single cells (DistanceMatrix.__setitem__ sets that one cell): the matrix is no longer symmetric
    names = list(d.template.names[0])
    d[names[-1], names[0]] = 0.9
    d[names[0], names[1]] = 0.6
    return d


DIST_OPS = {"take_dists": lambda d: d.take_dists(["a", "c", "d"]), "drop": lambda d: d.take_dists(["b"], negate=True), "set_cells": _dist_set_cells}
DARR_OPS = {"row": lambda d: d[["r2", "r1"]] if False else d.take_dimension(0, ["r2", "r1"]) if hasattr(d, "take_dimension") else d, "to_normalized": lambda d: d.to_normalized(by_row=True)}


# ------------------------------------------------------------------ maps
def map_proj(m):
    d = {"type": type(m).__name__, "parent_length": _norm(m.parent_length), "len": len(m), "termini_unknown": bool(getattr(m, "termini_unknown", False))}
    if hasattr(m, "spans"):
        d["span_types"] = [type(s).__name__ for s in m.spans]
    if hasattr(m, "gap_pos"):
        d["gap_pos"] = _norm(m.gap_pos)
        d["cum"] = _norm(m.cum_gap_lengths)
    else:
        d["spans"] = [[type(s).__name__, _norm(getattr(s, "start", None)), _norm(getattr(s, "end", None)), bool(getattr(s, "reverse", False)), _norm(getattr(s, "length", None))] for s in m.spans]
    return d


def make_indelmap():
    from cogent3 import make_seq

    return make_seq("--AC--GTT-AC-G-", moltype="dna").parse_out_gaps()[0]


def make_featuremap():
    from cogent3.core.location import FeatureMap

    return FeatureMap.from_locations(locations=[(2, 5), (8, 11)], parent_length=14)


IMAP_OPS = {"slice": lambda m: m[2:9], "reversed": lambda m: m.nucleic_reversed(), "termini_unknown": lambda m: m.with_termini_unknown()}


def make_aligned():
    return make_aln(False).named_seqs["b"]


def aligned_proj(a):
    return {"str": str(a), "name": a.name, "len": len(a), "map": map_proj(a.map), "data": str(a.data)}


ALIGNED_OPS = {"slice": lambda a: a[1:12], "termini_unknown": lambda a: a.with_termini_unknown(), "rc": lambda a: a.rc() if hasattr(a, "rc") else a}
FMAP_OPS = {"reversed": lambda m: m.nucleic_reversed(), "covered": lambda m: m.covered(), "slice": lambda m: m[1:5]}


# ------------------------------------------------------------------ annotation db
def adb_proj(db):
    recs = []
    for r in db.get_records_matching():
        recs.append({k: _norm(r.get(k)) for k in ("seqid", "biotype", "name", "strand", "spans", "parent_id")})
    return {"type": type(db).__name__, "records": sorted(recs, key=json.dumps), "n": db.num_matches()}


def make_adb():
    from cogent3.core.annotation_db import BasicAnnotationDb

    db = BasicAnnotationDb()
    db.add_feature(seqid="s1", biotype="gene", name="g1", spans=[(2, 6), (9, 14)], strand="+")
    db.add_feature(seqid="s2", biotype="exon", name="e1", spans=[(0, 3)], strand="-")
    return db


def _adb_add(db):
    db.add_feature(seqid="s1", biotype="cds", name="c1", spans=[(4, 5)], strand="-")
    return db


ADB_OPS = {"add": _adb_add, "subset": lambda db: db.subset(seqid="s1"), "union": lambda db: db.union(make_adb())}


# ------------------------------------------------------------------ likelihood functions
def lf_proj(lf):
    rules = []
    for r in lf.get_param_rules():
        rules.append({k: _norm(v) for k, v in r.items()})
    return {"lnL": round(float(lf.lnL), 8), "nfp": lf.nfp, "rules": sorted(rules, key=json.dumps), "tree": sorted(n.name for n in lf.tree.preorder()), "tips": sorted(lf.tree.get_tip_names()), "mprobs": _norm(lf.get_motif_probs().to_dict() if hasattr(lf.get_motif_probs(), "to_dict") else dict(lf.get_motif_probs())), "model": lf.model.name}


def make_lf():
    from cogent3 import get_model, make_aligned_seqs, make_tree

    tree = make_tree("((a:0.1,b:0.2):0.05,c:0.3,d:0.15)")
    aln = make_aligned_seqs({k: v.replace("R", "A") for k, v in ALN.items()}, moltype="dna")
    lf = get_model("HKY85").make_likelihood_function(tree)
    lf.set_alignment(aln)
    return lf


def _lf_scope(lf):
    lf.set_param_rule("kappa", edges=["a", "b"], is_independent=False, init=2.5)
    return lf


def _lf_const(lf):
    lf.set_param_rule("kappa", is_constant=True, value=3.0)
    return lf


def _lf_mprobs(lf):
    lf.set_motif_probs({"A": 0.1, "C": 0.2, "G": 0.3, "T": 0.4})
    return lf


def _lf_opt(lf):
    lf.optimise(max_evaluations=15, limit_action="ignore", show_progress=False)
    return lf


LF_OPS = {"scope": _lf_scope, "const": _lf_const, "mprobs": _lf_mprobs, "optimise": _lf_opt}

LOCI = ["exon2", "exon1"]  # deliberately not in lexicographic order


def make_lf_multi():
    from cogent3 import get_model, make_aligned_seqs, make_tree

    tree = make_tree("((a:0.1,b:0.2):0.05,c:0.3,d:0.15)")
    a1 = make_aligned_seqs({k: v.replace("R", "A") for k, v in ALN.items()}, moltype="dna")
    a2 = make_aligned_seqs({"a": "TTGACCAGTACA", "b": "TTGACTAGTACA", "c": "TAGACCAGTGCA", "d": "TTGTCCAGTACA"}, moltype="dna")
    lf = get_model("HKY85").make_likelihood_function(tree, loci=LOCI)
    lf.set_alignment([a1, a2])
    return lf


def lf_multi_proj(lf):
    d = lf_proj(lf)
    d["alignments"] = {name: {k: str(v) for k, v in lf.get_param_value("alignment", locus=name).to_dict().items()} for name in LOCI}
    return d


def _lfm_locus_kappa(lf):
    lf.set_param_rule("kappa", locus="exon1", init=4.0)
    return lf


LFM_OPS = {"const": _lf_const, "locus_kappa": _lfm_locus_kappa}


# rate heterogeneity: site classes (bins) with free / gamma rates, independent or along a site-HMM
def _make_lf_bins(distribution, bins, indep):
    from cogent3 import get_model, make_aligned_seqs, make_tree

    tree = make_tree("((a:0.1,b:0.2):0.05,c:0.3,d:0.15)")
    aln = make_aligned_seqs({k: (v.replace("R", "A")) * 3 for k, v in ALN.items()}, moltype="dna")
    lf = get_model("HKY85", ordered_param="rate", distribution=distribution).make_likelihood_function(tree, bins=bins, sites_independent=indep)
    lf.set_alignment(aln)
    return lf


def lf_bins_proj(lf):
    d = lf_proj(lf)
    d["rates"] = [round(float(lf.get_param_value("rate", bin=b)), 8) for b in lf.bin_names]
    d["bprobs"] = [round(float(x), 8) for x in lf.get_param_value("bprobs")]
    d["bins"] = list(lf.bin_names)
    return d


def _lfb_bprobs(lf):
    n = len(lf.bin_names)
    w = [i + 1.0 for i in range(n)]
    lf.set_param_rule("bprobs", init=[x / sum(w) for x in w])
    return lf


def _lfb_shape(lf):
    lf.set_param_rule("rate_shape", init=0.4)
    return lf


def _lfb_switch(lf):
    lf.set_param_rule("bin_switch", init=0.2)
    return lf


def _lfb_opt(lf):
    lf.optimise(max_evaluations=40, limit_action="ignore", show_progress=False)
    return lf


LFB_FREE_OPS = {"bprobs": _lfb_bprobs, "optimise": _lfb_opt, "const": _lf_const}
LFB_GAMMA_OPS = {"bprobs": _lfb_bprobs, "shape": _lfb_shape, "optimise": _lfb_opt}
LFB_HMM_OPS = {"bprobs": _lfb_bprobs, "switch": _lfb_switch, "shape": _lfb_shape}


# ------------------------------------------------------------------ static things, results
def static_proj(o):
    d = o.to_rich_dict() if hasattr(o, "to_rich_dict") else {"repr": repr(o)}
    d = dict(d)
    d.pop("version", None)
    return _norm(json.loads(json.dumps(d, default=str)))


def make_submodel():
    from cogent3 import get_model

    return get_model("GTR")


def make_codon_model():
    from cogent3 import get_model

    return get_model("MG94HKY")


def make_moltype():
    from cogent3 import get_moltype

    return get_moltype("dna")


def make_alphabet():
    from cogent3 import get_moltype

    return get_moltype("dna").alphabet.get_word_alphabet(2)


def make_alphabet_char():
    from cogent3 import get_moltype

    return get_moltype("dna").alphabet  # old-style CharAlphabet in the moltype's standard order


def alphabet_proj(a):
    d = static_proj(a)
    motifs = [str(m) for m in a]
    d["order"] = motifs
    try:
        d["indices"] = [int(i) for i in a.to_indices(motifs[::-1] + motifs[:2])]
    except Exception as ex:
        d["indices"] = type(ex).__name__
    return d


# states of an alphabet: the SAME motifs in another order is a different alphabet (the index of every motif differs)
ALPHA_OPS = {
    "reordered": lambda a: a.get_subset([m for m in "ACGT" if m in a] or list(a)[::-1]) if len(list(a)[0]) == 1 else a.__class__(list(a)[::-1], moltype=a.moltype),
    "words2": lambda a: a.get_word_alphabet(2),
    "with_gap": lambda a: a.with_gap_motif(),
}


def make_submodel_user():
    """a model that is not one of the named ones, over an alphabet in NON-standard motif order"""
    from cogent3 import get_moltype
    from cogent3.evolve.predicate import MotifChange
    from cogent3.evolve.substitution_model import TimeReversibleNucleotide

    alpha = get_moltype("dna").alphabet.get_subset("ACGT")
    return TimeReversibleNucleotide(alphabet=alpha, predicates={"kappa": MotifChange("A", "G") | MotifChange("C", "T")}, name="userHKY")


def submodel_user_proj(sm):
    d = static_proj(sm)
    d["order"] = [str(m) for m in sm.get_alphabet()]
    return d


def make_notcompleted():
    from cogent3.app.composable import NotCompleted

    return NotCompleted("FAIL", "some_app", "a message", source="file.fa")


def nc_proj(n):
    return {"type": n.type, "origin": n.origin, "message": n.message, "source": n.source, "bool": bool(n)}


def make_model_result():
    from cogent3 import get_app, make_aligned_seqs

    aln = make_aligned_seqs({k: v.replace("R", "A") for k, v in ALN.items() if k != "d"}, moltype="dna", info={"source": "x.fa"})
    app = get_app("model", "F81", opt_args=dict(max_evaluations=10, limit_action="ignore"), show_progress=False)
    return app(aln)


def model_result_proj(r):
    return {"type": type(r).__name__, "lnL": round(float(r.lnL), 8), "nfp": r.nfp, "name": r.name, "source": getattr(r, "source", None), "keys": sorted(r.keys()) if hasattr(r, "keys") else None}


def make_generic_result():
    from cogent3.app.result import generic_result

    g = generic_result(source="x.fa")
    g["a"] = {"k": [1, 2, 3]}
    g["t"] = make_table_()
    return g


def generic_result_proj(g):
    out = {"source": g.source, "keys": sorted(g.keys())}
    g.deserialised_values()
    out["a"] = _norm(g["a"])
    out["t"] = table_proj(g["t"]) if hasattr(g["t"], "header") else repr(type(g["t"]))
    return out


def _gr_add(g):
    g["b"] = make_tree_()
    return g


# ------------------------------------------------------------------ further registered serialisable kinds
def make_adb_gff():
    import tempfile

    from cogent3 import load_annotations

    gff = (
        "##gff-version 3\n"
        "s1\tx\tgene\t3\t14\t.\t+\t.\tID=g1;Note=a b\n"
        "s1\tx\texon\t3\t6\t.\t+\t.\tID=e1;Parent=g1\n"
        "s1\tx\texon\t10\t14\t.\t+\t.\tID=e1;Parent=g1\n"
        "s2\ty\tCDS\t1\t3\t.\t-\t0\tID=c1\n"
    )
    with tempfile.TemporaryDirectory(dir="/var/tmp") as d:
        path = Path(d) / "x.gff3"
        path.write_text(gff)
        return load_annotations(path=path)


def make_adb_gb():
    from cogent3.core.annotation_db import GenbankAnnotationDb

    db = GenbankAnnotationDb()
    db.add_feature(seqid="s1", biotype="gene", name="g1", spans=[(2, 6), (9, 14)], strand="+")
    db.add_feature(seqid="s1", biotype="CDS", name="c1", spans=[(3, 6)], strand="-")
    return db


def make_new_alpha_char():
    from cogent3.core.new_moltype import get_moltype

    return get_moltype("dna").alphabet


def make_new_alpha_kmer():
    from cogent3.core.new_moltype import get_moltype

    return get_moltype("dna").alphabet.get_kmer_alphabet(2)


def make_new_alpha_codon():
    from cogent3.core.new_genetic_code import get_code

    return get_code(2).get_alphabet()


def make_seqview():
    from cogent3.core.sequence import SeqView

    return SeqView(seq=DNA.replace("-", ""), seqid="s1", offset=3)


def seqview_proj(v):
    # a bare SeqView's rich dict holds the covered segment, seqid and step only (the owning Sequence records the offset):
    # what it promises is the string, identity, length and orientation
    return {"str": str(v), "seqid": v.seqid, "len": len(v), "reversed": bool(v.is_reversed), "step": abs(_norm(v.step))}


SEQVIEW_OPS = {"slice_mid": lambda v: v[3:16], "reverse": lambda v: v[::-1], "stride2": lambda v: v[::2], "slice_neg": lambda v: v[1:-2]}


def make_ns_submodel():
    from cogent3 import get_model

    return get_model("GN")


def make_lf_gn():
    from cogent3 import get_model, make_aligned_seqs, make_tree

    tree = make_tree("((a:0.1,b:0.2):0.05,c:0.3,d:0.15)")
    aln = make_aligned_seqs({k: v.replace("R", "A") for k, v in ALN.items()}, moltype="dna")
    lf = get_model("GN").make_likelihood_function(tree)
    lf.set_alignment(aln)
    return lf


def _lf_gn_term(lf):
    lf.set_param_rule("A>G", init=2.5)
    lf.set_param_rule("C>T", edges=["a", "b"], is_independent=False, init=0.4)
    return lf


def make_hyp_result():
    from cogent3 import get_app, make_aligned_seqs

    aln = make_aligned_seqs({k: v.replace("R", "A") for k, v in ALN.items() if k != "d"}, moltype="dna", info={"source": "x.fa"})
    opt = dict(max_evaluations=8, limit_action="ignore")
    m0 = get_app("model", "F81", opt_args=opt, show_progress=False)
    m1 = get_app("model", "HKY85", opt_args=opt, show_progress=False)
    return get_app("hypothesis", m0, m1)(aln)


def hyp_result_proj(r):
    return {"type": type(r).__name__, "LR": round(float(r.LR), 7), "df": r.df, "null": round(float(r.null.lnL), 7), "alt": round(float(r.alt.lnL), 7), "source": getattr(r, "source", None), "keys": sorted(str(k) for k in r.keys())}


def make_tab_result():
    from cogent3.app.result import tabular_result

    r = tabular_result(source="x.fa")
    r["counts"] = make_table_()
    r["dists"] = make_dists()
    return r


def tab_result_proj(r):
    r.deserialised_values()
    return {"source": r.source, "keys": sorted(r.keys()), "counts": table_proj(r["counts"]) if hasattr(r["counts"], "header") else repr(type(r["counts"])), "dists": darr_proj(r["dists"]) if hasattr(r["dists"], "template") else repr(type(r["dists"]))}


KINDS = {
    # kind: (factory, ops, projection)
    "seq_old": (make_seq_old, SEQ_OPS, seq_proj),
    "seq_new": (make_seq_new, SEQ_OPS, seq_proj),
    "aln": (lambda: make_aln(False), ALN_OPS, aln_proj),
    "array_aln": (lambda: make_aln(True), ALN_OPS, aln_proj),
    "coll": (make_coll, COLL_OPS, aln_proj),
    "new_coll": (make_new_coll, COLL_OPS, aln_proj),
    "tree": (make_tree_, TREE_OPS, tree_proj),
    "tree_names": (make_tree_plain, TREE_NAME_OPS, tree_proj),
    "table": (make_table_, TABLE_OPS, table_proj),
    "dists": (make_dists, DIST_OPS, darr_proj),
    "dict_array": (make_darr, {"to_normalized": DARR_OPS["to_normalized"]}, darr_proj),
    "indel_map": (make_indelmap, IMAP_OPS, map_proj),
    "feature_map": (make_featuremap, FMAP_OPS, map_proj),
    "aligned": (make_aligned, ALIGNED_OPS, aligned_proj),
    "annotation_db": (make_adb, ADB_OPS, adb_proj),
    "lf": (make_lf, LF_OPS, lf_proj),
    "lf_multilocus": (make_lf_multi, LFM_OPS, lf_multi_proj),
    "lf_rate_free": (lambda: _make_lf_bins("free", 2, True), LFB_FREE_OPS, lf_bins_proj),
    "lf_rate_gamma": (lambda: _make_lf_bins("gamma", 3, True), LFB_GAMMA_OPS, lf_bins_proj),
    "lf_site_hmm": (lambda: _make_lf_bins("gamma", 2, False), LFB_HMM_OPS, lf_bins_proj),
    "annotation_db_gff": (make_adb_gff, {"add": _adb_add, "subset": ADB_OPS["subset"]}, adb_proj),
    "annotation_db_gb": (make_adb_gb, {"add": _adb_add, "subset": ADB_OPS["subset"]}, adb_proj),
    "seqview": (make_seqview, SEQVIEW_OPS, seqview_proj),
    "lf_gn": (make_lf_gn, {"term": _lf_gn_term, "optimise": _lf_opt, "mprobs": _lf_mprobs}, lf_proj),
    "ns_submodel": (make_ns_submodel, {}, static_proj),
    "new_alphabet_char": (make_new_alpha_char, {}, static_proj),
    "new_alphabet_kmer": (make_new_alpha_kmer, {}, static_proj),
    "new_alphabet_codon": (make_new_alpha_codon, {}, static_proj),
    "hypothesis_result": (make_hyp_result, {}, hyp_result_proj),
    "tabular_result": (make_tab_result, {}, tab_result_proj),
    "submodel": (make_submodel, {}, static_proj),
    "codon_model": (make_codon_model, {}, static_proj),
    "moltype": (make_moltype, {}, static_proj),
    "alphabet": (make_alphabet, {}, static_proj),
    "alphabet_char": (make_alphabet_char, ALPHA_OPS, alphabet_proj),
    "submodel_user": (make_submodel_user, {}, submodel_user_proj),
    "not_completed": (make_notcompleted, {}, nc_proj),
    "model_result": (make_model_result, {}, model_result_proj),
    "generic_result": (make_generic_result, {"add_tree": _gr_add}, generic_result_proj),
}


def roundtrip(obj, method):
    import pickle

    from cogent3.util.deserialise import deserialise_object

    if method == "pickle":
        return pickle.loads(pickle.dumps(obj))
    if hasattr(obj, "to_json"):
        js = obj.to_json()
    else:
        js = json.dumps(obj.to_rich_dict())
    return deserialise_object(js)


def mc_module_text():
    """The TLA+ constants module listing kinds and operations (specs/MC_Serialise.tla)."""
    lines = ["---------------------------- MODULE MC_Serialise ----------------------------",
             "(* GENERATED from harness/kinds_C10.py (python harness/kinds_C10.py); the check refuses to run if they differ. *)",
             "EXTENDS Serialise", ""]
    cases = []
    for kind, (_, ops, _) in KINDS.items():
        opset = "{" + ", ".join(f'"{o}"' for o in sorted(ops)) + "}"
        cases.append(f'k = "{kind}" -> {opset}')
    kinds = "{" + ", ".join(f'"{k}"' for k in KINDS) + "}"
    lines.append(f"Kinds == {kinds}")
    lines.append("KindOpsDef == [k \\in Kinds |-> CASE " + "\n                                  [] ".join(cases) + "]")
    lines.append("=============================================================================")
    return "\n".join(lines) + "\n"


if __name__ == "__main__":
    import pathlib

    pathlib.Path(__file__).resolve().parent.parent.joinpath("specs", "MC_Serialise.tla").write_text(mc_module_text())
