"""C17 growth: replay of specs/AnnotDbLoad.tla — what records a GFF3 file denotes.

TLC enumerates every small well-formed file (multi-line features sharing an ID, lines without
ID, Parent= references, two seqids, both strands, an ID containing an escape sequence), every
seqids= filter, two values of lines_per_block, loading into an empty database or one that
already holds a user record, and loading the same file a second time.  Each emitted transition
is executed for real: the file is written as text and loaded with
cogent3.load_annotations(path=..., seqids=..., db=..., lines_per_block=...); the records of the
database (all columns incl. parent_id, start, stop) and get_feature_children(name=<parent id>)
are compared, as multisets, with the spec's Features(file) appended to what was there.
"""
from __future__ import annotations

import json
import multiprocessing as mp
import os
import random
import re
import zlib
from collections import defaultdict, deque

import adb_C17 as A
from graph import _worker_init, skey
from tlc import MachineryError, run_tlc

_L: dict = {}
NOID = "-"


def file_text(lines):
    """lines as rendered by the spec: the attribute column is the given key=value tokens, in the given order"""
    out = ["##gff-version 3\n", "# written by the C17 check\n"]
    for ln in lines:
        f, l = ln["c"]
        attrs = ";".join(f"{k}={v}" for k, v in ln["attrs"])
        out.append(f"{ln['seqid']}\tverif\t{ln['biotype']}\t{f}\t{l}\t.\t{ln['strand']}\t.\t{attrs}\n")
    return "".join(out)


def tokens(text):
    """the stored attributes column, split back into (key, value) tokens"""
    if not text:
        return ()
    return tuple(tuple(t.split("=", 1)) for t in text.split(";"))


def rec8p(row):
    spans = tuple((int(a), int(b)) for a, b in row["spans"])
    name = row["name"]
    if name is not None and re.fullmatch(r"unknown-\d+", name):
        name = "unknown"  # the database invents a name for a feature without ID
    return (row["seqid"], row["biotype"], name, row.get("parent_id") or NOID, row["strand"], spans, int(row["start"]), int(row["stop"]), tokens(row.get("attributes")))


def spec8p(r):
    return (r["seqid"], r["biotype"], r["name"], r["parent"], r["strand"], tuple((a, b) for a, b in r["spans"]), r["start"], r["stop"], tuple((k, v) for k, v in r["attrs"]))


def feat5p(row):
    name = row["name"]
    if name is not None and re.fullmatch(r"unknown-\d+", name):
        name = "unknown"
    return (row["seqid"], row["biotype"], name, row["strand"], tuple((int(a), int(b)) for a, b in row["spans"]))


class Ctx:
    def __init__(self, workdir):
        self.workdir = workdir
        self.db = None
        self.n = 0

    def apply(self, act, args):
        from cogent3.core.annotation_db import GffAnnotationDb, load_annotations

        if act == "AddUser":
            u = args[0]
            self.db = GffAnnotationDb()
            self.db.add_feature(seqid=u["seqid"], biotype=u["biotype"], name=u["name"], spans=[tuple(s) for s in u["spans"]], strand=u["strand"])
        elif act == "Load":
            lines, filt, blk = args
            self.n += 1
            path = os.path.join(self.workdir, f"c17l-{os.getpid()}-{self.n}.gff")
            with open(path, "w") as fh:
                fh.write(file_text(lines))
            try:
                seqids = None if not filt else (filt[0] if len(filt) == 1 else list(filt))
                self.db = load_annotations(path=path, seqids=seqids, db=self.db, lines_per_block=blk)
            finally:
                os.unlink(path)
        else:
            raise ValueError(act)

    def observed(self):
        recs = sorted(rec8p(r) for r in self.db.get_records_matching())
        kids = sorted(feat5p(r) for r in self.db.get_feature_children(name="a"))
        return recs, kids


def step_key(frm, act, args, what):
    if act != "Load":
        return f"gff:load:{act}:{what}"
    lines, filt, blk = args
    kept = [ln for ln in lines if not filt or ln["seqid"] in filt]
    ids = [ln["id"] for ln in kept if ln["id"] != NOID]
    split = "yes" if len(ids) != len(set(ids)) else "no"
    f = "none" if not filt else ("one" if len(filt) == 1 else "all")
    existing = "yes" if any(r["name"] == "u1" for r in frm["recs"]) else "no"
    key = f"gff:load:Load:block={'1' if blk == 1 else 'big'}:filter={f}:multiline-feature={split}:nth={frm['nloads'] + 1}:existing-records={existing}"
    extra = sorted({k for ln in kept for k, _v in ln["attrs"] if k not in ("ID", "Parent")})
    if extra:
        idless = sum(1 for ln in kept if ln["id"] == NOID and any(k not in ("ID", "Parent") for k, _v in ln["attrs"]))
        first = any(ln["attrs"] and ln["attrs"][0][0] in ("ID", "Parent") and len(ln["attrs"]) > 1 and ln["attrs"][-1][0] not in ("ID", "Parent") for ln in kept)
        key += f":other-keys={'+'.join(extra)}:id-less-lines-with-them={min(idless, 2)}:{'own-keys-first' if first else 'own-keys-last-or-absent'}"
    return key + f":{what}"


def _group(raw):
    """all transitions of the behaviours of one (file, filter)"""
    succ = defaultdict(list)
    states = {}
    for line in raw:
        v = json.loads(line)
        f = skey(v["from"])
        states[f] = v["from"]
        succ[f].append((v["act"], v.get("args", []), v["to"], v["kids"]))
    init = [k for k, s in states.items() if not s["recs"] and s["nloads"] == 0]
    if len(init) != 1:
        raise MachineryError("AnnotDbLoad: no unique initial state in a group")
    paths = {init[0]: []}
    queue = deque(init)
    while queue:
        f = queue.popleft()
        for act, args, to, kids in sorted(succ.get(f, []), key=lambda t: skey([t[0], t[1]])):
            t = skey(to)
            if t not in paths:
                paths[t] = paths[f] + [(states[f], act, args, to, kids)]
                queue.append(t)
    rng = random.Random(f"{_L['seed']}:{zlib.crc32(init[0].encode())}")
    n = 0
    fails = []
    sample = None
    for f in sorted(succ):
        if f not in paths:
            continue
        for act, args, to, kids in succ[f]:
            interesting = act == "Load" and "multiline-feature=yes" in step_key(states[f], act, args, "")
            if not interesting and rng.random() > _L["fraction"]:
                continue
            steps = paths[f] + [(states[f], act, args, to, kids)]
            ctx = Ctx(_L["workdir"])
            for i, (frm, a, g, t, k) in enumerate(steps):
                last = i == len(steps) - 1
                try:
                    ctx.apply(a, g)
                    got = ctx.observed()
                except Exception as ex:
                    if last:
                        fails.append((step_key(frm, a, g, f"exception:{type(ex).__name__}"), {"from": frm, "act": a, "args": g, "exception": repr(ex), "file": file_text(g[0]) if a == "Load" else None}, f"{a} raised {type(ex).__name__}"))
                    break
                exp = (sorted(spec8p(r) for r in t["recs"]), sorted(spec8p(t["recs"][j - 1])[:3] + spec8p(t["recs"][j - 1])[4:6] for j in k))
                if got != exp:
                    if last:
                        d1, _x = A.diff_class(exp[0], got[0])
                        if d1 and d1.startswith("seqid-altered") is False and len(exp[0]) == len(got[0]):
                            for col, name in ((2, "name"), (3, "parent"), (8, "attributes")):
                                if sorted(t[:col] + t[col + 1 :] for t in exp[0]) == sorted(t[:col] + t[col + 1 :] for t in got[0]):
                                    d1 = f"{name}-altered"
                                    break
                        what = f"records:{d1}" if d1 else "children"
                        fails.append((step_key(frm, a, g, what), {"from": frm, "act": a, "args": g, "file": file_text(g[0]) if a == "Load" else None, "expected": {"records": exp[0], "children_of_a": exp[1]}, "observed": {"records": got[0], "children_of_a": got[1]}}, "records after loading differ from the features the file denotes"))
                    break
                if last:
                    n += 1
                    if sample is None and a == "Load" and len(g[0]) > 1:
                        sample = {"file": file_text(g[0]), "seqids": g[1], "lines_per_block": g[2], "records_before": frm["recs"], "records_after": t["recs"], "children_of_a": k}
    return n, fails, sample


def validate(run, scratch, cfg, fraction):
    emit = scratch / "load.ndjson"
    res = run_tlc("AnnotDbLoad", cfg, scratch, workers=16, env={"EMIT_FILE": emit}, heap="6g")
    run.add_tlc(res)
    groups = defaultdict(list)
    ntrans = 0
    with open(emit) as fh:
        for line in fh:
            line = line.strip()
            if not line:
                continue
            inner = json.loads(line)
            if not isinstance(inner, str) or not inner.startswith('{"from":'):
                continue
            i = inner.index('"last":') + 7
            j = inner.index('},"act":')
            groups[inner[i:j]].append(inner)
            ntrans += 1
    emit.unlink()
    _L.update(workdir=str(scratch), fraction=fraction, seed=run.seed)
    jobs = [groups[k] for k in sorted(groups)]
    total = 0
    sample = None
    ctxm = mp.get_context("fork")
    with ctxm.Pool(min(16, os.cpu_count() or 1), initializer=_worker_init) as pool:
        for n, fails, smp in pool.imap_unordered(_group, jobs, chunksize=8):
            total += n
            sample = sample or smp
            for key, detail, what in fails:
                run.fail(key, detail, what=what)
    if total == 0:
        raise MachineryError("AnnotDbLoad: nothing was executed")
    tag = cfg.replace("MC_AnnotDb_", "").replace(".cfg", "")
    run.note(f"{tag}_files_x_filters_x_attribute_layouts", len(jobs))
    run.note(f"{tag}_emitted_transitions", ntrans)
    run.note(f"{tag}_transitions_executed", total)
    if sample:
        run.cov["samples"].append(sample)
    return total
