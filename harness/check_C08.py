"""C08 - gapped-coordinate maps agree with the gapped string they describe.

spec -> code
  specs/IndelMap.tla   state = a gapped string over {0 gap, 1 residue}; every string of
                       length <= MaxLen is a state, every IndelMap operation is a
                       transition string -> string defined ON THE STRING; `Describe`
                       is what a map must report about its string.
  specs/FeatureMap.tla state = a span list on a parent; every operation's result is
                       stated on the entry sequence (parent index | lost per position).
  TLC enumerates the bounded families exhaustively, checks the design-level laws and
  emits one record per transition.  For every record the harness builds the real
  map(s) from `from` with every public constructor, makes the real call, and compares
  the real result with the spec's value (representation gap_pos/cum_gap_lengths/
  parent_length/len, then every observation of Describe(to)).
constructors x containers
  Build actions of both specs name the constructor and the container its argument comes in (list,
  tuple, generator, iter(list), another map's `.spans` generator passed straight through, numpy
  array, list of lists, dict with numpy keys, int32 / int64 / gap_lengths arrays): the spec builds
  the same map for all of them, the harness builds the real object each way and reads it back in
  full (entries, parent_length, len, num_spans, get_coordinates / every Describe observation).
aliasing with the caller
  CallerWritesArgument / CallerWritesReturned: after a map was built the caller writes in place into
  what it handed to the constructor (arrays, lists, dict) or into what a query handed back (gap_pos,
  cum_gap_lengths, the arrays / lists of get_gap_lengths, get_gap_align_coordinates,
  get_gap_coordinates, get_coordinates); the write may be refused or go through, the map must still
  be Describe(g) (a stuttering step for the map).
histories on one object
  IndelMap.tla separates the receiver g from the returned map `out`; a call leaves g unchanged
  (ReadOnlyOpsPreserveReceiver), Adopt continues the history on the returned, derived map.  The
  history phase replays such behaviours on ONE real object: a derived map is obtained by one real
  call (nucleic_reversed, slice, merge_maps, minus_gaps, +, *, joined_segments, int index) or by a
  constructor, then a seeded sample of the calls the spec enables on it is made on that same
  object; after every call the result is compared with the spec and the receiver (and at the end
  its parent) is re-projected and must still be Describe(g).  The per-record replay also shares
  its real maps between records and re-projects receiver and operand after every call.
  An exception or unreadable object coming out of the implementation is a VIOLATION, never a
  machinery failure.
users of the maps (specs/IndelMapUse.tla, harness/use_C08.py)
  CIGAR (parse/cigar.py: map_to_cigar, cigar_to_map, aligned_from_cigar, slice_cigar by alignment /
  by sequence coordinates, CigarParser full and sliced) as run-length text of the gapped string,
  and Aligned (IndelMap + sequence view: str, len, gap_vector, with_termini_unknown, slicing, rc
  and their compositions, feature-map indexing, json round trips of maps with lost / unknown-
  terminus spans) on every gapped string up to UseLen, compared residue by residue.
robustness
  every replayed case runs under a wall-clock limit, workers under a memory limit, worker tasks
  under a task limit, and no object claiming an absurd length is ever materialised: all of these
  end as findings (`:timeout`, `:out-of-memory`, `:worker-task-timeout`, `:result-absurd-length`).
code -> spec
  trace_C08 records what Aligned / Alignment (the real call sites of the maps) do to
  gapped sequences much longer than the exhaustive bound and lets TLC validate every
  recorded step against the same string operators.
"""
from __future__ import annotations

import json
import multiprocessing as mp
import os
import random
import resource
import signal
import sys
import traceback
from collections import Counter, defaultdict

import maps_C08 as M
from common import Run, main_wrapper
from tlc import Scratch, read_emitted, run_tlc

NPROC = min(16, os.cpu_count() or 1)
_G = {}


def skey(v):
    return json.dumps(v, sort_keys=True, separators=(",", ":"))


def read_lines(path):
    """Lines written by Emit: each is a JSON string literal holding a JSON object; undo the outer layer."""
    out = []
    with open(path) as fh:
        for ln in fh:
            ln = ln.strip()
            if ln:
                out.append(json.loads(ln) if ln[0] == '"' else ln)
    return out


def parse(line):
    return json.loads(line)


class Fails:
    """key -> [count, first detail]; picklable result of a worker."""

    def __init__(self):
        self.d = {}

    def add(self, key, detail):
        if key in self.d:
            self.d[key][0] += 1
        else:
            self.d[key] = [1, detail]

    def merge_into(self, run, what):
        for key, (n, detail) in sorted(self.d.items()):
            for _ in range(n):
                run.fail(key, detail, what=what)


def variant_tag(failing, executed):
    """Which constructors/styles a failure is specific to ('any' when all executed fail)."""
    if set(failing) == set(executed):
        return "any"
    ctors = sorted({c for c, _ in failing})
    ex_by_ctor = defaultdict(set)
    for c, s in executed:
        ex_by_ctor[c].add(s)
    f_by_ctor = defaultdict(set)
    for c, s in failing:
        f_by_ctor[c].add(s)
    tag = "ctor=" + "+".join(ctors)
    if set(ctors) == set(ex_by_ctor) :
        tag = "ctor=any"
    styles = sorted({s for _, s in failing})
    if any(f_by_ctor[c] != ex_by_ctor[c] for c in ctors):
        tag += ",style=" + "+".join(map(str, styles))
    return tag


# ===================================================================== IndelMap
class Builder:
    """build(s) -> real IndelMap for string s with one constructor (cached)."""

    def __init__(self, ctor):
        self.ctor = ctor

    def desc(self, s):
        return _G["desc"][tuple(s)]

    def __call__(self, s):
        t = tuple(s)
        k = (self.ctor, t)
        c = _G["maps"]
        if k not in c:
            c[k] = M.build_indelmap(list(s), self.ctor, _G["desc"][t])
        return c[k]


def indel_describe(run, ctors):
    """Constructors: the map built from a string reports Describe(string)."""
    desc = _G["desc"]
    bad = {}  # (ctor, string) -> set(fields) | {"exception"}
    per_case = defaultdict(dict)  # (string, sig) -> {ctor: detail}
    n_exec = 0
    for t, d in desc.items():
        exp = M.im_expected(d)
        for ctor in ctors:
            n_exec += 1
            try:
                m = Builder(ctor)(t)
            except Exception as ex:
                bad[(ctor, t)] = {"exception"}
                per_case[(t, f"exception={type(ex).__name__}")][ctor] = {"exception": repr(ex), "traceback": traceback.format_exc()[-1200:]}
                continue
            obs = M.im_observe(m)
            df = M.diff_fields(obs, exp)
            if df:
                bad[(ctor, t)] = set(df)
                rep = [f for f in df if f in M.REPR_FIELDS]
                # one finding per wrong observation; a wrong representation is one finding
                for sig, fl in [("repr", df)] if rep else [(f"observe({f})", [f]) for f in df]:
                    per_case[(t, sig)][ctor] = {"expected": {k: exp[k] for k in fl}, "observed": {k: obs.get(k) for k in fl}}
        if len(run.cov["samples"]) < 2 and 0 in t and 1 in t and len(t) >= 4:
            run.sample({"spec": "IndelMap", "act": "Describe", "string": M.gapped_text(t), "describe": d})
    for (t, sig), by_ctor in sorted(per_case.items()):
        tag = "ctor=any" if set(by_ctor) == set(ctors) else "ctor=" + "+".join(sorted(by_ctor))
        key = f"IndelMap:Describe:{tag}:{M.layout(t)}:{sig}"
        c0 = sorted(by_ctor)[0]
        run.fail(key, {"string": M.gapped_text(t), "bits": list(t), "constructors": sorted(by_ctor), **by_ctor[c0]}, what=f"map built from {M.gapped_text(t)!r} misreports its string")
    return bad, n_exec


def _deep_ok_key(m):
    return (tuple(m.gap_pos.tolist()), tuple(m.cum_gap_lengths.tolist()), int(m.parent_length), str(m.gap_pos.dtype), str(m.cum_gap_lengths.dtype), type(m.parent_length).__name__)


def _expected(t):
    """Describe(t) in the shape of the observations (cached)."""
    c = _G.setdefault("expected", {})
    if t not in c:
        c[t] = M.im_expected(_G["desc"][t])
    return c[t]


def _input_sig(ctor, t, build):
    c = _G.setdefault("insig", {})
    k = (ctor, t)
    if k not in c:
        c[k] = _deep_ok_key(build(t))
    return c[k]


def indel_one(rec, ctors, fails, stats, samples):
    desc, bad = _G["desc"], _G["bad"]
    act, args = rec["act"], rec["args"]
    f, t = tuple(rec["from"]), tuple(rec["to"])
    if act in ("Build", "CallerWritesArgument", "CallerWritesReturned"):
        # constructor x container of its argument: the map built is Describe(g) for all of them, and
        # stays so when the caller later writes into what it handed over / was handed back
        what = args[0] if act == "CallerWritesReturned" else None
        ctor, container = args[-2:]
        stats["executions"] += 1
        stats["records"] += 1
        stats["act:" + act] += 1
        key = f"IndelMap:{act}:" + (f"returned={what}:" if what else "") + f"ctor={ctor}:container={container}:{M.layout(f)}"
        base = {"spec": "IndelMap", "act": act, "string": M.gapped_text(f), "bits": list(f), "constructor": ctor, "container": container, "returned": what}
        try:
            kept = []
            m = M.build_indelmap_container(list(f), ctor, container, desc[f], kept)
            if act == "CallerWritesArgument":
                outcome = [M.scribble(x) for x in kept]
            elif act == "CallerWritesReturned":
                outcome = [M.scribble(M.im_returned(m, what))]
            else:
                outcome = []
            for o in outcome:
                stats["caller_write_" + o] += 1
            base["caller_write"] = outcome
            obs = M.im_observe(m)
        except Exception as ex:
            fails.add(f"{key}:exception={type(ex).__name__}", {**base, "exception": repr(ex), "traceback": traceback.format_exc()[-1200:]})
            return
        exp = _expected(f)
        df = M.diff_fields(obs, exp)
        if any(k in M.REPR_FIELDS for k in df):
            fails.add(f"{key}:repr", {**base, "expected": {k: exp[k] for k in df}, "observed": {k: obs.get(k) for k in df}})
        else:
            for k in df:
                fails.add(f"{key}:observe({k})", {**base, "expected": {k: exp[k]}, "observed": {k: obs.get(k)}})
        return
    operand = tuple(args[0]) if act in ("Concat", "Merge", "Minus", "Shared") else None
    nstyles = M.IM_STYLES.get(act, 1)
    if act == "Slice" and not (args[0] == 0 or args[1] == len(f)):
        nstyles = 1  # style 1 (omitted bounds) would be the same call
    executed, outcomes = [], {}
    exp_to = _expected(t) if t in desc else None
    exp_from = _expected(f)
    exp_operand = _expected(operand) if operand is not None else None
    done = {}  # concrete input signature -> constructor that was executed for it
    for ctor in ctors:
        b = bad.get((ctor, f), set())
        bo = bad.get((ctor, operand), set()) if operand is not None else set()
        if (b | bo) & (set(M.REPR_FIELDS) | {"exception"}):
            stats["skipped_ctor_misbuilt_input"] += nstyles
            continue
        build = Builder(ctor)
        m = build(f)
        # the operations are functions of the concrete arrays (values, dtypes): constructors that
        # produce identical concrete inputs share one execution
        insig = (_input_sig(ctor, f, build), _input_sig(ctor, operand, build) if operand is not None else None)
        if insig in done:
            for style in range(nstyles):
                executed.append((ctor, style))
                if (done[insig], style) in outcomes:
                    outcomes[(ctor, style)] = outcomes[(done[insig], style)]
            stats["shared_executions"] += nstyles
            continue
        done[insig] = ctor
        for style in range(nstyles):
            executed.append((ctor, style))
            stats["executions"] += 1
            try:
                kind, r = M.im_call(m, act, args, build, style)
            except Exception as ex:
                kind, r = "exc", None
                outcomes[(ctor, style)] = [(f"exception={type(ex).__name__}", {"exception": repr(ex), "traceback": traceback.format_exc()[-1200:]})]
            # no call may change the map it is made on (ReadOnlyOpsPreserveReceiver); the maps are
            # shared by all records of this worker, so this is a history of calls on one object
            changed = []
            for who, obj, key_t, exp in (("receiver", m, f, exp_from), ("operand", build(operand) if operand is not None else None, operand, exp_operand)):
                if obj is None:
                    continue
                df, robs = M.receiver_diff(obj, exp)
                if df:
                    changed.append((f"{who}-changed", {"expected": {k: exp[k] for k in df}, "observed": {k: robs.get(k) for k in df}}))
                    _G["maps"].pop((ctor, key_t), None)  # rebuild it for the following records
                    _G.get("insig", {}).pop((ctor, key_t), None)
            if changed:
                outcomes.setdefault((ctor, style), []).extend(changed)
                m = build(f)
                continue
            if kind == "exc":
                continue
            if kind == "val":
                if r != rec["ret"]:
                    outcomes[(ctor, style)] = [("ret", {"expected": rec["ret"], "observed": r})]
                continue
            try:
                rp = M.im_repr(r)
                dk = _deep_ok_key(r)
            except M.AbsurdLength as ex:
                outcomes[(ctor, style)] = [("result-absurd-length", {"exception": repr(ex)})]
                continue
            except Exception as ex:  # the returned object cannot even be read
                outcomes[(ctor, style)] = [(f"result-unreadable={type(ex).__name__}", {"exception": repr(ex), "traceback": traceback.format_exc()[-1200:]})]
                continue
            drep = [k for k in M.REPR_FIELDS if rp[k] != exp_to[k]]
            if drep:
                outcomes[(ctor, style)] = [("repr", {"expected": {k: exp_to[k] for k in M.REPR_FIELDS}, "observed": rp})]
                continue
            seen = _G["deep"]
            if dk in seen:
                stats["deep_cached"] += 1
                df = seen[dk]
            else:
                obs = M.im_observe(r)
                df = seen[dk] = tuple(M.diff_fields(obs, exp_to))
                stats["deep_observed"] += 1
            # an observation that is already wrong on the constructor-built map of `to`
            # is reported once under Describe, not again for every operation reaching it
            df = [k for k in df if k not in bad.get((ctor, t), ())]
            if df:
                obs = M.im_observe(r)
                outcomes[(ctor, style)] = [(f"observe({k})", {"expected": {k: exp_to[k]}, "observed": {k: obs.get(k)}}) for k in df]
    if not executed:
        stats["records_no_constructor_usable"] += 1
        return
    stats["records"] += 1
    stats["act:" + act] += 1
    if 0 in f and 1 in f:
        stats["nontrivial"] += 1
    by_sig = defaultdict(list)
    for v, lst in outcomes.items():
        for sig, det in lst:
            by_sig[sig].append((v, det))
    for sig, lst in by_sig.items():
        tag = variant_tag([v for v, _ in lst], executed)
        key = f"IndelMap:{act}:{tag}:{M.im_class(act, args, list(f))}:{sig}"
        v0, det = sorted(lst, key=lambda x: x[0])[0]
        for _ in lst:
            fails.add(key, {"spec": "IndelMap", "from": M.gapped_text(f), "from_bits": list(f), "act": act, "args": args, "spec_to": M.gapped_text(t), "constructor": v0[0], "style": v0[1], **det})
    if not outcomes and len(samples) < 2 and stats["records"] % 211 == 0:
        samples.append({"spec": "IndelMap", "from": M.gapped_text(f), "act": act, "args": args, "to": M.gapped_text(t), "ret": rec["ret"], "constructors": list(ctors)})


def _indel_job(job):
    lo, hi = job
    fails, stats, samples = Fails(), Counter(), []
    for ln in _G["lines"][lo:hi]:
        rec = parse(ln)
        guarded_case(lambda: indel_one(rec, _G["ctors"], fails, stats, samples), (f"IndelMap:{rec['act']}", rec), fails, stats)
    return fails, stats, samples


# Limit of one replayed case, in CPU seconds of the worker (cases take about 1 ms; CPU time, not
# wall-clock, so that a heavily loaded machine cannot turn a healthy case into a finding) ...
CASE_SECONDS = 20
# ... and wall-clock limit of one worker task (a chunk of cases), which also covers blocked workers
TASK_SECONDS = int(os.environ.get("VERIF_C08_TASK_SECONDS", "900"))
WORKER_MEM = 6 << 30


def _on_alarm(signum, frame):
    raise M.CaseTimeout(f"case used more than {CASE_SECONDS}s of CPU")


class time_limit:
    """with time_limit(): one case; raises CaseTimeout inside the worker when it takes too long."""

    def __enter__(self):
        signal.setitimer(signal.ITIMER_PROF, CASE_SECONDS)

    def __exit__(self, *exc):
        signal.setitimer(signal.ITIMER_PROF, 0)
        return False


def _worker_limits():
    signal.signal(signal.SIGPROF, _on_alarm)
    try:  # a runaway allocation becomes a MemoryError in that case, not a swapped-out machine
        resource.setrlimit(resource.RLIMIT_AS, (WORKER_MEM, WORKER_MEM))
    except (ValueError, OSError):
        pass


def guarded_case(fn, label, fails, stats):
    """Run one case; a hang or runaway allocation inside the implementation is a finding of that case."""
    try:
        with time_limit():
            fn()
    except M.CaseTimeout as ex:
        stats["case_timeouts"] += 1
        fails.add(f"{label[0]}:timeout", {"case": label[1], "exception": repr(ex)})
    except MemoryError as ex:
        stats["case_out_of_memory"] += 1
        fails.add(f"{label[0]}:out-of-memory", {"case": label[1], "exception": repr(ex)})
    except RecursionError as ex:
        fails.add(f"{label[0]}:exception=RecursionError", {"case": label[1], "exception": repr(ex)})


def run_pool(fn, njobs_items, chunk, phase="replay"):
    """imap over chunks; a worker task that does not come back within TASK_SECONDS (or a worker that
    died) is reported as a finding and the pool is torn down: the check always ends with a verdict."""
    jobs = [(i, min(i + chunk, njobs_items)) for i in range(0, njobs_items, chunk)]
    ctx = mp.get_context("fork")
    pool = ctx.Pool(NPROC, initializer=_worker_limits)
    try:
        it = pool.imap_unordered(fn, jobs)
        for _ in jobs:
            try:
                yield it.next(timeout=TASK_SECONDS)
            except mp.TimeoutError:
                f = Fails()
                f.add(f"{phase}:worker-task-timeout", {"what": f"a worker task of the {phase} phase did not finish within {TASK_SECONDS}s; remaining tasks abandoned"})
                yield f, Counter(abandoned_tasks=1), []
                break
        pool.terminate()
    finally:
        pool.terminate()
        pool.join()


def indel_phase(run: Run, scratch):
    tier = run.tier
    emit = scratch / "indel.ndjson"
    res = run_tlc("IndelMap", f"MC_IndelMap_{tier}.cfg", scratch, workers=16, env={"EMIT_FILE": emit}, heap="6g")
    run.add_tlc(res)
    lines = read_lines(emit)
    desc = {}
    rest = []
    for ln in lines:
        if '"Describe"' in ln:
            r = parse(ln)
            desc[tuple(r["from"])] = r["ret"]
        else:
            rest.append(ln)
    random.Random(run.seed).shuffle(rest)  # balance the chunks
    _G.update(desc=desc, maps={}, deep={}, lines=rest)
    ctors = list(M.IM_CTORS)
    try:
        M.build_indelmap([1, 0, 1], "parse_new", desc[(1, 0, 1)])
    except Exception as ex:  # new-style sequences not available in this tree
        ctors.remove("parse_new")
        run.assumptions.append(f"constructor parse_new skipped: {type(ex).__name__}")
    bad, n_desc = indel_describe(run, ctors)
    op_ctors = ctors  # the same in both tiers so that finding keys do not depend on the tier
    _G.update(bad=bad, ctors=op_ctors)
    total, allfails = Counter(), Fails()
    for fails, stats, samples in run_pool(_indel_job, len(rest), 400, "IndelMap"):
        total.update(stats)
        for k, (n, d) in fails.d.items():
            for _ in range(n):
                allfails.add(k, d)
        for s in samples:
            run.sample(s, limit=5)
    allfails.merge_into(run, "real IndelMap operation disagrees with the string model")
    run.cov["traces_validated_against_impl"] += n_desc + total["executions"]
    run.cov["distinct_nontrivial"] += total["nontrivial"]
    run.note(
        "indelmap",
        {
            "tlc_states": res.distinct,
            "tlc_transitions": res.generated,
            "tlc_wall_s": round(res.wall, 1),
            "strings": len(desc),
            "constructors_checked": ctors,
            "constructors_used_for_operations": op_ctors,
            "describe_executions": n_desc,
            "operation_records": total["records"],
            "operation_records_by_action": {k[4:]: v for k, v in sorted(total.items()) if k.startswith("act:")},
            "operation_executions": total["executions"],
            "executions_shared_by_constructors_with_identical_arrays": total["shared_executions"],
            "skipped_ctor_misbuilt_input": total["skipped_ctor_misbuilt_input"],
            "results_deep_observed": total["deep_observed"],
            "caller_writes": {k[13:]: v for k, v in sorted(total.items()) if k.startswith("caller_write_")},
            "emitted_records": len(lines),
        },
    )
    if total["records"] + total["records_no_constructor_usable"] != len(rest):
        raise RuntimeError(f"IndelMap: {len(rest)} operation records emitted, {total['records']} replayed")
    return len(lines)


# ------------------------------------------------------- IndelMap: histories
MAP_ACTS = ("Reversed", "Slice", "Merge", "Minus", "Concat", "Scale", "Joined", "Index")
ROOT_CTORS = ("gapdict", "parse", "segments")


class FreshBuilder:
    """Builds a NEW real map on every call (objects of one history are never shared with another)."""

    def __init__(self, ctor):
        self.ctor = ctor

    def desc(self, s):
        return _G["desc"][tuple(s)]

    def __call__(self, s):
        t = tuple(s)
        return M.build_indelmap(list(t), self.ctor, _G["desc"][t])


def _line_key(ln, field, nxt):
    i = ln.index(f'"{field}":') + len(field) + 3
    return ln[i : ln.index(f',"{nxt}"', i)]


def history_one(gkey, fails, stats, samples):
    """All histories of the spec of the shape
         root h --Call--> Adopt (receiver = derived map g) --(Call, Drop)*-->
    for one abstract receiver g: the real derived object is obtained by ONE real call on a fresh map of
    h, then a seeded sample of the calls the spec enables at g is made on that SAME object; after every
    call the result is compared with the spec and the receiver is re-projected and must still be
    Describe(g) (ReadOnlyOpsPreserveReceiver).  Roots (fresh constructor-built maps) are histories too."""
    lines, desc = _G["lines"], _G["desc"]
    g = tuple(json.loads(gkey))
    rnd = random.Random(f"{_G['seed']}:{gkey}")
    ops = [parse(lines[i]) for i in _G["by_from"].get(gkey, ())]
    ops = [r for r in ops if r["act"] not in ("Build", "CallerWritesArgument", "CallerWritesReturned")]  # not calls on the receiver
    if not ops:
        return
    exp_g = _expected(g)
    cap = _G["hist_cap"]
    derivations = [("ctor:" + c, None) for c in ROOT_CTORS]
    for act in MAP_ACTS:
        idx = _G["by_to"].get(gkey, {}).get(act, ())
        for i in list(idx)[: 2 if act == "Slice" else 1]:
            derivations.append((act, parse(lines[i])))
    for n_d, (kind, drec) in enumerate(derivations):
        ctor = kind[5:] if drec is None else ROOT_CTORS[(n_d + rnd.randrange(3)) % 3]
        build = FreshBuilder(ctor)
        parent = None
        try:
            if drec is None:
                obj = build(g)
            else:
                parent = build(tuple(drec["from"]))
                k, obj = M.im_call(parent, drec["act"], drec["args"], build, 0)
            df, _ = M.receiver_diff(obj, exp_g)
        except Exception:
            df = ["exception"]
        if df:
            stats["history_start_not_usable"] += 1  # already reported by the per-record replay
            continue
        stats["histories"] += 1
        steps = rnd.sample(ops, min(cap, len(ops)))
        done = []

        def report(sig, rec, det):
            key = f"IndelMap:History:derived-by={kind.split(':')[0]}:after={rec['act']}:{M.im_class(rec['act'], rec['args'], list(g))}:{sig}"
            fails.add(
                key,
                {
                    "spec": "IndelMap",
                    "receiver": M.gapped_text(g),
                    "receiver_bits": list(g),
                    "receiver_obtained_by": {"constructor": ctor, "from": M.gapped_text(drec["from"]) if drec else None, "act": drec["act"] if drec else kind, "args": drec["args"] if drec else []},
                    "history_on_that_object": done[-40:],
                    "failing_call": {"act": rec["act"], "args": rec["args"], "spec_to": M.gapped_text(rec["to"]), "spec_ret": rec["ret"]},
                    **det,
                },
            )

        for rec in steps:
            stats["history_steps"] += 1
            act, args = rec["act"], rec["args"]
            style = rnd.randrange(M.IM_STYLES.get(act, 1))
            broken = False
            signal.setitimer(signal.ITIMER_PROF, CASE_SECONDS)  # a hanging call is a finding of this step
            try:
                kind_r, r = M.im_call(obj, act, args, build, style)
                if kind_r == "val":
                    if r != rec["ret"]:
                        report("ret", rec, {"expected": rec["ret"], "observed": r})
                else:
                    exp_to = _expected(tuple(rec["to"]))
                    dfr, robs = M.receiver_diff(r, exp_to)
                    if dfr:
                        report("result", rec, {"expected": {k: exp_to[k] for k in dfr}, "observed": {k: robs.get(k) for k in dfr}})
                        broken = True
            except Exception as ex:
                report(f"exception={type(ex).__name__}", rec, {"exception": repr(ex), "traceback": traceback.format_exc()[-1200:]})
                broken = True
            signal.setitimer(signal.ITIMER_PROF, 0)
            done.append([act, args])
            df, robs = M.receiver_diff(obj, exp_g)
            if df:
                report("receiver-changed", rec, {"expected": {k: exp_g[k] for k in df}, "observed": {k: robs.get(k) for k in df}})
                broken = True
            if broken:
                break  # this object no longer stands for g; the history ends here
        else:
            # the whole history went through: every observation of the receiver is still Describe(g)
            obs = M.im_observe(obj)
            df = [k for k in M.diff_fields(obs, exp_g) if k not in _G["bad"].get((ctor, g), ())]
            if df and steps:
                report("receiver-changed-at-end", steps[-1], {"expected": {k: exp_g[k] for k in df}, "observed": {k: obs.get(k) for k in df}})
        if parent is not None:
            exp_p = _expected(tuple(drec["from"]))
            df, robs = M.receiver_diff(parent, exp_p)
            if df:
                report("parent-of-receiver-changed", {"act": drec["act"], "args": drec["args"], "to": list(g), "ret": 0}, {"parent": M.gapped_text(drec["from"]), "expected": {k: exp_p[k] for k in df}, "observed": {k: robs.get(k) for k in df}})
        if len(samples) < 1 and drec is not None and len(done) >= 3 and 0 in g and 1 in g:
            samples.append({"spec": "IndelMap", "history": {"root": M.gapped_text(drec["from"]), "derive": [drec["act"], drec["args"]], "receiver": M.gapped_text(g), "calls_on_receiver": done[:6], "n_calls": len(done)}})


def _history_job(job):
    lo, hi = job
    fails, stats, samples = Fails(), Counter(), []
    for gkey in _G["hist_keys"][lo:hi]:
        try:
            history_one(gkey, fails, stats, samples)
        except (M.CaseTimeout, MemoryError) as ex:  # outside a guarded step
            fails.add(f"IndelMap:History:{'timeout' if isinstance(ex, M.CaseTimeout) else 'out-of-memory'}", {"receiver": gkey, "exception": repr(ex)})
    return fails, stats, samples


def history_phase(run: Run):
    lines = _G["lines"]
    by_from, by_to = defaultdict(list), defaultdict(lambda: defaultdict(list))
    for i, ln in enumerate(lines):
        by_from[_line_key(ln, "from", "act")].append(i)
        act = _line_key(ln, "act", "args").strip('"')
        if act in MAP_ACTS:
            lst = by_to[_line_key(ln, "to", "ret")][act]
            if len(lst) < 4:  # lines are in seeded random order: these are random derivations
                lst.append(i)
    keys = sorted(by_from)
    random.Random(run.seed).shuffle(keys)
    _G.update(by_from=by_from, by_to=by_to, hist_keys=keys, seed=run.seed, hist_cap=100 if run.tier == "quick" else 200)
    total, allfails = Counter(), Fails()
    for fails, stats, samples in run_pool(_history_job, len(keys), 4, "IndelMap:History"):
        total.update(stats)
        for k, (n, d) in fails.d.items():
            for _ in range(n):
                allfails.add(k, d)
        for s in samples:
            run.sample(s, limit=7)
    allfails.merge_into(run, "history of calls on one real IndelMap leaves the spec (result wrong or receiver changed)")
    run.cov["traces_validated_against_impl"] += total["history_steps"]
    run.note(
        "indelmap_histories",
        {
            "receivers": len(keys),
            "histories_on_one_object": total["histories"],
            "calls_replayed": total["history_steps"],
            "max_calls_per_history": _G["hist_cap"],
            "start_not_usable": total["history_start_not_usable"],
            "derivations": ["ctor:" + c for c in ROOT_CTORS] + list(MAP_ACTS),
        },
    )


# =================================================================== FeatureMap
def fm_build(mdef, act, args, allowed, fails, stats):
    """Build / CallerWritesArgument: the spans / locations handed to the constructor in the given
    container (and, for the latter, overwritten in place by the caller afterwards)."""
    container = args[0]
    stats["executions"] += 1
    stats["records"] += 1
    stats["act:" + act] += 1
    if mdef["spans"]:
        stats["nontrivial"] += 1
    key = f"FeatureMap:{act}:container={container}:{M.fm_class(mdef, 'Build', args)}"
    base = {"spec": "FeatureMap", "from": mdef, "act": act, "container": container, "allowed": allowed}
    try:
        kept = []
        m = M.build_featuremap_container(mdef, container, kept)
        if act == "CallerWritesArgument":
            base["caller_write"] = [M.scribble(x) for x in kept[-1:]]
        val, outside = M.fm_project(m, "Build")
        extra = {"num_spans": int(m.num_spans), "spans_listed": len(list(m.spans)), "coords": [[int(a), int(b)] for a, b in m.get_coordinates()], "useful": bool(m.useful)}
    except M.AbsurdLength as ex:
        fails.add(f"{key}:result-absurd-length", {**base, "exception": repr(ex)})
        return
    except Exception as ex:
        fails.add(f"{key}:exception={type(ex).__name__}", {**base, "exception": repr(ex), "traceback": traceback.format_exc()[-1200:]})
        return
    want = [a for a in allowed if a["kind"] == "val"]
    diff = [k for k in ("ents", "plen") if all(val[k] != a[k] for a in want)]
    if outside:
        diff.append(outside)
    # the same map read through its other accessors
    nonlost = [[s, e] for s, e, _ in mdef["spans"] if s != M.LOST]
    if extra["num_spans"] != len(mdef["spans"]) or extra["spans_listed"] != len(mdef["spans"]):
        diff.append("num_spans")
    if extra["coords"] != nonlost:
        diff.append("coords")
    if diff:
        fails.add(f"{key}:" + ",".join(diff), {**base, "observed": val, **extra})


def fm_execute(mdef, act, args, allowed, fails, stats, samples):
    if act in ("Build", "CallerWritesArgument"):
        return fm_build(mdef, act, args, allowed, fails, stats)
    executed, outcomes = [], {}
    cache = _G.setdefault("fm_maps", {})
    mkey = skey(mdef)
    for ctor in M.FM_CTORS:
        try:
            if (ctor, mkey) not in cache:
                # one real object per (constructor, map) serves all calls the spec enables on it: a
                # history of calls on one object, whose denotation is re-projected after every call
                fm = M.build_featuremap(mdef, ctor)
                cache[(ctor, mkey)] = (fm, None if fm is None else M.fm_snapshot(fm))
            m, snap = cache[(ctor, mkey)]
        except Exception as ex:
            executed.append((ctor, 0))
            outcomes[(ctor, 0)] = (f"constructor-exception={type(ex).__name__}", {"exception": repr(ex)})
            continue
        if m is None:
            continue
        executed.append((ctor, 0))
        stats["executions"] += 1
        exc = tb = None
        try:
            r = M.fm_call(m, act, args)
        except Exception as ex:
            exc, tb = ex, traceback.format_exc()[-1200:]
        now = M.fm_snapshot(m)
        if now != snap:  # ReceiverPreserved: m' = m for every call
            outcomes[(ctor, 0)] = ("receiver-changed", {"receiver_before": snap, "receiver_after": now})
            cache.pop((ctor, mkey), None)
            continue
        if isinstance(exc, ValueError):
            if not any(a["kind"] == "raised" for a in allowed):
                outcomes[(ctor, 0)] = ("raised=ValueError", {"exception": repr(exc), "traceback": tb})
            else:
                stats["raised_as_specified" if len(allowed) == 1 else "unsupported_raised"] += 1
            continue
        if exc is not None:
            outcomes[(ctor, 0)] = (f"exception={type(exc).__name__}", {"exception": repr(exc), "traceback": tb})
            continue
        if act == "Coords":
            got = [[int(a), int(b)] for a, b in r]
            want = [a["cs"] for a in allowed if a["kind"] == "coords"]
            if got not in want:
                outcomes[(ctor, 0)] = ("coords", {"observed": got})
            continue
        try:
            val, outside = M.fm_project(r, act)
        except M.AbsurdLength as ex:
            outcomes[(ctor, 0)] = ("result-absurd-length", {"exception": repr(ex), "observed_repr": repr(r)[:300]})
            continue
        except Exception as ex:
            outcomes[(ctor, 0)] = (f"result-unreadable={type(ex).__name__}", {"exception": repr(ex), "traceback": traceback.format_exc()[-1200:]})
            continue
        if outside:
            outcomes[(ctor, 0)] = (outside, {"observed": val, "observed_repr": repr(r)})
            continue
        vals = [a for a in allowed if a["kind"] == "val"]
        if not vals:
            outcomes[(ctor, 0)] = ("no-exception", {"observed": val})
            continue
        best = None
        for a in vals:
            d = [k for k in ("ents", "plen") if val[k] is not None and val[k] != a[k]]
            if best is None or len(d) < len(best):
                best = d
        if best:
            outcomes[(ctor, 0)] = (",".join(best), {"observed": val, "observed_repr": repr(r)})
    if not executed:
        return
    stats["records"] += 1
    stats["act:" + act] += 1
    if mdef["spans"]:
        stats["nontrivial"] += 1
    by_sig = defaultdict(list)
    for v, (sig, det) in outcomes.items():
        by_sig[sig].append((v, det))
    for sig, lst in by_sig.items():
        tag = variant_tag([v for v, _ in lst], executed)
        key = f"FeatureMap:{act}:{tag}:{M.fm_class(mdef, act, args)}:{sig}"
        v0, det = sorted(lst, key=lambda x: x[0])[0]
        for _ in lst:
            fails.add(key, {"spec": "FeatureMap", "from": mdef, "act": act, "args": args, "allowed": allowed, "constructor": v0[0], **det})
    if not outcomes and len(samples) < 2 and stats["records"] % 173 == 0:
        samples.append({"spec": "FeatureMap", "from": mdef, "act": act, "args": args, "to": allowed})


def _fm_job(job):
    lo, hi = job
    fails, stats, samples = Fails(), Counter(), []
    for item in _G["fm_items"][lo:hi]:
        if isinstance(item, str):
            r = parse(item)
            case = (r["from"], r["act"], r["args"], [r["to"]])
        else:
            case = item
        guarded_case(lambda: fm_execute(*case, fails, stats, samples), (f"FeatureMap:{case[1]}", list(case[:3])), fails, stats)
    return fails, stats, samples


def feature_phase(run: Run, scratch, cfg):
    emit = scratch / f"{cfg}.ndjson"
    res = run_tlc("FeatureMap", cfg, scratch, workers=16, env={"EMIT_FILE": emit}, heap="6g")
    run.add_tlc(res)
    lines = read_lines(emit)
    # LostSpan() hands out one cached object per length; IndelMap.spans (previous phase) fills that
    # cache with numpy-typed lengths, which FeatureMap.to_json cannot serialise.  Serialisation is not
    # part of C08, so start this phase from an empty cache.
    import cogent3.core.location as loc

    loc._lost_span_cache.clear()
    # actions with more than one allowed outcome are grouped by (from, act, args)
    nd_acts = set()
    for ln in lines:
        if '"raised"' in ln:
            nd_acts.add(parse(ln)["act"])
    groups, items = {}, []
    for ln in lines:
        if any(f'"{a}"' in ln for a in nd_acts):
            r = parse(ln)
            if r["act"] in nd_acts:
                k = skey([r["from"], r["act"], r["args"]])
                groups.setdefault(k, (r["from"], r["act"], r["args"], []))[3].append(r["to"])
                continue
        items.append(ln)
    items.extend(groups.values())
    random.Random(run.seed).shuffle(items)
    _G.update(fm_items=items)
    total, allfails = Counter(), Fails()
    for fails, stats, samples in run_pool(_fm_job, len(items), 400, "FeatureMap"):
        total.update(stats)
        for k, (n, d) in fails.d.items():
            for _ in range(n):
                allfails.add(k, d)
        for s in samples:
            run.sample(s, limit=8)
    allfails.merge_into(run, "real FeatureMap operation disagrees with its set-theoretic meaning")
    if total["records"] != len(items):
        raise RuntimeError(f"FeatureMap: {len(items)} operation instances emitted, {total['records']} replayed")
    run.cov["traces_validated_against_impl"] += total["executions"]
    run.cov["distinct_nontrivial"] += total["nontrivial"]
    emit.unlink()
    run.note(
        "featuremap:" + cfg,
        {
            "tlc_states": res.distinct,
            "tlc_transitions": res.generated,
            "tlc_wall_s": round(res.wall, 1),
            "emitted_records": len(lines),
            "operation_records": total["records"],
            "operation_records_by_action": {k[4:]: v for k, v in sorted(total.items()) if k.startswith("act:")},
            "operation_executions": total["executions"],
            "raised_as_specified": total["raised_as_specified"],
            "unsupported_raised": total["unsupported_raised"],
            "nondeterministic_actions": sorted(nd_acts),
        },
    )
    return len(lines)


def check(run: Run):
    import time

    with Scratch("C08") as scratch:
        t0 = time.time()
        indel_phase(run, scratch)
        history_phase(run)
        t1 = time.time()
        for cfg in ["MC_FeatureMap_quick.cfg"] if run.tier == "quick" else ["MC_FeatureMap_thorough.cfg", "MC_FeatureMap_thorough2.cfg"]:
            feature_phase(run, scratch, cfg)
        import use_C08

        use_C08.use_phase(run, scratch, sys.modules[__name__])
        t2 = time.time()
        import trace_C08

        trace_C08.validate(run, scratch)
        run.note("phase_wall_s", {"indelmap": round(t1 - t0, 1), "featuremap_and_use": round(t2 - t1, 1), "trace": round(time.time() - t2, 1)})
    run.cov["rule"] = (
        "IndelMap (+ IndelMapUse: cigar and Aligned calls): every gapped string over {gap,residue} of length <= MaxLen (UseLen) x every operation instance TLC enumerates "
        "(all slice bounds -len..len, all operand strings, all segment lists), each executed with every public constructor "
        "and argument style; FeatureMap: every span list of the bounded family x every operation instance. "
        "distinct_nontrivial = distinct (input, operation, arguments) whose input has a gap and a residue (IndelMap) / "
        "at least one span (FeatureMap)"
    )
    run.cov["exhaustive"] = True
    run.cov["evaluations"] = run.cov["traces_validated_against_impl"]
    run.assumptions += [
        "a gapped sequence is abstracted to gap/residue per column; residue letters do not influence the maps",
        "histories on one object: one derivation step (or a constructor) followed by a seeded sample of at most 100 (quick) / 200 (thorough) of the calls enabled on the derived map; longer derivation chains are covered only through the closedness of the string family",
        "IndelMap.get_coordinates(): zero-length segments (p, p) are ignored when comparing with the ungapped segments of the string",
        "slice bounds are within -len..len (beyond-length bounds are outside 'alignment interval'); get_align_index without slice_stop only for indices < parent_length as documented",
        "FeatureMap inputs are valid maps: spans of length >= 1 inside the parent; results are compared position by position (entry sequence), not by how spans are cut",
        "FeatureMap.shadow() of a map that reads a parent position twice may raise ValueError (it is inverse().gaps()); counted as unsupported",
        "FeatureMap.nucleic_reversed(): reverse flags are discarded first, as its docstring states",
        "CIGAR: cigar lines with two adjacent D runs are outside the domain (one gap is one run); zero-count runs in produced text are ignored",
        "Aligned: residue k of the ungapped sequence is shown as ACGT[k % 4]; Aligned.remapped_to() is not modelled (it calls IndelMap.inverse(), which does not exist, and always raises AttributeError); an empty alignment row (length 0) is unsupported",
    ]


if __name__ == "__main__":
    sys.exit(main_wrapper(check, "C08"))
