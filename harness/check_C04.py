"""C04 - annotations keep denoting the same residues through every view (Annotation.tla, AnnotationAln.tla).

Sequence level (Annotation.tla).  TLC enumerates every universe (root of length P at
annotation offset 0 / 3 carrying a plus-strand feature a and its mirror-image
minus-strand feature b, every 1- and 2-span placement on 0..P) and, per universe, the
closed set of views reachable by seq[a:b], rc(), copy(sliced), seq[feature], degap() and
seq[::-1].  For every state it emits what the view shows of each feature (view
positions, residues read on the feature's strand, orientation relative to the view) and
the result of every get_features(start, stop, allow_partial, biotype/name) window
query; every transition carries the same observation for its successor.

Alignment level (AnnotationAln.tla).  Every placement of row x (U residues) in L
columns next to a row y, every 1-/2-span feature of x on either strand, every view
aln[a:b] / aln.rc(): the feature's columns on the view, the rows of its slice, and its
projection onto y (positions on y's held sequence, string).

Feature algebra and masking (Algebra record of Annotation.tla, algebra fields of
AnnotationAln.tla): as_one_span, shadow, without_lost_spans, get_slice(complete=True),
union and with_masked_annotations(biotypes, shadow) on every view, on the same position
sets; get_slice(allow_gaps=True) and Alignment.with_masked_annotations on alignments.

Order of events (AnnotationHistory.tla): objects sharing one annotation db, every
interleaving of slice / rc / copy / degap / to_rna / add_feature, each call on any
object made so far; after every history every object must see exactly the records of
its db, mapped into its own coordinates (harness/hist_C04.py).

Identity of records (AnnotationNames.tla): three sequences sharing one db whose names,
feature names or biotypes look alike (underscore vs other character, case only, prefix);
a query on a view of one sequence, with or without name= / biotype=, returns exactly that
sequence's records by exact string equality (harness/names_C04.py: old-style Alignment,
old / new Sequences given one db, members of a new-style SequenceCollection).

Strided views (AnnotationStride.tla, extends Annotation.tla): seq[a:b:k] with k = 1..3,
rc() of them and strided slices of slices; same universes, same observations (replayed by
the sequence-level machinery of this file).

spec -> code, on old-style and new-style Sequence (features made with seq.add_feature -
on the root, on a root with an offset, on a slice - or loaded as absolute coordinates
into a BasicAnnotationDb) and on old-style Alignment:
  * every explored state is built on the real classes by a recorded chain of public
    calls; get_features(allow_partial=True/False), feature.map.get_coordinates(),
    feature.reversed and str(feature.get_slice()) (alignments: get_slice().to_dict(),
    get_projected_feature) must be what the spec says, the window queries must return
    exactly the allowed sets, nothing may raise;
  * every transition that is not part of those chains (other histories of the same
    view, copies, feature slices, degap) is applied as well and its result observed the
    same way (quick, and the larger thorough configurations: a seeded sample of them).
Everything observed behind seq[feature] / degap() is reported under one structural key
per kind of view it was taken from.

./check C04 --replay replays/C04/<file>.json re-runs a recorded failing case.
"""
from __future__ import annotations

import json
import multiprocessing as mp
import os
import re
import sys
import threading
import time
import zlib
from collections import defaultdict, deque

import algebra_C04 as ALG
import aln_C04 as A
import hist_C04 as H
import impl_C04 as I
import names_C04 as NM
from common import REPLAYS, Run, main_wrapper
from tlc import Scratch, read_emitted, run_tlc

G = {}  # worker globals (inherited by fork)
NPROC = 8


def dumps(v):
    return json.dumps(v, separators=(",", ":"))


# ------------------------------------------------------------------ failures collected in a worker
class Report:
    def __init__(self):
        self.fail = {}
        self.stats = defaultdict(int)
        self.samples = []
        self.nontrivial = set()

    def add(self, key, detail_fn, what):
        if key in self.fail:
            self.fail[key][0] += 1
        else:
            self.fail[key] = [1, detail_fn(), what]

    def dump(self):
        return self.fail, dict(self.stats), self.samples, len(self.nontrivial)


def merge(run, results, totals):
    for fail, stats, samples, nontrivial in results:
        for key, (n, detail, what) in fail.items():
            run.fail(key, detail, what=what)
            for _ in range(min(n - 1, 100000)):
                run.fail(key, {}, what=what)
        for k, v in stats.items():
            totals[k] += v
        totals["distinct_nontrivial"] += nontrivial
        for s in samples:
            run.sample(s)


# ------------------------------------------------------------------ structural keys
def view_dir(state):
    return "rev" if state[3] else "fwd"


def off_class(state):
    """whether the real object sits at a non-zero annotation offset (root offset, or the cut made by a copy)"""
    return "off0" if state[0] + state[4] == 0 else "off+"


def feat_class(f):
    return ("-" if f["fcomp"] else "+") + "".join(f["cls"])


def touch_class(f):
    """spans that abut the view from outside (plus-strand coordinates): b = a span ends exactly where the view's extent starts,
    a = a span starts exactly where it ends"""
    t = "".join(sorted({c for c in f["cls"] if c in "ab"}))
    return f"touch-{t}" if t else None


def key_of(ctx, op, state, f, what):
    """structural key: class of real object, operation, offset class, view direction, feature strand + where its spans lie, what differs"""
    if what.startswith("raised") and op.startswith("get_features") and f is not None and touch_class(f):
        # one root cause whatever the strand / direction / offset: the abutting span is neither clipped nor dropped
        return ":".join([ctx["kind"], op, touch_class(f), what])
    if op == "get_slice" and "raised" in what:
        # what matters is the class, the offset and how many spans the view retains
        return ":".join([ctx["kind"], op, off_class(state), what])
    parts = [ctx["kind"], op, off_class(state), view_dir(state)]
    if f is not None:
        parts.append(feat_class(f))
    parts.append(what)
    return ":".join(parts)


# ------------------------------------------------------------------ observing one real view
def observe(rep, ctx, o, state, obs, chain, slices=True):
    """whole-view queries + per-feature observations of the real view `o` against the spec's `obs`"""
    root, compl = ctx["root"], ctx["compl"]
    expected = {(f["bio"], f["name"]): f for f in obs}

    def detail(extra):
        return lambda: {
            "kind": ctx["kind"], "mode": ctx["mode"], "root": root, "offset": ctx["off"], "features": ctx["feats"], "via": ctx["via"],
            "chain": chain(), "state": state, "view": str(o), **extra,
        }

    raised = {}
    for partial in (True, False):
        op = "get_features-partial" if partial else "get_features"
        statkey = "vis" if partial else "inside"
        rep.stats["queries"] += 1
        try:
            got = I.query(o, partial=partial)
        except Exception as ex:
            raised[partial] = True
            # which feature makes the query raise?  ask for each one alone
            culprits = []
            for f in obs:
                try:
                    I.query_one(o, f["name"], partial)
                except Exception as ex1:
                    culprits.append((f, ex1))
            if not culprits:
                culprits = [(None, ex)]
            for f, ex1 in culprits:
                rep.add(
                    key_of(ctx, op, state, f, f"raised-{type(ex1).__name__}"),
                    detail({"call": f"get_features(allow_partial={partial})", "exception": repr(ex1),
                            "feature": f and f["name"], "expected": obs}),
                    f"get_features(allow_partial={partial}) raised {ex1!r}",
                )
            continue
        ids = [(g.biotype, g.name) for g in got]
        if len(set(ids)) != len(ids):
            rep.add(key_of(ctx, op, state, None, "duplicates"), detail({"returned": ids}), "a feature was returned twice")
        for g in got:
            if (g.biotype, g.name) not in expected:
                rep.add(key_of(ctx, op, state, None, "unknown-feature"), detail({"returned": ids}), "a feature that was never added")
        byid = {(g.biotype, g.name): g for g in got}
        for fid, f in expected.items():
            status = f[statkey]
            g = byid.get(fid)
            if g is None:
                if status == "in":
                    rep.add(
                        key_of(ctx, op, state, f, "missing"),
                        detail({"call": f"get_features(allow_partial={partial})", "feature": f["name"], "returned": ids, "expected": obs}),
                        f"feature {f['name']} not returned by get_features(allow_partial={partial})",
                    )
                continue
            if status == "out":
                rep.add(
                    key_of(ctx, op, state, f, "unexpected"),
                    detail({"call": f"get_features(allow_partial={partial})", "feature": f["name"], "returned": ids, "expected": obs}),
                    f"feature {f['name']} returned by get_features(allow_partial={partial}) although it is not {'in' if partial else 'inside'} the view",
                )
                continue
            try:
                pr = I.project(g)
            except Exception as ex:
                rep.add(key_of(ctx, op, state, f, f"coordinates-raised-{type(ex).__name__}"), detail({"exception": repr(ex)}), "projection raised")
                continue
            diffs = []
            if pr["pos"] != f["pos"]:
                diffs.append("pos")
            if pr["rev"] != f["rev"] and f["pos"]:  # a feature of which the view retains nothing has no orientation to speak of
                diffs.append("rev")
            if diffs:
                rep.add(
                    key_of(ctx, op, state, f, ",".join(diffs)),
                    detail({"feature": f["name"], "observed": pr, "expected": f}),
                    f"feature {f['name']} on the view differs in {diffs}",
                )
            if partial and slices:
                rep.stats["slices"] += 1
                want = I.render(root, f["read"], f["fcomp"], compl)
                try:
                    s = I.slice_str(g)
                except Exception as ex:
                    rep.add(
                        key_of(ctx, "get_slice", state, f, f"spans{I.runs(f['pos'])}:raised-{type(ex).__name__}"),
                        detail({"feature": f["name"], "exception": repr(ex), "expected_slice": want, "observed": pr}),
                        f"get_slice() of feature {f['name']} raised {ex!r}",
                    )
                    continue
                if s != want:
                    rep.add(
                        key_of(ctx, "get_slice", state, f, "str" if not diffs else "str-after-" + ",".join(diffs)),
                        detail({"feature": f["name"], "observed_slice": s, "expected_slice": want, "observed": pr, "expected": f}),
                        f"get_slice() of feature {f['name']} is {s!r}, its residues retained by the view read {want!r}",
                    )
                elif f["pos"] and f["vis"] == "in" and f["inside"] != "in":
                    rep.nontrivial.add((ctx["ukey"], dumps(state[2:]), f["name"]))
    return raised


def window_queries(rep, ctx, o, state, look, chain, raised):
    """get_features(start, stop, allow_partial, biotype / name) for the windows of a Look record"""
    rate = G["window_rate"]
    names = [f["name"] for f in look["obs"]]
    n = len(state[2])
    for ws, we, partial, filt, sa, sb in look["queries"]:
        if ws == 0 and we == n and filt == "none":
            continue  # done by observe()
        if rate < 1 and (zlib.crc32(f"{ctx['ukey']}{ctx['kind']}{ctx['mode']}{state[2:]}{ws},{we},{partial},{filt}".encode()) ^ G["seed"]) % 9973 >= rate * 9973:
            continue
        if raised.get(partial):
            rep.stats["window_queries_skipped_after_raise"] += 1
            continue
        rep.stats["window_queries"] += 1
        allowed = dict(zip(names, (sa, sb)))
        wcls = "whole" if (ws == 0 and we == n) else ("prefix" if ws == 0 else ("suffix" if we == n else "inner"))
        op = f"get_features-window-{'partial' if partial else 'strict'}"

        def detail(extra):
            return lambda: {
                "kind": ctx["kind"], "mode": ctx["mode"], "root": ctx["root"], "offset": ctx["off"], "features": ctx["feats"],
                "chain": chain(), "state": state, "view": str(o),
                "call": f"get_features(start={ws}, stop={we}, allow_partial={partial}, filter={filt})", "allowed": allowed, **extra,
            }

        try:
            got = I.query(o, ws, we, partial, filt)
        except Exception as ex:
            rep.add(key_of(ctx, op, state, None, f"{wcls}:{filt}:raised-{type(ex).__name__}"), detail({"exception": repr(ex)}), f"window query raised {ex!r}")
            continue
        ret = [g.name for g in got]
        for nm in names:
            st = allowed[nm]
            if st == "in" and nm not in ret:
                rep.add(key_of(ctx, op, state, None, f"{wcls}:{filt}:missing"), detail({"returned": ret}), f"feature {nm} overlapping/inside the window not returned")
            elif st == "out" and nm in ret:
                rep.add(key_of(ctx, op, state, None, f"{wcls}:{filt}:unexpected"), detail({"returned": ret}), f"feature {nm} returned for a window it is not in")
        if len(set(ret)) != len(ret):
            rep.add(key_of(ctx, op, state, None, f"{wcls}:{filt}:duplicates"), detail({"returned": ret}), "a feature was returned twice")


def check_created(rep, ctx, created, state, obs):
    """the Feature objects add_feature() hands back denote what was asked for"""
    for g, f in zip(created, obs):
        rep.stats["created"] += 1
        pr = I.project(g)
        want = I.render(ctx["root"], f["read"], f["fcomp"], ctx["compl"])
        try:
            s = I.slice_str(g)
        except Exception as ex:
            s = f"raised {ex!r}"
            if pr["pos"] == f["pos"] and pr["rev"] == f["rev"]:
                rep.add(
                    key_of(ctx, "get_slice", state, f, f"spans{I.runs(f['pos'])}:raised-{type(ex).__name__}"),
                    lambda: {"kind": ctx["kind"], "mode": ctx["mode"], "root": ctx["root"], "offset": ctx["off"], "features": ctx["feats"],
                             "chain": [], "feature": f["name"], "exception": repr(ex), "expected_slice": want, "observed": pr},
                    f"get_slice() of the feature returned by add_feature() raised {ex!r}",
                )
                continue
        if pr["pos"] != f["pos"] or pr["rev"] != f["rev"] or s != want:
            rep.add(
                key_of(ctx, "add_feature-result", state, f, "differs"),
                lambda: {"kind": ctx["kind"], "root": ctx["root"], "offset": ctx["off"], "features": ctx["feats"], "observed": pr,
                         "observed_slice": s, "expected": f, "expected_slice": want},
                "the Feature returned by add_feature() does not show the requested spans",
            )


# ------------------------------------------------------------------ one universe on one real class
def sampled(ctx, fk, act, args, rate):
    if rate >= 1:
        return True
    h = zlib.crc32(f"{ctx['ukey']}{ctx['kind']}{ctx['mode']}{fk}{act}{args}".encode()) ^ G["seed"]
    return h % 9973 < rate * 9973


def check_variant(rep, kind, mode, ukey, u):
    meta = u["meta"]
    off, feats, compl = meta["off"], meta["feats"], meta["compl"]
    root = I.root_string(G["seed"], ukey, meta["P"])
    ctx = {"kind": kind, "mode": mode, "off": off, "root": root, "compl": compl, "feats": feats, "ukey": ukey, "via": meta["onslice"]}
    rootkey = dumps(meta["from"])
    rep.stats["universe_variants"] += 1
    try:
        seq, created = I.make_universe(kind, mode, root, off, feats, meta["onslice"])
    except Exception as ex:
        rep.add(f"{kind}:setup-{mode}:raised-{type(ex).__name__}", lambda: {"root": root, "offset": off, "features": feats, "exception": repr(ex)}, "cannot build the universe")
        return
    looks, trans = u["looks"], u["trans"]
    parent = {}

    def chain_of(key):
        def f():
            out = []
            k = key
            while k in parent:
                k, act, args = parent[k]
                out.append([act, args])
            return out[::-1]

        return f

    if mode == "add-slice":
        # the features were added on the slice root[lo:hi]: the objects add_feature() returned live on that view
        via = meta["onslice"]
        for act, args, tk, obs in trans[rootkey]:
            if act == "Slice" and args == [via["lo"], via["hi"]]:
                check_created(rep, ctx, created, json.loads(tk), obs)
    elif created is not None:
        check_created(rep, ctx, created, meta["from"], looks[rootkey]["obs"])
    if mode in ("add-offset", "add-slice"):
        # Adding through a sequence that has an offset / is a slice: the root's queries must show the same features.
        # One question, one answer: any disagreement is reported under one key (the database holds the wrong coordinates,
        # so every later observation is off in one way or another).
        sub = Report()
        look = looks[rootkey]
        raised = observe(sub, ctx, seq, look["from"], look["obs"], chain_of(rootkey), slices=False)
        window_queries(sub, ctx, seq, look["from"], look, chain_of(rootkey), raised)
        rep.stats["states"] += 1
        for k, v in sub.stats.items():
            rep.stats[k] += v
        if sub.fail:
            first = sorted(sub.fail)[0]
            d = dict(sub.fail[first][1])
            d["all_disagreements"] = sorted(sub.fail)
            what = "a sequence with an annotation offset" if mode == "add-offset" else "a slice"
            rep.add(f"{kind}:add_feature:{'offset' if mode == 'add-offset' else 'on-slice'}:later-queries-disagree", lambda: d,
                    f"features added with add_feature() on {what} are not what the sequence's own queries return afterwards")
        return
    objs = {rootkey: seq}
    taint = {rootkey: None}
    queue = deque([rootkey])

    def judged(tkey, fn):
        """run the observations fn(report); behind a feature slice / degap every disagreement goes under that step's key"""
        if tkey is None:
            return fn(rep)
        sub = Report()
        out = fn(sub)
        for k, v in sub.stats.items():
            rep.stats[k] += v
        rep.nontrivial |= sub.nontrivial
        if sub.fail:
            first = sorted(sub.fail)[0]
            d = dict(sub.fail[first][1])
            d["all_disagreements"] = sorted(sub.fail)
            rep.add(tkey, lambda: d, "queries on a sequence derived by seq[feature] / degap() do not show the same residues: " + sub.fail[first][2])
        return out

    deferred = []  # (state, call) pairs postponed by the rule below
    retry = {}  # state -> calls to make now
    while queue or deferred:
        if not queue:
            fk, act, argstxt = deferred.pop(0)
            retry = {fk: {(act, argstxt)}}
            first_visit = False
        else:
            fk = queue.popleft()
            retry = {}
            first_visit = True
        o = objs[fk]
        look = looks[fk]
        state = look["from"]
        if first_visit:
            rep.stats["states"] += 1

            def at_state(r, o=o, state=state, look=look, fk=fk):
                raised = observe(r, ctx, o, state, look["obs"], chain_of(fk))
                window_queries(r, ctx, o, state, look, chain_of(fk), raised)
                if not raised.get(True) and sampled(ctx, fk, "algebra", "", G["algebra_rate"]):
                    ALG.algebra_checks(r, ctx, o, state, look, chain_of(fk), off_class, view_dir, feat_class)

            judged(taint[fk], at_state)
        # group the successors the spec allows per call
        calls = {}
        for act, args, tk, obs in trans.get(fk, ()):
            calls.setdefault((act, dumps(args)), []).append((tk, obs))
        for (act, argstxt), alts in calls.items():
            if not first_visit and (act, argstxt) not in retry[fk]:
                continue
            args = json.loads(argstxt)
            tree = any(tk in looks and tk not in objs for tk, _ in alts)
            if tree and act in ("FeatSlice", "Degap") and taint[fk] is None and fk not in retry:
                # prefer to reach a state through slices / rc / copies: come back to this call when nothing else is left
                deferred.append((fk, act, argstxt))
                continue
            if not tree and not sampled(ctx, fk, act, args, G["edge_rate"]):
                rep.stats["transitions_not_sampled"] += 1
                continue
            try:
                o2 = I.apply(o, act, args)
            except Exception as ex:
                # making the view itself failed: that is property C01's business (e.g. new-style copy() with an offset);
                # a feature slice that cannot be made was already reported at this state (get_features / get_slice)
                rep.stats[f"unsupported:{kind}:{act}:{type(ex).__name__}"] += 1
                continue
            rep.stats["transitions"] += 1
            if len(alts) > 1:
                # the spec leaves open whether the result still answers queries: the real object chooses
                keeps = getattr(o2, "annotation_db", None) is not None
                pick = [a for a in alts if json.loads(a[0])[6] == keeps]
                tk, obs = (pick or alts)[0]
            else:
                tk, obs = alts[0]
            t2 = taint[fk]
            if t2 is None and act in ("FeatSlice", "Degap"):
                t2 = derived_key(ctx, act, state, args, look["obs"])
            if tk in looks and tk not in objs:
                objs[tk] = o2
                taint[tk] = t2
                parent[tk] = (fk, act, args)
                queue.append(tk)
                continue
            to = json.loads(tk)

            def chain(pk=fk, pact=act, pargs=args):
                return chain_of(pk)() + [[pact, pargs]]

            judged(t2, lambda r, o2=o2, to=to, obs=obs, chain=chain: observe(r, ctx, o2, to, obs, chain))
            if len(rep.samples) < 1 and act == "Slice" and any(f["pos"] for f in obs) and len(to[2]) < len(state[2]):
                rep.samples.append({"kind": kind, "mode": mode, "root": root, "offset": off, "features": feats, "chain": chain(), "view": str(o2), "expected": obs})
    missing = [k for k in looks if k not in objs]
    if missing:
        rep.stats["states_not_built"] += len(missing)


def derived_key(ctx, act, state, args, obs):
    """structural key for everything observed behind seq[feature] / degap(): which kind of view it was taken from.

    origin = the view starts at absolute position 0 and reads forward (relative and absolute coordinates coincide),
    displaced = anything else (slice not starting at 0, annotation offset, reverse complement)
    """
    where = "origin" if state[0] + min(state[2]) == 0 and not state[3] else "displaced"
    if act == "Degap":
        return f"{ctx['kind']}:degap:{where}:later-queries-disagree"
    f = [x for x in obs if x["name"] == args[0]][0]
    first = "pos0" if f["pos"] and f["pos"][0] == 0 else "pos+"  # does the feature start at the first position of the view?
    return f"{ctx['kind']}:feature-slice:{where}:{first}:later-queries-disagree"


def check_orders(rep, kind, ukey, u):
    """the universe's features supplied with their spans in every other order (Universe.orders), through a db and through
    seq.add_feature: the root and the views one call away must show the same features; a refused add_feature leaves no trace"""
    meta = u["meta"]
    off, feats, compl = meta["off"], meta["feats"], meta["compl"]
    root = I.root_string(G["seed"], ukey, meta["P"])
    rootkey = dumps(meta["from"])
    looks, trans = u["looks"], u["trans"]
    for n, given in enumerate(zip(*meta["orders"])):
        if G["order_rate"] < 1 and (zlib.crc32(f"{ukey}{kind}{n}".encode()) ^ G["seed"]) % 9973 >= G["order_rate"] * 9973:
            continue
        for mode in ("db-order", "add-order"):
            via = {"given": [list(q) for q in given]}
            ctx = {"kind": kind, "mode": mode, "off": off, "root": root, "compl": compl, "feats": feats, "ukey": ukey, "via": via}
            rep.stats["universe_variants"] += 1
            try:
                seq, refused = I.make_universe(kind, mode, root, off, feats, via)
            except Exception as ex:
                rep.add(f"{kind}:{mode}:setup:raised-{type(ex).__name__}", lambda: {"kind": kind, "mode": mode, "root": root, "offset": off, "features": feats, "via": via, "exception": repr(ex)},
                        f"supplying the spans as {via['given']} raised {ex!r}")
                continue
            gone = {nm for nm, _ in refused}
            views = [(rootkey, seq, [])]
            for act, args, tk, _ in trans.get(rootkey, ()):
                P = meta["P"]
                if tk in looks and (act == "Rc" or (act == "Slice" and args in ([1, P], [0, P - 1], [2, P - 1]))):
                    try:
                        views.append((tk, I.apply(seq, act, args), [[act, args]]))
                    except Exception as ex:
                        rep.stats[f"unsupported:{kind}:{act}:{type(ex).__name__}"] += 1
            for key, o, chain in views:
                look = looks[key]
                rep.stats["states"] += 1
                # a refused add_feature is a stuttering step: that feature must not be there
                obs = [dict(f, vis="out", inside="out") if f["name"] in gone else f for f in look["obs"]]
                sub = Report()
                observe(sub, ctx, o, look["from"], obs, lambda chain=chain: chain)
                for k, v in sub.stats.items():
                    rep.stats[k] += v
                rep.nontrivial |= sub.nontrivial
                for fkey, (cnt, det, what) in sub.fail.items():
                    name = det.get("feature") if isinstance(det, dict) else None
                    if fkey.endswith(":unexpected") and name in gone:
                        why = dict(refused)[name]
                        det = dict(det, refused=why)
                        rep.add(f"{kind}:add_feature:unordered-spans:refused-but-recorded", lambda det=det: det,
                                f"add_feature(spans={via['given']}) raised ({why}) but the record is there afterwards")
                    else:
                        rep.add(fkey, lambda det=det: det, what)


def modes_for(u, ukey):
    """how the universe's features get into the database"""
    off = u["meta"]["off"]
    if off:
        return ("db", "add-offset")
    extra = ("add-slice",) if u["meta"]["onslice"]["lo"] > 0 else ()
    if G["tier"] == "thorough":
        return ("add", "db") + extra
    # quick: add_feature on the root and a hand-filled database differ only in who writes the row; alternate
    return (("add",) if (zlib.crc32(ukey.encode()) ^ G["seed"]) % 2 else ("db",)) + extra


def run_universe(ukey):
    rep = Report()
    u = load_universe(G["files"][ukey])
    if u["meta"] is None:
        raise RuntimeError(f"no Universe record for {ukey}")
    for lst in u["trans"].values():
        lst.sort(key=lambda t: (t[0], t[1]))
    rep.stats["spec_states"] = len(u["looks"])
    rep.stats["spec_transitions"] = sum(len(v) for v in u["trans"].values())
    if G["level"] == "order":
        for kind in I.KINDS:
            check_orders(rep, kind, ukey, u)
        return rep.dump()
    if G["level"] == "names":
        for lvl in NM.LEVELS:
            NM.check_universe(rep, G, lvl, ukey, u)
        return rep.dump()
    if G["level"] == "aln":
        # Alignment.add_feature and a hand-filled database differ only in who writes the rows: alternate by universe
        pick = (zlib.crc32(ukey.encode()) ^ G["seed"]) % 2
        A.check_variant(rep, G, ("add", "db")[pick], ukey, u)
        return rep.dump()
    for kind in I.KINDS:
        for mode in modes_for(u, ukey):
            check_variant(rep, kind, mode, ukey, u)
    return rep.dump()


# ------------------------------------------------------------------ stages
_UKEY = {
    "seq": re.compile(r'^"\{\\"from\\":\[(\d+,\[\[[0-9,\[\]]*?\]\]),'),
    "aln": re.compile(r'^"\{\\"from\\":\[(\[[0-9,]*\],\[[0-9,]*\],\[\[[0-9,\[\]]*?\]\],\\"[+-]\\"),'),
}
_NKEY = {"seq": 2, "aln": 4, "names": 3, "stride": 2, "order": 2}
_ACT = re.compile(r'\\"act\\":\\"(\w+)\\"')
_ACTIONS = {"seq": {"Universe", "Look", "Slice", "Rc", "RevSlice", "Copy", "FeatSlice", "Degap"}, "aln": {"Universe", "Look", "Slice", "Rc"},
            "names": {"Universe", "Look", "Slice", "Rc"}, "stride": {"Universe", "Look", "Slice", "Rc"},
            "order": {"Universe", "Look", "Slice", "Rc"}}


def split_by_universe(emit, scratch, name, level):
    """one file of raw records per universe (the emitted file of the larger configurations does not fit in memory as objects)"""
    files, handles = {}, {}
    acts = defaultdict(int)
    n = 0
    with open(emit) as fh:
        for line in fh:
            if not line.strip():
                continue
            a = _ACT.search(line)
            acts[a.group(1) if a else "?"] += 1
            m = _UKEY["seq" if level in ("stride", "order") else level].match(line) if level in _UKEY or level in ("stride", "order") else None
            if m is None:
                r = json.loads(line)
                r = json.loads(r) if isinstance(r, str) else r
                ukey = dumps(r["from"][: _NKEY[level]])
            else:
                ukey = "[" + m.group(1).replace('\\"', '"') + "]"
            h = handles.get(ukey)
            if h is None:
                files[ukey] = scratch / f"u-{name}-{len(files)}.ndjson"
                h = handles[ukey] = open(files[ukey], "w")
            h.write(line)
            n += 1
    for h in handles.values():
        h.close()
    never = _ACTIONS[level] - set(acts)
    if never:
        raise RuntimeError(f"vacuous model run: actions never taken: {sorted(never)}")
    return files, n, dict(acts)


def load_universe(path):
    u = {"meta": None, "looks": {}, "trans": defaultdict(list)}
    for r in read_emitted(path):
        st = r["from"]
        act = r["act"]
        if act == "Universe":
            u["meta"] = r
        elif act == "Look":
            u["looks"][dumps(st)] = r
        else:
            u["trans"][dumps(st)].append((act, r["args"], dumps(r["to"]), r.get("obs")))
    return u


class TlcJob:
    """TLC in a background thread: the model checker of the next stage runs while this stage is replayed"""

    def __init__(self, scratch, name, cfg, level, workers):
        self.name, self.level = name, level
        self.emit = scratch / f"emit-{name}.ndjson"
        self.res = self.err = None
        spec = {"seq": "Annotation", "aln": "AnnotationAln", "hist": "AnnotationHistory", "names": "AnnotationNames", "stride": "AnnotationStride", "order": "Annotation"}[level]

        def work():
            try:
                self.res = run_tlc(spec, cfg, scratch, workers=workers, env={"EMIT_FILE": self.emit}, timeout=3000)
            except BaseException as ex:  # re-raised in the main thread
                self.err = ex

        self.thread = threading.Thread(target=work, daemon=True)
        self.started = False

    def start(self):
        if not self.started:
            self.started = True
            self.thread.start()

    def result(self):
        self.start()
        self.thread.join()
        if self.err is not None:
            raise self.err
        return self.res


def stage(run, scratch, job, totals, tm, edge_rate, window_rate, algebra_rate=0.0):
    name, level = job.name, job.level
    res = job.result()
    run.add_tlc(res)
    tm[f"{name}.tlc_s"] = round(res.wall, 1)
    t0 = time.time()
    files, nrec, acts = split_by_universe(job.emit, scratch, name, level)
    tm[f"{name}.spec_transitions_by_action"] = acts
    os.unlink(job.emit)
    if not files:
        raise RuntimeError("TLC emitted nothing")
    G.update(files=files, seed=run.seed, tier=run.tier, edge_rate=edge_rate, window_rate=window_rate, level=level, algebra_rate=algebra_rate, names_rate=window_rate, order_rate=edge_rate)
    tm[f"{name}.emitted"] = nrec
    tm[f"{name}.universes"] = len(files)
    tm[f"{name}.split_s"] = round(time.time() - t0, 1)
    totals["emitted_records"] += nrec
    t0 = time.time()
    warmup()
    ctx = mp.get_context("fork")
    with ctx.Pool(NPROC) as pool:
        merge(run, pool.imap_unordered(run_universe, sorted(files), chunksize=1), totals)
    tm[f"{name}.replay_s"] = round(time.time() - t0, 1)
    for f in files.values():
        os.unlink(f)
    G.pop("files", None)


def hist_chunk(chunk):
    """replay the histories whose Look record starts in this byte range of the emitted file"""
    path, lo, hi = chunk
    rep = Report()
    rate, seed = G["hist_rate"], G["seed"]
    root = None
    with open(path, "rb") as fh:
        if lo:
            fh.seek(lo - 1)
            fh.readline()
        while fh.tell() < hi:
            line = fh.readline()
            if not line:
                break
            rep.stats["spec_states"] += 1
            if rate < 1 and (zlib.crc32(line) ^ seed) % 9973 >= rate * 9973:
                rep.stats["histories_not_sampled"] += 1
                continue
            r = json.loads(line)
            r = json.loads(r) if isinstance(r, str) else r
            if root is None:
                root = H.root_string(seed, r["P"])
            for kind in I.KINDS:
                H.check_history(rep, kind, r, root, seed)
            if not rep.samples and len(r["hist"]) >= 3 and sum(c[0] == "Add" for c in r["hist"]) >= 1 and not rep.fail:
                rep.samples.append({"level": "history", "root": root, "hist": r["hist"], "expected": r["obs"]})
    return rep.dump()


def stage_hist(run, scratch, job, totals, tm, rate):
    name = job.name
    res = job.result()
    run.add_tlc(res)
    tm[f"{name}.tlc_s"] = round(res.wall, 1)
    size = os.path.getsize(job.emit)
    if not size:
        raise RuntimeError("TLC emitted nothing")
    n = NPROC * 6
    step = max(1, size // n)
    bounds = [min(size, i * step) for i in range(n)] + [size]
    parts = [(str(job.emit), bounds[i], bounds[i + 1]) for i in range(n) if bounds[i] < bounds[i + 1]]
    G.update(seed=run.seed, tier=run.tier, hist_rate=rate)
    t0 = time.time()
    warmup()
    ctx = mp.get_context("fork")
    with ctx.Pool(NPROC) as pool:
        merge(run, pool.imap_unordered(hist_chunk, parts), totals)
    tm[f"{name}.replay_s"] = round(time.time() - t0, 1)
    os.unlink(job.emit)


def warmup():
    for kind in I.KINDS:
        s, _ = I.make_universe(kind, "add", "ACGTRY", 0, [{"bio": "gene", "name": "a", "strand": "-", "spans": [[1, 3]]}])
        for g in I.query(s[1:5].rc(), partial=True):
            I.project(g), I.slice_str(g)


def replay_file(path):
    replay_file_detail(json.load(open(path)))


def replay_file_detail(d):
    if d.get("level") == "alignment":
        return A.replay(d)
    if d.get("level") == "history":
        return H.replay(d)
    if d.get("level") == "names":
        return NM.replay(d)
    kind, mode = d["kind"], d.get("mode", "add")
    seq, _ = I.make_universe(kind, mode, d["root"], d["offset"], d["features"], d.get("via"))
    print(f"{kind} {mode} root {d['root']!r} offset {d['offset']} features {d['features']}")
    o = seq
    for act, args in d.get("chain", []):
        o = I.apply(o, act, args)
        print(f"  {act}{args} -> {str(o)!r} {o.parent_coordinates()}")
    for partial in (True, False):
        try:
            got = I.query(o, partial=partial)
            print(f"  get_features(allow_partial={partial}):")
            for g in got:
                try:
                    s = I.slice_str(g)
                except Exception as ex:
                    s = f"raised {ex!r}"
                print(f"     {g.biotype} {g.name} coords={g.map.get_coordinates()} reversed={g.reversed} slice={s!r}")
        except Exception as ex:
            print(f"  get_features(allow_partial={partial}) raised {ex!r}")
    for k in ("call", "expected", "expected_slice", "observed", "observed_slice", "exception", "allowed", "returned"):
        if k in d:
            print(f"  recorded {k}: {d[k]!r}"[:600])


def replay_case(detail):
    """hook of ./check C04 --replay: redo the recorded calls on the real classes and print what they answer now"""
    replay_file_detail(detail)
    return {"reproduced": True, "note": "compare the answers printed above with the recorded expectation"}


def check(run: Run):
    if getattr(run, "replay", None):
        replay_file(run.replay)
        raise SystemExit(0)
    tier = run.tier
    for old in (REPLAYS / "C04").glob(f"{tier}-*.json"):
        old.unlink()
    totals = defaultdict(int)
    tm = {}
    env = os.environ.get
    if tier == "quick":
        plan = [  # (stage, cfg, level, edge rate, window rate)
            ("views", "MC_Annotation_quick.cfg", "seq", float(env("VERIF_C04_EDGES", "0.03")), float(env("VERIF_C04_WINDOWS", "0.03"))),
            ("aln", "MC_Annotation_aln_quick.cfg", "aln", float(env("VERIF_C04_EDGES", "0.02")), 0),
            # every interleaving of 3 calls (slice / rc / copy / degap / to_rna / add_feature on any object made so far)
            ("hist", "MC_Annotation_hist_quick.cfg", "hist", float(env("VERIF_C04_HIST", "0.1")), 0),
            # look-alike sequence names / feature names / biotypes in one shared db: a seeded sample of the queries of every view
            ("names", "MC_Annotation_names.cfg", "names", 0, float(env("VERIF_C04_NAMES", "0.15"))),
            # strided views seq[a:b:k], k = 1..3, rc of them, strided slices of slices: every state, a seeded sample of the other histories
            ("stride", "MC_Annotation_stride_quick.cfg", "stride", float(env("VERIF_C04_STRIDE", "0.03")), 0),
            # spans supplied in every order (2- and 3-span features), through a db and through seq.add_feature
            ("order", "MC_Annotation_order_quick.cfg", "order", float(env("VERIF_C04_ORDER", "0.2")), 0),
        ]
    else:
        plan = [
            # P = 5, all filters: every transition, every window
            ("small", "MC_Annotation_thorough_small.cfg", "seq", 1.0, 1.0),
            # alignments of 6 columns, row x of 4 residues: every state, a seeded sample of the other histories
            ("aln", "MC_Annotation_aln_thorough.cfg", "aln", float(env("VERIF_C04_EDGES", "0.1")), 0),
            # P = 6, views of copies / feature slices explored as well: every state, seeded sample of the other histories and of the windows
            ("views", "MC_Annotation_thorough.cfg", "seq", float(env("VERIF_C04_EDGES", "0.05")), float(env("VERIF_C04_WINDOWS", "0.07"))),
            # every interleaving of 4 calls: a seeded sample of the histories (all of depth <= 3 are in the quick configuration)
            ("hist", "MC_Annotation_hist_thorough.cfg", "hist", float(env("VERIF_C04_HIST", "0.07")), 0),
            ("names", "MC_Annotation_names.cfg", "names", 0, 1.0),
            ("stride", "MC_Annotation_stride_thorough.cfg", "stride", float(env("VERIF_C04_STRIDE", "0.03")), 0),
            ("order", "MC_Annotation_order.cfg", "order", 1.0, 0),
        ]
    # share of the states on which the feature algebra / masking is exercised as well
    alg_rates = {"views": float(env("VERIF_C04_ALGEBRA", "0.05" if tier == "quick" else "0.05")), "small": float(env("VERIF_C04_ALGEBRA", "0.5")),
                 "aln": float(env("VERIF_C04_ALGEBRA", "0.15" if tier == "quick" else "0.15"))}
    only = env("VERIF_C04_STAGES")  # debugging aid
    if only:
        plan = [p for p in plan if p[0] in only.split(",")]
    with Scratch("C04") as scratch:
        # all model-checking runs start now (they share the TLC worker budget) and are replayed in order as they finish
        # at most three model-checking runs at a time (8 TLC workers between them); the next one starts when a stage is done
        share = {"small": 2, "views": 4, "aln": 2, "hist": 3, "names": 1, "stride": 3, "order": 2} if tier == "thorough" else {"views": 3, "aln": 1, "hist": 1, "names": 1, "stride": 1, "order": 1}
        jobs = [TlcJob(scratch, name, cfg, level, share.get(name, 2)) for name, cfg, level, _, _ in plan]
        for job in jobs[: 3 if tier == "thorough" else 6]:  # the quick models are small: all at once
            job.start()
        try:
            for job, (_, _, level, er, wr) in zip(jobs, plan):
                if level == "hist":
                    stage_hist(run, scratch, job, totals, tm, er)
                else:
                    stage(run, scratch, job, totals, tm, er, wr, alg_rates.get(job.name, 0.0))
                for nxt in jobs:
                    if not nxt.started:
                        nxt.start()
                        break
        finally:
            for job in jobs:
                if job.started:
                    job.thread.join()
    cases = (totals["queries"] + totals["window_queries"] + totals["slices"] + totals["created"] + totals["algebra"]
             + totals["aln_queries"] + totals["aln_slices"] + totals["aln_projections"] + totals["aln_created"]
             + totals["aln_region_queries"] + totals["aln_algebra"] + 2 * totals["history_objects"] + totals["names_queries"])
    run.cov["traces_validated_against_impl"] = totals["states"] + totals["transitions"] + totals["histories"]
    run.cov["evaluations"] = cases
    run.cov["distinct_nontrivial"] = totals["distinct_nontrivial"]
    run.cov["exhaustive"] = tier == "thorough"
    run.cov["rule"] = (
        "Sequence level: TLC enumerates every universe (offset 0/3 x every 1-/2-span placement of feature a on 0..P, feature b its "
        "mirror image on the minus strand) and per universe the closed set of views reachable by seq[a:b] (0<=a<b<=len), rc(), "
        "copy(sliced), seq[feature], degap() (derived objects bounded by MaxCopy) and seq[::-1]; every state is rebuilt on old/new "
        "Sequence (features via add_feature on the root / a root with offset / a slice, or a BasicAnnotationDb with absolute "
        "coordinates) by a recorded call chain and observed (whole-view queries with and without partial matches, coordinates, "
        "orientation, slice string, window x partial x filter queries); transitions outside the chains are applied and observed too. "
        "Alignment level: every placement of a row of U residues in L columns x 2 layouts of a second row x every 1-/2-span feature "
        "x strand x every view aln[a:b] / rc(): alignment feature columns, rows of its slice, projection onto the other row; the same spans "
        "as an alignment-level feature. "
        "quick: P=5 / U=3,L=4, seeded 3% sample of the non-chain transitions and windows; thorough: P=5 with every transition and "
        "window, P=6 with MaxCopy=1 (5% of non-chain transitions, 7% of windows), U=4,L=6 (10% of non-chain transitions). "
        "Feature algebra (Algebra record of every state): as_one_span, shadow, without_lost_spans, get_slice(complete=True), union, "
        "with_masked_annotations (3 biotype sets x shadow) on the same states (quick 5% of them, thorough half of P=5 and 5% of P=6); "
        "alignments: as_one_span / get_slice(allow_gaps=True) and Alignment.with_masked_annotations. "
        "Order of events (AnnotationHistory.tla): every history of MaxDepth calls, each on any object made so far (slice head/tail/mid, "
        "rc, copy, degap, to_rna, add_feature of the first position / of the rest on either strand, at most 2 adds), P=5; after each "
        "history every object is asked what it sees (quick: depth 3, 10% of the histories; thorough: depth 4, 7%). "
        "Identity of records (AnnotationNames.tla): 8 universes (one family of look-alike strings at a time for sequence names / "
        "feature names / biotypes) x every view [a:b] / rc of 3 sequences of length 4 sharing one db x sequence x filter (none, name=, "
        "biotype=) x partial, on an old-style Alignment, old / new Sequences and members of a new-style collection (quick: 15% of the queries). "
        "Strided views (AnnotationStride.tla): the same universes with views closed under seq[a:b:k], k in 1..3 (step <= 3), and rc(): "
        "every state observed (partial / strict whole-view queries, coordinates, orientation, slice string), 3% of the other histories; "
        "quick P=5, thorough P=6. "
        "Order of the spans supplied (Orders / Normalise in Annotation.tla, MC_Annotation_order*.cfg): every 2- and 3-span feature "
        "(P=6; quick P=5 and 20% of the orders) supplied in every other order of its spans and with every span end-first, through "
        "db.add_feature and through seq.add_feature (a refused call must leave no record); the root, its rc and three slices are observed; "
        "alignments hand the spans to db.add_feature in reverse order. "
        "distinct_nontrivial = distinct (universe or history, view, feature) whose feature is only partly retained by the view and whose "
        "slice (string / alignment rows) was compared and agreed."
    )
    run.note("replay", dict(totals))
    run.note("stages", tm)
    run.assumptions += [
        "expected slice strings are rendered from the spec's root positions with the complement table defined in Annotation.tla / AnnotationAln.tla; roots use 12 IUPAC symbols that differ from their complement, each at most once",
        "views are slices with 0 <= start < stop <= len (stride 1 in Annotation.tla, strides 1..3 in AnnotationStride.tla), rc(), copy(), seq[feature], degap() of gap-free sequences; seq[::-1] is only required to report no features; negative/None slice arguments (C01) and empty views are not driven",
        "strided views: a feature with a displayed residue must be returned by the partial query and shown exactly; whether a feature whose extent reaches into residues the stride skips at the ends of the view counts as inside / overlapping is left open (opt); window queries, copies, feature slices and the feature algebra are not driven on strided views",
        "two features per universe (plus-strand a, its mirror image b on the minus strand), 1-2 spans each; parent/child records (get_children/get_parent: name matching is by SQL LIKE and has no stated coordinate semantics) and drawables are not driven",
        "derived features (as_one_span, shadow, without_lost_spans) are required to keep the strand of the feature they derive from, as implemented (the docstrings are silent); for the union of a plus- and a minus-strand feature only the covered positions are stated, not its strand or slice",
        "with_masked_annotations: only the masked string is compared (mask_char '?'); the annotation db the result carries is not queried",
        "histories: add_feature(spans) on a view counts the spans from the view's plus-strand start along the plus strand of the parent (that is what the returned Feature shows on forward and reverse complemented views; the docstring only says 'coordinates for this sequence'); roots avoid A/T/U so that to_rna() does not change the string; single-span records only",
        "a feature whose extent overlaps a window only with the gap between its spans may or may not be returned (the statement leaves extent vs. residue overlap open); a slice seq[feature] may keep or drop the annotation db when it is one contiguous run, and must drop it otherwise",
        "exceptions raised while making a view (e.g. new-style copy() of a sequence with an offset, property C01) are counted as unsupported:*, not as C04 violations; so are slices / projections of features of which the view retains nothing",
        "alignments: old-style Alignment with two rows, one feature on a row in sequence coordinates (queried with on_alignment=False) and the same spans as an alignment-level feature (on_alignment=True), no annotation offsets on rows; Alignment.degap(), ArrayAlignment and new-style collections are not driven",
        "add_feature on a reverse complemented sequence is not driven (the documentation does not say which strand the spans refer to)",
        "seqid, feature name and biotype are compared by exact string equality; strings containing '%' are not driven (annotation_db documents '%' as the wildcard of its searches)",
        "spec -> code only: no recorded-trace (code -> spec) validation for this property",
    ]


if __name__ == "__main__":
    sys.exit(main_wrapper(check, "C04"))
